#!/bin/bash
# Determinism self-test: for every built harness and property, run N seeded
# cases twice in different processes at different worker counts and compare
# the per-run trace hashes. Any divergence is a harness error (exit 2).
set -u
VERIF_DIR="$(cd "$(dirname "$0")" && pwd)"
N="${1:-300}"
cd "$VERIF_DIR/sim" || exit 2
export CARGO_NET_OFFLINE=true
fail=0
tmp="$(mktemp -d /var/tmp/andasim-det.XXXXXX)"
DEFAULT_PAIRS="h_store:C07 h_store:C08 h_store:C09 h_index:C10 h_index:C11 h_index:C12 h_db:C01 h_db:C02 h_db:C04 h_db:C05 h_db:C06 h_nexus:C17 h_nexus:C18 h_nexus:C19 h_nexus:C20 h_server:C14 h_index:C04"
for pair in ${DET_PAIRS:-$DEFAULT_PAIRS}; do
  H="${pair%%:*}"; ID="${pair##*:}"
  [ -d "$VERIF_DIR/sim/$H" ] || continue
  cargo build --release --offline -p "$H" >/dev/null 2>&1 || { echo "build failed: $H"; fail=1; continue; }
  BIN="$VERIF_DIR/target/release/$H"
  NN="$N"
  case "$ID" in C09|C12) NN=$(( N / 10 + 4 ));; C01|C02|C04) NN=$(( N / 3 + 4 ));; esac
  for seed in 1 7; do
    "$BIN" --property "$ID" --seed "$seed" --runs "$NN" --budget 3600 --workers 16 --evidence "$tmp/e1.json" --hashes-out "$tmp/a.txt" >/dev/null 2>&1
    rc1=$?
    "$BIN" --property "$ID" --seed "$seed" --runs "$NN" --budget 3600 --workers 3 --evidence "$tmp/e2.json" --hashes-out "$tmp/b.txt" >/dev/null 2>&1
    rc2=$?
    if [ "$rc1" -ge 2 ] && [ ! -s "$tmp/a.txt" ]; then echo "SKIP $H $ID (not served)"; break; fi
    if ! cmp -s "$tmp/a.txt" "$tmp/b.txt"; then
      echo "DIVERGENCE harness=$H property=$ID seed=$seed"; diff "$tmp/a.txt" "$tmp/b.txt" | head -5; fail=1
    else
      echo "deterministic: $H $ID seed=$seed runs=$(wc -l < "$tmp/a.txt") rc=$rc1/$rc2"
    fi
  done
done
rm -rf "$tmp"
[ "$fail" = 0 ] || exit 2
exit 0
