//! C08 — wrapper writes are atomic under crashes; garbage collection is safe.
//!
//! Two modes:
//! * `Sweep`: one client runs a generated sequence of put / multipart / copy /
//!   rename / delete / collect_garbage (optionally over keys preloaded in the
//!   pre-0.10 legacy layout); the disk is forked immediately before EVERY
//!   inner-store mutation; every fork is booted with a cold wrapper and
//!   checked: each key reads back, in full, the value of its last completed
//!   commit or the interrupted one; listed ⇒ readable; rename never loses the
//!   value; GC after the reboot changes no read; the store accepts new writes.
//!   Optionally one in-run fault (torn payload write, fail-before, unknown
//!   outcome) replaces the crash.
//! * `GcRace`: collect_garbage runs as a task concurrently with 1–2 writer
//!   tasks and a reader, the scheduler interleaving GC's list pages, commit
//!   point re-reads and deletes with the writers' payload write and pointer
//!   switch, under clock jumps around the GC floor.

use bytes::Bytes;
use futures::StreamExt;
use object_store::memory::InMemory;
use object_store::path::Path;
use object_store::{
    CopyMode, CopyOptions, ObjectStore, ObjectStoreExt, PutMode, PutOptions, PutPayload,
    RenameOptions, RenameTargetMode,
};
use serde::{Deserialize, Serialize};
use simcore::batch::{Harness, RunReport, Tier, Violation};
use simcore::rng::{Rng, Sig};
use simcore::sim::{LocalTask, Outcome};
use simcore::{ClockMode, FaultKind, FaultSpec, Policy, Schedule, Sim, SimConfig, SimStore, Site, violation};
use std::collections::BTreeMap;
use std::sync::{Arc, Mutex};

use crate::common::*;

#[derive(Clone, Debug, Serialize, Deserialize, PartialEq)]
pub enum WOp {
    Put { key: u8, val: Val, create: bool },
    Multi { key: u8, parts: Vec<Val>, abort: bool },
    Copy { from: u8, to: u8, create: bool },
    Rename { from: u8, to: u8, create: bool },
    Delete { key: u8 },
    Gc,
    Get { key: u8 },
}

#[derive(Clone, Debug, Serialize, Deserialize, PartialEq)]
pub enum Mode {
    Sweep,
    GcRace,
}

#[derive(Clone, Debug, Serialize, Deserialize)]
pub struct Case {
    pub seed: u64,
    pub mode: Mode,
    pub wrapper: WrapperKind,
    pub cache: u64,
    pub legacy: Vec<(u8, Val)>,
    /// Sweep: the sequence. GcRace: the sequential prefix.
    pub ops: Vec<WOp>,
    /// GcRace: concurrent tasks (task 0 is the collector).
    pub tasks: Vec<Vec<WOp>>,
    /// Orphan generations planted before the race: (key, val, age_ms)
    pub orphans: Vec<(u8, Val, u32)>,
    pub fault: Option<FaultSpec>,
    pub clock: ClockMode,
    pub list_page: u32,
    pub schedule: Schedule,
    pub reboot_clock_delta: i64,
}

pub struct H;

pub(crate) type Model = BTreeMap<u8, Bytes>;

fn multi_bytes(parts: &[Val]) -> Bytes {
    let mut v = Vec::new();
    for p in parts {
        v.extend_from_slice(&p.bytes());
    }
    Bytes::from(v)
}

/// Applies `op` to the sequential model; returns whether it succeeds.
pub(crate) fn model_apply(m: &mut Model, op: &WOp) -> bool {
    match op {
        WOp::Put { key, val, create } => {
            if *create && m.contains_key(key) {
                return false;
            }
            m.insert(*key, val.bytes());
            true
        }
        WOp::Multi { key, parts, abort } => {
            if !*abort {
                m.insert(*key, multi_bytes(parts));
            }
            true
        }
        WOp::Copy { from, to, create } => {
            let Some(v) = m.get(from).cloned() else {
                return false;
            };
            if *create && m.contains_key(to) {
                return false;
            }
            m.insert(*to, v);
            true
        }
        WOp::Rename { from, to, create } => {
            let Some(v) = m.get(from).cloned() else {
                return false;
            };
            if from == to {
                return !*create;
            }
            if *create && m.contains_key(to) {
                return false;
            }
            m.insert(*to, v);
            m.remove(from);
            true
        }
        WOp::Delete { key } => m.remove(key).is_some(),
        WOp::Gc | WOp::Get { .. } => true,
    }
}

pub(crate) async fn real_apply(w: &Wrapper, store: &dyn ObjectStore, op: &WOp) -> Result<(), String> {
    match op {
        WOp::Put { key, val, create } => {
            let mode = if *create { PutMode::Create } else { PutMode::Overwrite };
            store
                .put_opts(
                    &key_path(*key),
                    PutPayload::from(val.bytes()),
                    PutOptions {
                        mode,
                        ..Default::default()
                    },
                )
                .await
                .map(|_| ())
                .map_err(|e| e.to_string())
        }
        WOp::Multi { key, parts, abort } => {
            let mut up = store
                .put_multipart(&key_path(*key))
                .await
                .map_err(|e| e.to_string())?;
            for p in parts {
                up.put_part(PutPayload::from(p.bytes()))
                    .await
                    .map_err(|e| e.to_string())?;
            }
            if *abort {
                up.abort().await.map_err(|e| e.to_string())
            } else {
                up.complete().await.map(|_| ()).map_err(|e| e.to_string())
            }
        }
        WOp::Copy { from, to, create } => {
            let mode = if *create { CopyMode::Create } else { CopyMode::Overwrite };
            store
                .copy_opts(
                    &key_path(*from),
                    &key_path(*to),
                    CopyOptions {
                        mode,
                        ..Default::default()
                    },
                )
                .await
                .map_err(|e| e.to_string())
        }
        WOp::Rename { from, to, create } => {
            let target_mode = if *create {
                RenameTargetMode::Create
            } else {
                RenameTargetMode::Overwrite
            };
            store
                .rename_opts(
                    &key_path(*from),
                    &key_path(*to),
                    RenameOptions {
                        target_mode,
                        ..Default::default()
                    },
                )
                .await
                .map_err(|e| e.to_string())
        }
        WOp::Delete { key } => store.delete(&key_path(*key)).await.map_err(|e| e.to_string()),
        WOp::Gc => w.gc().await.map(|_| ()).map_err(|e| e.to_string()),
        WOp::Get { key } => read_full(store, &key_path(*key)).await.map(|_| ()),
    }
}

fn touched(op: &WOp) -> Vec<u8> {
    match op {
        WOp::Put { key, .. } | WOp::Multi { key, .. } | WOp::Delete { key } | WOp::Get { key } => {
            vec![*key]
        }
        WOp::Copy { to, .. } => vec![*to],
        WOp::Rename { from, to, .. } => vec![*from, *to],
        WOp::Gc => vec![],
    }
}

/// Reads every key through a wrapper by every read path and checks them
/// against `allowed(key) -> set of acceptable values (None = absent)`.
async fn observe_all(
    store: &dyn ObjectStore,
    ctx: &str,
) -> Result<BTreeMap<u8, Option<Bytes>>, Violation> {
    let mut out = BTreeMap::new();
    for k in 0..KEYS.len() as u8 {
        let p = key_path(k);
        let full = read_full(store, &p)
            .await
            .map_err(|e| violation!("c08.read-error", "{ctx}: get({p}) failed: {e}"))?;
        // head must agree with get
        match (&full, store.head(&p).await) {
            (Some(b), Ok(m)) => {
                if m.size != b.len() as u64 {
                    return Err(violation!(
                        "c08.head-size",
                        "{ctx}: head({p}).size={} but get returned {} bytes",
                        m.size,
                        b.len()
                    ));
                }
            }
            (None, Err(object_store::Error::NotFound { .. })) => {}
            (Some(_), Err(e)) => {
                return Err(violation!("c08.head-error", "{ctx}: get({p}) ok but head failed: {e}"));
            }
            (None, Ok(_)) => {
                return Err(violation!("c08.head-phantom", "{ctx}: head({p}) ok but get is NotFound"));
            }
            (None, Err(e)) => {
                return Err(violation!("c08.head-error", "{ctx}: head({p}) failed: {e}"));
            }
        }
        if let Some(b) = &full {
            let n = b.len() as u64;
            if n >= 2 {
                let r = (n / 3)..(n / 3 + (n / 2).max(1)).min(n);
                let part = store
                    .get_range(&p, r.clone())
                    .await
                    .map_err(|e| violation!("c08.range-error", "{ctx}: get_range({p},{r:?}) failed: {e}"))?;
                if part != b.slice(r.start as usize..r.end as usize) {
                    return Err(violation!(
                        "c08.range-mismatch",
                        "{ctx}: get_range({p},{r:?}) differs from the same window of get"
                    ));
                }
                let rs = vec![0..1u64, (n - 1)..n];
                let parts = store
                    .get_ranges(&p, &rs)
                    .await
                    .map_err(|e| violation!("c08.ranges-error", "{ctx}: get_ranges({p}) failed: {e}"))?;
                if parts.len() != 2 || parts[0] != b.slice(0..1) || parts[1] != b.slice(n as usize - 1..) {
                    return Err(violation!("c08.ranges-mismatch", "{ctx}: get_ranges({p}) differs from get"));
                }
            }
        }
        out.insert(k, full);
    }
    // listing: listed <=> readable
    let listed: Vec<_> = store.list(None).collect::<Vec<_>>().await;
    let mut listed_keys = Vec::new();
    for r in listed {
        let m = r.map_err(|e| violation!("c08.list-error", "{ctx}: list failed: {e}"))?;
        listed_keys.push((m.location.to_string(), m.size));
    }
    for (loc, size) in &listed_keys {
        let k = KEYS.iter().position(|x| x == loc);
        match k.and_then(|k| out.get(&(k as u8)).cloned().flatten()) {
            Some(b) => {
                if b.len() as u64 != *size {
                    return Err(violation!(
                        "c08.list-size",
                        "{ctx}: list reports {loc} size {size}, get returns {} bytes",
                        b.len()
                    ));
                }
            }
            None => {
                return Err(violation!(
                    "c08.listed-unreadable",
                    "{ctx}: key {loc} is listed but cannot be read"
                ));
            }
        }
    }
    for (k, v) in &out {
        if v.is_some() && !listed_keys.iter().any(|(l, _)| l == KEYS[*k as usize]) {
            return Err(violation!(
                "c08.readable-unlisted",
                "{ctx}: key {} is readable but not listed",
                KEYS[*k as usize]
            ));
        }
    }
    Ok(out)
}

fn fmt_opt(v: &Option<Bytes>) -> String {
    match v {
        Some(b) => short(b),
        None => "absent".into(),
    }
}

/// old-or-new check for one booted state.
fn check_old_or_new(
    obs: &BTreeMap<u8, Option<Bytes>>,
    old: &Model,
    new: &Model,
    op: Option<&WOp>,
    ctx: &str,
) -> Result<(), Violation> {
    for k in 0..KEYS.len() as u8 {
        let got = obs.get(&k).cloned().flatten();
        let o = old.get(&k).cloned();
        let n = new.get(&k).cloned();
        if got != o && got != n {
            return Err(violation!(
                "c08.neither-old-nor-new",
                "{ctx}: key {} reads {} but last commit is {} and interrupted commit is {}",
                KEYS[k as usize],
                fmt_opt(&got),
                fmt_opt(&o),
                fmt_opt(&n)
            ));
        }
    }
    if let Some(WOp::Rename { from, to, .. }) = op {
        if from != to {
            if let Some(v) = old.get(from) {
                if new.get(to) == Some(v) {
                    let f = obs.get(from).cloned().flatten();
                    let t = obs.get(to).cloned().flatten();
                    if f.as_ref() != Some(v) && t.as_ref() != Some(v) {
                        return Err(violation!(
                            "c08.rename-lost",
                            "{ctx}: rename {}→{} interrupted: neither holds the value",
                            KEYS[*from as usize],
                            KEYS[*to as usize]
                        ));
                    }
                }
            }
        }
    }
    Ok(())
}

fn block<T>(f: impl std::future::Future<Output = T>) -> T {
    futures::executor::block_on(f)
}

impl H {
    fn boot_and_check(
        &self,
        case: &Case,
        disk: InMemory,
        clock_ms: i64,
        old: &Model,
        new: &Model,
        op: Option<&WOp>,
        ctx: &str,
        rep: &mut RunReport,
    ) -> Result<(), Violation> {
        let mut cfg = SimConfig::simple(case.seed ^ 0xB007);
        cfg.park = false;
        cfg.clock = ClockMode::Tick(1);
        cfg.start_ms = clock_ms + case.reboot_clock_delta;
        cfg.record_trace = false;
        let sim = Sim::new(&cfg);
        sim.install_clock_here();
        let store = SimStore::new(sim.clone(), disk);
        let w = Wrapper::build(case.wrapper, store.clone(), case.cache);
        let s = w.store();
        block(async {
            let obs = observe_all(s.as_ref(), ctx).await?;
            check_old_or_new(&obs, old, new, op, ctx)?;
            // GC after the crash must not change any read
            let deleted = w
                .gc()
                .await
                .map_err(|e| violation!("c08.gc-error", "{ctx}: collect_garbage after reboot failed: {e}"))?;
            if deleted > 0 {
                rep.probe("gc_deleted_after_reboot", deleted as u64);
            }
            let obs2 = observe_all(s.as_ref(), &format!("{ctx} after-gc")).await?;
            if obs2 != obs {
                let k = (0..KEYS.len() as u8).find(|k| obs.get(k) != obs2.get(k)).unwrap();
                return Err(violation!(
                    "c08.gc-changed-read",
                    "{ctx}: key {} read {} before collect_garbage and {} after",
                    KEYS[k as usize],
                    fmt_opt(&obs[&k]),
                    fmt_opt(&obs2[&k])
                ));
            }
            // cold again after GC
            let w2 = Wrapper::build(case.wrapper, store.clone(), case.cache);
            let s2 = w2.store();
            let obs3 = observe_all(s2.as_ref(), &format!("{ctx} after-gc cold")).await?;
            if obs3 != obs {
                return Err(violation!(
                    "c08.gc-changed-read",
                    "{ctx}: a cold wrapper after collect_garbage reads differently"
                ));
            }
            // the store accepts new writes and a second GC leaves them alone
            let probe = Val { tag: 0xFFFF_0001, len: 33 };
            s.put(&key_path(0), PutPayload::from(probe.bytes()))
                .await
                .map_err(|e| violation!("c08.no-progress", "{ctx}: put after reboot failed: {e}"))?;
            let back = read_full(s.as_ref(), &key_path(0))
                .await
                .map_err(|e| violation!("c08.no-progress", "{ctx}: get after new put failed: {e}"))?;
            if back != Some(probe.bytes()) {
                return Err(violation!("c08.no-progress", "{ctx}: new put did not read back"));
            }
            Ok(())
        })
    }

    fn run_sweep(&self, case: &Case, rep: &mut RunReport) -> Result<(), Violation> {
        let mut cfg = SimConfig::simple(case.seed);
        cfg.park = false;
        cfg.clock = case.clock.clone();
        cfg.faults = case.fault.iter().cloned().collect();
        let sim = Sim::new(&cfg);
        sim.install_clock_here();
        let disk = InMemory::new();
        let mut model: Model = BTreeMap::new();
        for (i, (k, v)) in case.legacy.iter().enumerate() {
            match case.wrapper {
                // pre-auth layout and the sealed 0.9.x layout, alternating per key;
                // written with the chunk size the store is configured with
                WrapperKind::Enc(chunk, strict) => {
                    // strict mode refuses unauthenticated metadata by design
                    let sealed = strict || (case.seed as usize + i) % 2 == 0;
                    block(put_legacy_enc_object(&disk, &key_path(*k), v.bytes(), chunk, sealed, case.seed ^ (i as u64 + 1) << 32));
                    rep.probe(if sealed { "legacy_sealed_v1_objects_seeded" } else { "legacy_preauth_objects_seeded" }, 1);
                }
                _ => {
                    block(put_legacy_meta_object(&disk, &key_path(*k), v.bytes()));
                    rep.probe("legacy_meta_objects_seeded", 1);
                }
            }
            model.insert(*k, v.bytes());
        }
        let store = SimStore::new(sim.clone(), disk);
        store.set_list_page(case.list_page);
        store.set_tear_prefixes(&["gen/", "data/"]);
        let mut w = Wrapper::build(case.wrapper, store.clone(), case.cache);
        let mut s = w.store();
        let mut states: Vec<Model> = vec![model.clone()];
        store.set_record_forks(true);
        let mut faulted_op: Option<usize> = None;
        let mut trace = Sig::default();
        for (i, op) in case.ops.iter().enumerate() {
            store.set_marker(i as u64);
            let fired_before: u64 = sim.fired().iter().filter(|(k, _)| !k.starts_with("clock")).map(|(_, v)| *v).sum();
            let r = block(real_apply(&w, s.as_ref(), op));
            let fired_after: u64 = sim.fired().iter().filter(|(k, _)| !k.starts_with("clock")).map(|(_, v)| *v).sum();
            let mut m2 = model.clone();
            let expect_ok = model_apply(&mut m2, op);
            trace.add(r.is_ok() as u64);
            if fired_after > fired_before {
                // the injected fault landed inside this op
                faulted_op = Some(i);
                if r.is_ok() {
                    // tolerated internally (e.g. best-effort delete): applied
                    model = m2;
                } else {
                    // failed op (error with possibly unknown outcome): the
                    // property speaks of a restart with a cold cache, so the
                    // state is judged through a cold wrapper (a warm cache may
                    // legitimately lag a write whose outcome it never learned);
                    // the workload then continues on that cold wrapper.
                    let w2 = Wrapper::build(case.wrapper, store.clone(), case.cache);
                    let obs = block(observe_all(w2.store().as_ref(), &format!("after faulted op#{i} {op:?} (cold)")))?;
                    check_old_or_new(&obs, &model, &m2, Some(op), &format!("after faulted op#{i} {op:?} err={:?}", r.as_ref().err()))?;
                    w = w2;
                    s = w.store();
                    // adopt the observed state as the committed one
                    model = obs.into_iter().filter_map(|(k, v)| v.map(|v| (k, v))).collect();
                }
            } else {
                if r.is_ok() != expect_ok {
                    return Err(violation!(
                        "c08.seq-result",
                        "op#{i} {op:?}: wrapper returned {:?}, sequential model expects {}",
                        r,
                        if expect_ok { "success" } else { "failure" }
                    ));
                }
                if expect_ok {
                    model = m2;
                }
            }
            states.push(model.clone());
        }
        store.set_record_forks(false);
        let forks = store.take_forks();
        rep.merge_fired(&sim.fired());
        rep.steps += sim.calls();
        // final state, warm
        {
            let obs = block(observe_all(s.as_ref(), "final (warm)"))?;
            check_old_or_new(&obs, &model, &model, None, "final (warm)")?;
        }
        let n_forks = forks.len();
        let end_clock = sim.clock().now_ms();
        let mut sigs = Vec::new();
        for f in forks {
            let i = f.marker as usize;
            if Some(i) == faulted_op {
                // forks taken inside the faulted op: the old/new pair is the
                // op's own; still valid (states[i], states[i+1] as adopted)
            }
            let old = &states[i];
            // "new" is what the op would commit if it completed
            let mut new = old.clone();
            let _ = model_apply(&mut new, &case.ops[i]);
            let adopted = &states[i + 1];
            let ctx = format!(
                "crash before inner mutation #{} ({} {}) inside op#{i} {:?}",
                f.mutations_before,
                f.next_kind.short(),
                f.next_path,
                case.ops[i]
            );
            // If the faulted op adopted an observed state, allow it as "new".
            let new_eff = if Some(i) == faulted_op { adopted } else { &new };
            sigs.push(SimStore::disk_signature(&f.disk) ^ simcore::rng::mix(i as u64));
            self.boot_and_check(case, f.disk, f.clock_ms, old, new_eff, Some(&case.ops[i]), &ctx, rep)?;
            rep.fire("power_loss", 1);
        }
        // crash after the last mutation
        let final_disk = store.disk().fork();
        sigs.push(SimStore::disk_signature(&final_disk));
        self.boot_and_check(case, final_disk, end_clock, &model, &model, None, "crash after the last mutation", rep)?;
        rep.fire("power_loss", 1);
        rep.evaluations = n_forks as u64 + 1;
        rep.nontrivial_sigs = sigs;
        rep.sim_ms += end_clock - simcore::seams::EPOCH_MS;
        rep.trace_hash = trace.0 ^ sim.full_signature();
        rep.sample = Some(serde_json::json!({
            "wrapper": format!("{:?}", case.wrapper), "legacy_keys": case.legacy.len(),
            "ops": case.ops.iter().map(|o| format!("{o:?}")).collect::<Vec<_>>(),
            "fault": case.fault.as_ref().map(|f| format!("{f:?}")),
            "crash_points": n_forks + 1,
        }));
        Ok(())
    }

    fn run_gc_race(&self, case: &Case, rep: &mut RunReport) -> Result<(), Violation> {
        let mut cfg = SimConfig::simple(case.seed);
        cfg.park = false; // sequential prefix first
        cfg.clock = ClockMode::Tick(2);
        cfg.schedule = case.schedule.clone();
        let sim = Sim::new(&cfg);
        sim.install_clock_here();
        let disk = InMemory::new();
        let store = SimStore::new(sim.clone(), disk);
        store.set_response_delay(simcore::store::seeded_response_delay(case.seed));
        let w = Wrapper::build(case.wrapper, store.clone(), case.cache);
        let s = w.store();
        let mut model: Model = BTreeMap::new();
        for (i, op) in case.ops.iter().enumerate() {
            let r = block(real_apply(&w, s.as_ref(), op));
            let mut m2 = model.clone();
            let ok = model_apply(&mut m2, op);
            if r.is_ok() != ok {
                return Err(violation!("c08.seq-result", "prefix op#{i} {op:?}: wrapper returned {r:?}, model expects ok={ok}"));
            }
            if ok {
                model = m2;
            }
        }
        // plant orphan generations (crash leftovers) of various ages
        let now = sim.clock().now_ms();
        for (k, v, age) in &case.orphans {
            let ts = (now - *age as i64).max(0) as u64;
            let g = format!("{ts:016x}-{:08x}", v.tag);
            let p = Path::from(format!("gen/{}/{}", KEYS[*k as usize], g));
            block(store.disk().put(&p, PutPayload::from(v.bytes()))).unwrap();
        }
        sim.clock().advance(5);
        let initial = model.clone();
        // race
        sim.set_park(true);
        sim.set_clock_mode(case.clock.clone());
        store.set_list_page(case.list_page);
        // per-key: (invoke, ret, value or None for delete, acknowledged)
        #[derive(Clone, Debug)]
        struct WriteRec {
            key: u8,
            invoke: u64,
            ret: Option<u64>,
            val: Option<Bytes>,
            ok: Option<bool>,
        }
        let writes: Arc<Mutex<Vec<WriteRec>>> = Arc::new(Mutex::new(Vec::new()));
        let reads: Arc<Mutex<Vec<(u8, u64, u64, Result<Option<Bytes>, String>)>>> =
            Arc::new(Mutex::new(Vec::new()));
        let gc_results: Arc<Mutex<Vec<Result<usize, String>>>> = Arc::new(Mutex::new(Vec::new()));
        let mut tasks: Vec<LocalTask> = Vec::new();
        for (_ti, ops) in case.tasks.iter().enumerate() {
            let w = w.clone();
            let s = s.clone();
            let sim2 = sim.clone();
            let writes = writes.clone();
            let reads = reads.clone();
            let gc_results = gc_results.clone();
            let initial = initial.clone();
            // (key, value) of every put / multipart the race performs
            let src_alternatives: Vec<(u8, Bytes)> = case
                .tasks
                .iter()
                .flatten()
                .filter_map(|o| match o {
                    WOp::Put { key, val, .. } => Some((*key, val.bytes())),
                    WOp::Multi { key, parts, abort: false } => Some((*key, multi_bytes(parts))),
                    _ => None,
                })
                .collect();
            tasks.push(Box::pin(async move {
                for op in ops {
                    match op {
                        WOp::Gc => {
                            let r = w.gc().await.map_err(|e| e.to_string());
                            gc_results.lock().unwrap().push(r);
                        }
                        WOp::Get { key } => {
                            let inv = sim2.tick();
                            let r = read_full(s.as_ref(), &key_path(*key)).await;
                            let ret = sim2.tick();
                            reads.lock().unwrap().push((*key, inv, ret, r));
                        }
                        _ => {
                            let inv = sim2.tick();
                            let mut idxs = Vec::new();
                            for k in touched(op) {
                                let val = match op {
                                    WOp::Put { val, .. } => Some(val.bytes()),
                                    WOp::Multi { parts, abort, .. } => {
                                        if *abort { continue } else { Some(multi_bytes(parts)) }
                                    }
                                    WOp::Copy { from, .. } => initial.get(from).cloned(),
                                    WOp::Delete { .. } => None,
                                    _ => None,
                                };
                                let mut wv = writes.lock().unwrap();
                                wv.push(WriteRec { key: k, invoke: inv, ret: None, val, ok: None });
                                idxs.push(wv.len() - 1);
                                // a copy whose source is itself being overwritten by the race
                                // may carry any of the source's values (one record per alternative)
                                if let WOp::Copy { from, .. } = op {
                                    for alt in &src_alternatives {
                                        if alt.0 == *from {
                                            wv.push(WriteRec { key: k, invoke: inv, ret: None, val: Some(alt.1.clone()), ok: None });
                                            idxs.push(wv.len() - 1);
                                        }
                                    }
                                }
                            }
                            let r = real_apply(&w, s.as_ref(), op).await;
                            let ret = sim2.tick();
                            let mut wv = writes.lock().unwrap();
                            for i in idxs {
                                wv[i].ret = Some(ret);
                                wv[i].ok = Some(r.is_ok());
                            }
                        }
                    }
                }
            }));
        }
        let outcome = sim.run(tasks);
        rep.merge_fired(&sim.fired());
        rep.steps += sim.lock().step;
        match outcome {
            Outcome::Done => {}
            o => {
                return Err(violation!("c08.liveness", "gc race did not complete: {o:?}"));
            }
        }
        for r in gc_results.lock().unwrap().iter() {
            match r {
                Ok(n) => rep.probe("gc_deleted_in_race", *n as u64),
                Err(e) => return Err(violation!("c08.gc-error", "collect_garbage failed during race: {e}")),
            }
        }
        let writes = writes.lock().unwrap().clone();
        if case.tasks.iter().flatten().any(|o| matches!(o, WOp::Copy { from, .. } if case.tasks.iter().flatten().any(|p| matches!(p, WOp::Put { key, .. } if key == from)))) {
            rep.probe("copy_raced_overwrites_of_its_source", 1);
        }
        {
            let mut per_key: BTreeMap<u8, u32> = BTreeMap::new();
            for (k, _, _) in &case.orphans {
                *per_key.entry(*k).or_default() += 1;
            }
            if per_key.values().any(|n| *n >= 2) {
                rep.probe("several_orphans_on_one_raced_key", 1);
            }
        }
        let reads = reads.lock().unwrap().clone();
        // readers: a key that existed initially and that no writer deletes or
        // renames away must always read a written value
        for (k, inv, ret, r) in &reads {
            let ws: Vec<&WriteRec> = writes.iter().filter(|w| w.key == *k).collect();
            // NotFound is judged only for keys no racing writer touches: there
            // it can only be the collector's doing. (A reader overtaken twice
            // by overwrites of the key it reads is a C07 matter, not GC's.)
            let may_be_absent = !initial.contains_key(k) || !ws.is_empty();
            match r {
                Err(e) => {
                    return Err(violation!(
                        "c08.race-read-error",
                        "get({}) during gc race [{inv},{ret}] failed: {e}",
                        KEYS[*k as usize]
                    ));
                }
                Ok(None) => {
                    if !may_be_absent {
                        return Err(violation!(
                            "c08.race-read-lost",
                            "get({}) during gc race [{inv},{ret}] returned NotFound for a committed key no writer touches",
                            KEYS[*k as usize]
                        ));
                    }
                }
                Ok(Some(b)) => {
                    let ok = initial.get(k) == Some(b)
                        || ws.iter().any(|w| w.val.as_ref() == Some(b) && w.invoke < *ret);
                    if !ok {
                        return Err(violation!(
                            "c08.race-read-garbage",
                            "get({}) during gc race returned {} which nobody wrote",
                            KEYS[*k as usize],
                            short(b)
                        ));
                    }
                }
            }
        }
        // final state: quiescent; warm, cold, after another GC
        sim.set_park(false);
        store.set_list_page(0);
        let obs = block(observe_all(s.as_ref(), "after gc race (warm)"))?;
        for k in 0..KEYS.len() as u8 {
            let ws: Vec<&WriteRec> = writes.iter().filter(|w| w.key == k).collect();
            let got = obs.get(&k).cloned().flatten();
            // candidates: writes not followed (in real time) by another
            // acknowledged write to the same key
            let acked: Vec<&&WriteRec> = ws.iter().filter(|w| w.ok == Some(true)).collect();
            let mut cands: Vec<Option<Bytes>> = Vec::new();
            for w in &ws {
                if w.ok == Some(false) {
                    // a failed op may still have partially applied only for
                    // multi-step ops; puts/copies that fail leave no effect
                    continue;
                }
                let superseded = acked
                    .iter()
                    .any(|w2| w2.invoke > w.ret.unwrap_or(u64::MAX));
                if !superseded {
                    cands.push(w.val.clone());
                }
            }
            if acked.is_empty() {
                cands.push(initial.get(&k).cloned());
            }
            if !cands.contains(&got) {
                return Err(violation!(
                    "c08.race-final",
                    "after gc race key {} reads {}, not the value of any final acknowledged write ({} candidates)",
                    KEYS[k as usize],
                    fmt_opt(&got),
                    cands.len()
                ));
            }
        }
        let w2 = Wrapper::build(case.wrapper, store.clone(), case.cache);
        let obs_c = block(observe_all(w2.store().as_ref(), "after gc race (cold)"))?;
        if obs_c != obs {
            return Err(violation!("c08.warm-cold-disagree", "after gc race: warm and cold wrappers disagree"));
        }
        sim.clock().advance(10_000);
        let n = block(w2.gc()).map_err(|e| violation!("c08.gc-error", "final collect_garbage failed: {e}"))?;
        rep.probe("gc_deleted_final", n as u64);
        let obs_g = block(observe_all(w2.store().as_ref(), "after final gc"))?;
        if obs_g != obs {
            return Err(violation!("c08.gc-changed-read", "final collect_garbage changed a read"));
        }
        let w3 = Wrapper::build(case.wrapper, store.clone(), case.cache);
        let obs_g2 = block(observe_all(w3.store().as_ref(), "after final gc (cold)"))?;
        if obs_g2 != obs {
            return Err(violation!("c08.gc-changed-read", "final collect_garbage changed a cold read"));
        }
        // no garbage may survive a quiescent GC whose floor is well past every
        // generation (liveness of reclamation is not part of the property; probe only)
        let left = SimStore::dump(store.disk())
            .iter()
            .filter(|(p, _)| p.starts_with("gen/"))
            .count();
        let live = obs.values().filter(|v| v.is_some()).count();
        if left > live {
            rep.probe("garbage_left_after_quiescent_gc", (left - live) as u64);
        }
        rep.evaluations = 1;
        let st = sim.lock();
        if st.overlap_seen {
            rep.nontrivial_sigs.push(st.sig.0);
        }
        rep.sim_ms += st.sim_ms_covered;
        rep.trace_hash = st.sig_full.0;
        drop(st);
        rep.sample = Some(serde_json::json!({
            "wrapper": format!("{:?}", case.wrapper),
            "prefix": case.ops.iter().map(|o| format!("{o:?}")).collect::<Vec<_>>(),
            "tasks": case.tasks.iter().map(|t| t.iter().map(|o| format!("{o:?}")).collect::<Vec<_>>()).collect::<Vec<_>>(),
            "orphans": case.orphans.len(), "list_page": case.list_page, "clock": format!("{:?}", case.clock),
            "trace_head": sim.trace().iter().take(40).map(|e| format!("t{} {} {} {}", e.task, e.kind.short(), e.path, e.verdict)).collect::<Vec<_>>(),
        }));
        Ok(())
    }
}

pub(crate) fn gen_val(rng: &mut Rng, tag: &mut u32, chunk: u64) -> Val {
    *tag += 1;
    let sizes = boundary_sizes(chunk);
    let len = if rng.chance(3, 4) {
        *rng.pick(&sizes)
    } else {
        rng.below(3 * chunk.min(64) + 2) as u32
    };
    Val { tag: *tag, len }
}

fn gen_wrapper(rng: &mut Rng, tier: Tier) -> WrapperKind {
    match rng.below(3) {
        0 => WrapperKind::Meta,
        _ => {
            let chunks: &[u64] = if tier == Tier::Thorough && rng.chance(1, 40) {
                &[65536]
            } else {
                &[1, 7, 16, 64]
            };
            WrapperKind::Enc(*rng.pick(chunks), rng.bool())
        }
    }
}

fn chunk_of(w: WrapperKind) -> u64 {
    match w {
        WrapperKind::Meta => 16,
        WrapperKind::Enc(c, _) => c,
    }
}

fn gen_op(rng: &mut Rng, tag: &mut u32, chunk: u64, nkeys: u8, with_gc: bool) -> WOp {
    let k = |rng: &mut Rng| rng.below(nkeys as u64) as u8;
    match rng.weighted(&[30, 12, 14, 14, 12, if with_gc { 10 } else { 0 }]) {
        0 => WOp::Put {
            key: k(rng),
            val: gen_val(rng, tag, chunk),
            create: rng.chance(1, 5),
        },
        1 => {
            let n = rng.range(1, 3);
            WOp::Multi {
                key: k(rng),
                parts: (0..n).map(|_| gen_val(rng, tag, chunk)).collect(),
                abort: rng.chance(1, 6),
            }
        }
        2 => WOp::Copy {
            from: k(rng),
            to: k(rng),
            create: rng.chance(1, 4),
        },
        3 => WOp::Rename {
            from: k(rng),
            to: k(rng),
            create: rng.chance(1, 4),
        },
        4 => WOp::Delete { key: k(rng) },
        _ => WOp::Gc,
    }
}

impl Harness for H {
    type Case = Case;

    fn generate(&self, case_seed: u64, idx: u64, tier: Tier) -> Case {
        let mut rng = Rng::stream(case_seed, "c08");
        let mode = if idx % 3 == 2 { Mode::GcRace } else { Mode::Sweep };
        let wrapper = gen_wrapper(&mut rng, tier);
        let chunk = chunk_of(wrapper);
        let cache = if rng.chance(1, 3) { 0 } else { 1000 };
        let mut tag = 0u32;
        let nkeys = rng.range(2, 5) as u8;
        match mode {
            Mode::Sweep => {
                let mut legacy = Vec::new();
                if rng.chance(1, 3) {
                    for k in 0..nkeys {
                        if rng.bool() {
                            legacy.push((k, gen_val(&mut rng, &mut tag, chunk)));
                        }
                    }
                }
                let n = rng.range(2, if tier == Tier::Thorough { 10 } else { 7 });
                let ops: Vec<WOp> = (0..n).map(|_| gen_op(&mut rng, &mut tag, chunk, nkeys, true)).collect();
                // one run in four carries an in-run fault instead of relying on forks only
                let fault = if rng.chance(1, 4) {
                    let site = Site::Mutation(rng.below(3 * n));
                    let kind = match rng.below(3) {
                        0 => FaultKind::Tear(rng.below(1000) as u32),
                        1 => FaultKind::FailBefore,
                        _ => FaultKind::FailAfter,
                    };
                    Some(FaultSpec { site, kind })
                } else {
                    None
                };
                Case {
                    seed: case_seed,
                    mode,
                    wrapper,
                    cache,
                    legacy,
                    ops,
                    tasks: vec![],
                    orphans: vec![],
                    fault,
                    clock: match rng.below(3) {
                        0 => ClockMode::Frozen,
                        1 => ClockMode::Tick(2),
                        _ => ClockMode::Jumpy(5000),
                    },
                    list_page: *rng.pick(&[0u32, 0, 1, 2]),
                    schedule: Schedule::Seeded { seed: case_seed, policy: Policy::Uniform },
                    reboot_clock_delta: *rng.pick(&[0i64, 1, 1000, -1000, 100_000]),
                }
            }
            Mode::GcRace => {
                let np = rng.range(1, 4);
                let mut ops: Vec<WOp> = Vec::new();
                // make sure keys exist
                for k in 0..nkeys {
                    if rng.chance(3, 4) {
                        ops.push(WOp::Put { key: k, val: gen_val(&mut rng, &mut tag, chunk), create: false });
                    }
                }
                for _ in 0..np {
                    let op = gen_op(&mut rng, &mut tag, chunk, nkeys, false);
                    if !matches!(op, WOp::Rename { .. }) {
                        ops.push(op);
                    }
                }
                let mut tasks: Vec<Vec<WOp>> = Vec::new();
                tasks.push((0..rng.range(1, 2)).map(|_| WOp::Gc).collect());
                let nw = rng.range(1, 2);
                for _ in 0..nw {
                    let n = rng.range(1, 3);
                    let mut t = Vec::new();
                    for _ in 0..n {
                        let op = match rng.weighted(&[40, 20, 20, 10]) {
                            0 => WOp::Put { key: rng.below(nkeys as u64) as u8, val: gen_val(&mut rng, &mut tag, chunk), create: false },
                            1 => WOp::Multi {
                                key: rng.below(nkeys as u64) as u8,
                                parts: (0..rng.range(1, 2)).map(|_| gen_val(&mut rng, &mut tag, chunk)).collect(),
                                abort: false,
                            },
                            2 => WOp::Copy { from: nkeys, to: rng.below(nkeys as u64) as u8, create: false },
                            _ => WOp::Delete { key: rng.below(nkeys as u64) as u8 },
                        };
                        t.push(op);
                    }
                    tasks.push(t);
                }
                let template = rng.below(4);
                if template == 0 {
                    // a copy racing overwrites of its own source (the source is only
                    // ever put by the race, never deleted or copied into)
                    let hs = rng.below(nkeys as u64) as u8;
                    let d = (hs + 1 + rng.below(nkeys as u64 - 1) as u8) % nkeys;
                    tasks.truncate(1);
                    tasks.push((0..rng.range(1, 2)).map(|_| WOp::Put { key: hs, val: gen_val(&mut rng, &mut tag, chunk), create: false }).collect());
                    tasks.push(vec![WOp::Copy { from: hs, to: d, create: false }]);
                    if !ops.iter().any(|o| matches!(o, WOp::Put { key, .. } if *key == hs)) {
                        ops.push(WOp::Put { key: hs, val: gen_val(&mut rng, &mut tag, chunk), create: false });
                    }
                }
                // stable source key for copies, never written by the race
                ops.push(WOp::Put { key: nkeys, val: gen_val(&mut rng, &mut tag, chunk), create: false });
                // reader
                let nr = rng.range(2, 5);
                tasks.push((0..nr).map(|_| WOp::Get { key: rng.below(nkeys as u64 + 1) as u8 }).collect());
                // half of the time the orphans pile up on one key that the race also
                // writes: several sweep candidates of one key, visited one after another
                let pile: Option<u8> = if template == 1 || rng.chance(1, 3) {
                    tasks.iter().skip(1).flatten().find_map(|o| match o {
                        WOp::Put { key, .. } => Some(*key),
                        _ => None,
                    })
                } else {
                    None
                };
                if let Some(k) = pile {
                    // ...and the writers queue up on that key: each commit turns the
                    // previous generation into one more candidate of the same key
                    for t in tasks.iter_mut().skip(1).take(nw as usize) {
                        if t.iter().all(|o| !matches!(o, WOp::Copy { from, .. } if *from == k)) && rng.bool() {
                            t.push(WOp::Put { key: k, val: gen_val(&mut rng, &mut tag, chunk), create: false });
                        }
                    }
                }
                let orphans = (0..if pile.is_some() { rng.range(2, 3) } else { rng.below(3) })
                    .map(|_| {
                        (
                            pile.unwrap_or(rng.below(nkeys as u64) as u8),
                            gen_val(&mut rng, &mut tag, chunk),
                            *rng.pick(&[0u32, 1, 50, 10_000]),
                        )
                    })
                    .collect();
                let policy = match rng.below(4) {
                    0 => Policy::Uniform,
                    1 => Policy::Sticky(12),
                    2 => Policy::Pct(2),
                    _ => Policy::Starve(rng.usize(tasks.len())),
                };
                Case {
                    seed: case_seed,
                    mode,
                    wrapper,
                    cache,
                    legacy: vec![],
                    ops,
                    tasks,
                    orphans,
                    fault: None,
                    // (a frozen clock keeps every generation at the collector's floor:
                    // nothing the race writes is ever a candidate)
                    clock: match rng.below(if pile.is_some() { 2 } else { 3 }) {
                        0 => ClockMode::Tick(3),
                        1 => ClockMode::Jumpy(3000),
                        _ => ClockMode::Frozen,
                    },
                    list_page: *rng.pick(&[0u32, 1, 2, 3]),
                    schedule: Schedule::Seeded { seed: rng.next_u64(), policy },
                    reboot_clock_delta: 0,
                }
            }
        }
    }

    fn entropy_seed(&self, case: &Case) -> u64 {
        simcore::rng::derive(case.seed, "entropy")
    }

    fn execute(&self, case: &Case, rep: &mut RunReport) -> Result<(), Violation> {
        match case.mode {
            Mode::Sweep => self.run_sweep(case, rep),
            Mode::GcRace => self.run_gc_race(case, rep),
        }
    }

    fn shrink(&self, case: &Case) -> Vec<Case> {
        let mut out = Vec::new();
        // drop ops
        for i in (0..case.ops.len()).rev() {
            let mut c = case.clone();
            c.ops.remove(i);
            out.push(c);
        }
        for t in 0..case.tasks.len() {
            for i in (0..case.tasks[t].len()).rev() {
                let mut c = case.clone();
                c.tasks[t].remove(i);
                out.push(c);
            }
        }
        if !case.orphans.is_empty() {
            let mut c = case.clone();
            c.orphans.clear();
            out.push(c);
        }
        if !case.legacy.is_empty() {
            let mut c = case.clone();
            c.legacy.clear();
            out.push(c);
        }
        if case.list_page != 0 {
            let mut c = case.clone();
            c.list_page = 0;
            out.push(c);
        }
        if case.clock != ClockMode::Tick(2) {
            let mut c = case.clone();
            c.clock = ClockMode::Tick(2);
            out.push(c);
        }
        if case.cache != 1000 {
            let mut c = case.clone();
            c.cache = 1000;
            out.push(c);
        }
        out
    }
}
