//! Shared pieces of the H-store harness: key space, payload generator,
//! wrapper construction over a `SimStore`.

use anda_object_store::{EncryptedStore, EncryptedStoreBuilder, MetaStore, MetaStoreBuilder};
use bytes::Bytes;
use object_store::memory::InMemory;
use object_store::path::Path;
use object_store::{ObjectStore, ObjectStoreExt, Result};
use serde::{Deserialize, Serialize};
use simcore::rng::mix;
use simcore::{Sim, SimStore};
use std::sync::Arc;

pub const KEYS: [&str; 6] = ["a", "a/b", "a/b/c", "a/c", "d", "d/e"];
pub const SECRET: [u8; 32] = [0x42; 32];

pub fn key_path(k: u8) -> Path {
    Path::from(KEYS[k as usize % KEYS.len()])
}

#[derive(Clone, Copy, Debug, PartialEq, Eq, Serialize, Deserialize)]
pub enum WrapperKind {
    Meta,
    /// chunk size, strict metadata auth
    Enc(u64, bool),
}

#[derive(Clone)]
pub enum Wrapper {
    Meta(MetaStore<SimStore>),
    Enc(EncryptedStore<SimStore>),
}

impl Wrapper {
    pub fn build(kind: WrapperKind, store: SimStore, cache_capacity: u64) -> Self {
        match kind {
            WrapperKind::Meta => Wrapper::Meta(MetaStoreBuilder::new(store, cache_capacity).build()),
            WrapperKind::Enc(chunk, strict) => {
                let mut b = EncryptedStoreBuilder::with_secret(store, cache_capacity, SECRET)
                    .with_chunk_size(chunk);
                if strict {
                    b = b.with_strict_metadata_auth();
                }
                Wrapper::Enc(b.build())
            }
        }
    }
    pub fn store(&self) -> Arc<dyn ObjectStore> {
        match self {
            Wrapper::Meta(m) => Arc::new(m.clone()),
            Wrapper::Enc(e) => Arc::new(e.clone()),
        }
    }
    pub async fn gc(&self) -> Result<usize> {
        match self {
            Wrapper::Meta(m) => m.collect_garbage().await,
            Wrapper::Enc(e) => e.collect_garbage().await,
        }
    }
}

/// A payload spec: `len` bytes made of distinctive 8-byte windows derived from
/// `tag` (unique per written value in a run, so every read is attributable).
#[derive(Clone, Copy, Debug, PartialEq, Eq, Hash, Serialize, Deserialize)]
pub struct Val {
    pub tag: u32,
    pub len: u32,
}

impl Val {
    pub fn bytes(&self) -> Bytes {
        let mut v = Vec::with_capacity(self.len as usize + 8);
        let mut i = 0u64;
        while v.len() < self.len as usize {
            let w = mix(((self.tag as u64) << 32) ^ i ^ 0xA5A5_0000_0000_0000);
            v.extend_from_slice(&w.to_le_bytes());
            i += 1;
        }
        v.truncate(self.len as usize);
        Bytes::from(v)
    }
}

/// Payload sizes around the chunk boundaries of chunk size `c`.
pub fn boundary_sizes(c: u64) -> Vec<u32> {
    let c = c.min(70_000) as i64;
    let mut v: Vec<i64> = vec![0, 1, c - 1, c, c + 1, 2 * c, 3 * c + 1, 5];
    v.retain(|x| *x >= 0 && *x <= 200_000);
    v.sort();
    v.dedup();
    v.into_iter().map(|x| x as u32).collect()
}

pub fn new_sim_store(sim: &Sim, disk: InMemory) -> SimStore {
    SimStore::new(sim.clone(), disk)
}

/// Reads a key fully through the wrapper: `Ok(Some(bytes))`, `Ok(None)` for
/// NotFound, `Err(text)` for any other error.
pub async fn read_full(store: &dyn ObjectStore, p: &Path) -> std::result::Result<Option<Bytes>, String> {
    match store.get(p).await {
        Ok(r) => match r.bytes().await {
            Ok(b) => Ok(Some(b)),
            Err(e) => Err(format!("body: {e}")),
        },
        Err(object_store::Error::NotFound { .. }) => Ok(None),
        Err(e) => Err(format!("{e}")),
    }
}

pub fn short(b: &Bytes) -> String {
    let n = b.len().min(6);
    let hex: String = b[..n].iter().map(|x| format!("{x:02x}")).collect();
    format!("[{}B {}]", b.len(), hex)
}

/// Writes a MetaStore object in the pre-0.10 legacy layout straight onto the
/// disk: payload at `data/<loc>`, metadata `{s, e, o, v}` without generation.
pub async fn put_legacy_meta_object(disk: &InMemory, loc: &Path, payload: Bytes) {
    use base64::{Engine, prelude::BASE64_URL_SAFE};
    use sha3::Digest;
    #[derive(Serialize)]
    struct LegacyMetadata {
        #[serde(rename = "s")]
        size: u64,
        #[serde(rename = "e")]
        e_tag: Option<String>,
        #[serde(rename = "o")]
        original_tag: Option<String>,
        #[serde(rename = "v")]
        original_version: Option<String>,
    }
    let put = disk
        .put(&Path::from(format!("data/{loc}")), payload.clone().into())
        .await
        .unwrap();
    let mut hasher = sha3::Sha3_256::new();
    hasher.update(&payload);
    let hash: [u8; 32] = hasher.finalize().into();
    let meta = LegacyMetadata {
        size: payload.len() as u64,
        e_tag: Some(BASE64_URL_SAFE.encode(hash)),
        original_tag: put.e_tag,
        original_version: put.version,
    };
    let mut buf = Vec::new();
    cbor2::to_writer(&meta, &mut buf).unwrap();
    disk.put(&Path::from(format!("meta/{loc}")), buf.into())
        .await
        .unwrap();
}

/// Writes an object exactly as an older `EncryptedStore` did, straight onto the
/// disk: ciphertext at `data/<loc>`, no generation pointer.
/// `sealed = false`: the pre-auth layout (empty chunk AAD, no authentication
/// fields); `sealed = true`: the 0.9.x layout (bound chunk AAD, sealed metadata).
/// The formats are public (they are what the store must keep reading); the
/// harness re-implements them the way the crate's own tests do.
pub async fn put_legacy_enc_object(disk: &InMemory, loc: &Path, plaintext: Bytes, chunk: u64, sealed: bool, nonce_seed: u64) {
    use aes_gcm::aead::KeyInit;
    use aes_gcm::{AeadInOut, Aes256Gcm, Key, Nonce};
    use base64::{Engine, prelude::BASE64_URL_SAFE};
    use cbor2::Value as CV;
    use sha3::Digest;
    let cipher = Aes256Gcm::new(&Key::<Aes256Gcm>::from(SECRET));
    let chunk = chunk.max(1);
    let mut base_nonce = [0u8; 12];
    base_nonce[..8].copy_from_slice(&mix(nonce_seed).to_le_bytes());
    base_nonce[8..].copy_from_slice(&(mix(nonce_seed ^ 0x5eed) as u32).to_le_bytes());
    let chunk_aad = |idx: u64| -> Vec<u8> {
        if !sealed {
            return Vec::new();
        }
        let mut aad = Vec::with_capacity(52);
        aad.extend_from_slice(b"anda_object_store.encrypted.chunk.v1");
        aad.extend_from_slice(&chunk.to_le_bytes());
        aad.extend_from_slice(&idx.to_le_bytes());
        aad
    };
    let mut ciphertext = plaintext.to_vec();
    let mut tags: Vec<[u8; 16]> = Vec::new();
    for (idx, c) in ciphertext.chunks_mut(chunk as usize).enumerate() {
        let mut nonce = base_nonce;
        let ctr = u64::from_le_bytes(nonce[4..12].try_into().unwrap()).wrapping_add(idx as u64);
        nonce[4..12].copy_from_slice(&ctr.to_le_bytes());
        let tag = cipher.encrypt_inout_detached(&Nonce::from(nonce), &chunk_aad(idx as u64), c.into()).unwrap();
        tags.push(tag.into());
    }
    let mut hasher = sha3::Sha3_256::new();
    hasher.update(&ciphertext);
    let hash: [u8; 32] = hasher.finalize().into();
    let e_tag = BASE64_URL_SAFE.encode(hash);
    let put = disk.put(&Path::from(format!("data/{loc}")), Bytes::from(ciphertext).into()).await.unwrap();
    let size = plaintext.len() as u64;
    let opt_text = |v: &Option<String>| match v {
        Some(t) => CV::Text(t.clone()),
        None => CV::Null,
    };
    let mut m: Vec<(CV, CV)> = vec![
        (CV::Text("s".into()), CV::Integer(size.into())),
        (CV::Text("e".into()), CV::Text(e_tag.clone())),
        (CV::Text("o".into()), opt_text(&put.e_tag)),
        (CV::Text("v".into()), opt_text(&put.version)),
        (CV::Text("n".into()), CV::Bytes(base_nonce.to_vec())),
        (CV::Text("t".into()), CV::Array(tags.iter().map(|t| CV::Bytes(t.to_vec())).collect())),
        (CV::Text("c".into()), CV::Integer(chunk.into())),
    ];
    if sealed {
        m.push((CV::Text("av".into()), CV::Integer(1u64.into())));
        // metadata_auth_aad(location, meta) of a document without generation / commit time
        fn push_bytes(out: &mut Vec<u8>, v: &[u8]) {
            out.extend_from_slice(&(v.len() as u64).to_le_bytes());
            out.extend_from_slice(v);
        }
        fn push_opt_str(out: &mut Vec<u8>, v: Option<&str>) {
            match v {
                Some(v) => {
                    out.push(1);
                    push_bytes(out, v.as_bytes());
                }
                None => out.push(0),
            }
        }
        let mut aad = Vec::new();
        aad.extend_from_slice(b"anda_object_store.encrypted.metadata.v1");
        push_bytes(&mut aad, loc.to_string().as_bytes());
        aad.extend_from_slice(&size.to_le_bytes());
        push_opt_str(&mut aad, Some(&e_tag));
        push_opt_str(&mut aad, put.e_tag.as_deref());
        push_opt_str(&mut aad, put.version.as_deref());
        push_bytes(&mut aad, &base_nonce);
        aad.push(1);
        aad.extend_from_slice(&chunk.to_le_bytes());
        aad.push(1);
        aad.push(1);
        aad.extend_from_slice(&(tags.len() as u64).to_le_bytes());
        for t in &tags {
            push_bytes(&mut aad, t);
        }
        let mut an = [0u8; 12];
        an[..8].copy_from_slice(&mix(nonce_seed ^ 0xA07).to_le_bytes());
        an[8..].copy_from_slice(&(mix(nonce_seed ^ 0xA08) as u32).to_le_bytes());
        let mut empty: [u8; 0] = [];
        let at = cipher.encrypt_inout_detached(&Nonce::from(an), &aad, (&mut empty[..]).into()).unwrap();
        let at: [u8; 16] = at.into();
        m.push((CV::Text("an".into()), CV::Bytes(an.to_vec())));
        m.push((CV::Text("at".into()), CV::Bytes(at.to_vec())));
    }
    let mut buf = Vec::new();
    cbor2::to_writer(&CV::Map(m), &mut buf).unwrap();
    disk.put(&Path::from(format!("meta/{loc}")), buf.into()).await.unwrap();
}
