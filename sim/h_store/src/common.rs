//! Shared pieces of the H-store harness: key space, payload generator,
//! wrapper construction over a `SimStore`.

use anda_object_store::{EncryptedStore, EncryptedStoreBuilder, MetaStore, MetaStoreBuilder};
use bytes::Bytes;
use object_store::memory::InMemory;
use object_store::path::Path;
use object_store::{ObjectStore, ObjectStoreExt, Result};
use serde::{Deserialize, Serialize};
use simcore::rng::mix;
use simcore::{Sim, SimStore};
use std::sync::Arc;

pub const KEYS: [&str; 6] = ["a", "a/b", "a/b/c", "a/c", "d", "d/e"];
pub const SECRET: [u8; 32] = [0x42; 32];

pub fn key_path(k: u8) -> Path {
    Path::from(KEYS[k as usize % KEYS.len()])
}

#[derive(Clone, Copy, Debug, PartialEq, Eq, Serialize, Deserialize)]
pub enum WrapperKind {
    Meta,
    /// chunk size, strict metadata auth
    Enc(u64, bool),
}

#[derive(Clone)]
pub enum Wrapper {
    Meta(MetaStore<SimStore>),
    Enc(EncryptedStore<SimStore>),
}

impl Wrapper {
    pub fn build(kind: WrapperKind, store: SimStore, cache_capacity: u64) -> Self {
        match kind {
            WrapperKind::Meta => Wrapper::Meta(MetaStoreBuilder::new(store, cache_capacity).build()),
            WrapperKind::Enc(chunk, strict) => {
                let mut b = EncryptedStoreBuilder::with_secret(store, cache_capacity, SECRET)
                    .with_chunk_size(chunk);
                if strict {
                    b = b.with_strict_metadata_auth();
                }
                Wrapper::Enc(b.build())
            }
        }
    }
    pub fn store(&self) -> Arc<dyn ObjectStore> {
        match self {
            Wrapper::Meta(m) => Arc::new(m.clone()),
            Wrapper::Enc(e) => Arc::new(e.clone()),
        }
    }
    pub async fn gc(&self) -> Result<usize> {
        match self {
            Wrapper::Meta(m) => m.collect_garbage().await,
            Wrapper::Enc(e) => e.collect_garbage().await,
        }
    }
}

/// A payload spec: `len` bytes made of distinctive 8-byte windows derived from
/// `tag` (unique per written value in a run, so every read is attributable).
#[derive(Clone, Copy, Debug, PartialEq, Eq, Hash, Serialize, Deserialize)]
pub struct Val {
    pub tag: u32,
    pub len: u32,
}

impl Val {
    pub fn bytes(&self) -> Bytes {
        let mut v = Vec::with_capacity(self.len as usize + 8);
        let mut i = 0u64;
        while v.len() < self.len as usize {
            let w = mix(((self.tag as u64) << 32) ^ i ^ 0xA5A5_0000_0000_0000);
            v.extend_from_slice(&w.to_le_bytes());
            i += 1;
        }
        v.truncate(self.len as usize);
        Bytes::from(v)
    }
}

/// Payload sizes around the chunk boundaries of chunk size `c`.
pub fn boundary_sizes(c: u64) -> Vec<u32> {
    let c = c.min(70_000) as i64;
    let mut v: Vec<i64> = vec![0, 1, c - 1, c, c + 1, 2 * c, 3 * c + 1, 5];
    v.retain(|x| *x >= 0 && *x <= 200_000);
    v.sort();
    v.dedup();
    v.into_iter().map(|x| x as u32).collect()
}

pub fn new_sim_store(sim: &Sim, disk: InMemory) -> SimStore {
    SimStore::new(sim.clone(), disk)
}

/// Reads a key fully through the wrapper: `Ok(Some(bytes))`, `Ok(None)` for
/// NotFound, `Err(text)` for any other error.
pub async fn read_full(store: &dyn ObjectStore, p: &Path) -> std::result::Result<Option<Bytes>, String> {
    match store.get(p).await {
        Ok(r) => match r.bytes().await {
            Ok(b) => Ok(Some(b)),
            Err(e) => Err(format!("body: {e}")),
        },
        Err(object_store::Error::NotFound { .. }) => Ok(None),
        Err(e) => Err(format!("{e}")),
    }
}

pub fn short(b: &Bytes) -> String {
    let n = b.len().min(6);
    let hex: String = b[..n].iter().map(|x| format!("{x:02x}")).collect();
    format!("[{}B {}]", b.len(), hex)
}

/// Writes a MetaStore object in the pre-0.10 legacy layout straight onto the
/// disk: payload at `data/<loc>`, metadata `{s, e, o, v}` without generation.
pub async fn put_legacy_meta_object(disk: &InMemory, loc: &Path, payload: Bytes) {
    use base64::{Engine, prelude::BASE64_URL_SAFE};
    use sha3::Digest;
    #[derive(Serialize)]
    struct LegacyMetadata {
        #[serde(rename = "s")]
        size: u64,
        #[serde(rename = "e")]
        e_tag: Option<String>,
        #[serde(rename = "o")]
        original_tag: Option<String>,
        #[serde(rename = "v")]
        original_version: Option<String>,
    }
    let put = disk
        .put(&Path::from(format!("data/{loc}")), payload.clone().into())
        .await
        .unwrap();
    let mut hasher = sha3::Sha3_256::new();
    hasher.update(&payload);
    let hash: [u8; 32] = hasher.finalize().into();
    let meta = LegacyMetadata {
        size: payload.len() as u64,
        e_tag: Some(BASE64_URL_SAFE.encode(hash)),
        original_tag: put.e_tag,
        original_version: put.version,
    };
    let mut buf = Vec::new();
    cbor2::to_writer(&meta, &mut buf).unwrap();
    disk.put(&Path::from(format!("meta/{loc}")), buf.into())
        .await
        .unwrap();
}
