//! H-store: MetaStore / EncryptedStore over the simulated disk (C07 C08 C09).
simcore::install_libc_seams!();

mod c07;
mod c08;
mod c09;
mod common;

use simcore::batch::{CheckSpec, PhaseSpec, parse_args, standard_main};
use std::sync::Arc;

const REAL: &[&str] = &[
    "anda_object_store::MetaStore",
    "anda_object_store::EncryptedStore",
    "anda_object_store::sidecar::SidecarStore (commit protocol, GC, listings)",
    "moka metadata cache",
    "object_store::memory::InMemory (durable state behind SimStore)",
];
const STUB: &[&str] = &[
    "SimStore: parks/faults/forks every inner-store call",
    "wall clock (libc clock_gettime seam)",
    "entropy (libc getrandom seam)",
    "executor (simcore single-thread scheduler; no tokio runtime)",
];

fn main() {
    let opts = parse_args();
    let code = match opts.property.as_str() {
        "C08" => standard_main(
            &opts,
            &CheckSpec {
                harness_name: "h_store",
                level: "fault_enumeration",
                rule: "one evaluation = one booted crash state (disk fork before an inner-store mutation, or final) of a generated workload, or one GC-race run; distinct = distinct (surviving key set+sizes, op index) signatures of crash states plus distinct schedule signatures of race runs in which >=2 calls were parked at once",
                real: REAL,
                stub: STUB,
                assumptions: &[
                    "backend puts are atomic (object_store contract); torn writes only injected on payload objects",
                    "single writer process (documented contract)",
                    "moka TTL/TTI timers never fire within a run (runs last milliseconds of real time)",
                ],
                required_probes: &["gc_deleted_after_reboot"],
                required_faults: &["power_loss"],
            },
            vec![(
                PhaseSpec { label: "mixed", quick_runs: 150000, thorough_runs: 3000000, quick_budget_s: 90.0, thorough_budget_s: 900.0 },
                Arc::new(c08::H),
            )],
        ),
        "C07" => standard_main(
            &opts,
            &CheckSpec {
                harness_name: "h_store",
                level: "exploration",
                rule: "one evaluation = one simulated run (generated call sequence, 1-3 clients) whose recorded history is checked for linearizability against the reference object-store model; distinct = distinct (operation/result shape, schedule signature) among runs that had >=2 backend calls parked at once or contained a refused conditional write / precondition",
                real: REAL,
                stub: STUB,
                assumptions: &[
                    "reference semantics = object_store::memory::InMemory 0.14 as encoded in RefStore; the model-vs-inmemory phase runs the same generator against a bare InMemory and must agree",
                    "latitude table (h_store/src/c07.rs Latitude::wrapper): opaque tokens; no versions; delete of a missing key Ok or NotFound; self-rename keeps the object; missing e_tag on Update may be Precondition; get_ranges beyond the end may error instead of clamping",
                    "listings are non-snapshot under concurrency: each entry/absence linearizes on its own within the call",
                    "date preconditions are decided only once the commit's timestamp has been observed",
                ],
                required_probes: &["cas_precondition_refused", "cas_update_succeeded", "create_refused"],
                required_faults: &[],
            },
            vec![
                (
                    PhaseSpec { label: "model-vs-inmemory", quick_runs: 10000, thorough_runs: 200000, quick_budget_s: 20.0, thorough_budget_s: 120.0 },
                    Arc::new(c07::H { bare: true }),
                ),
                (
                    PhaseSpec { label: "wrappers", quick_runs: 60000, thorough_runs: 4000000, quick_budget_s: 50.0, thorough_budget_s: 900.0 },
                    Arc::new(c07::H { bare: false }),
                ),
            ],
        ),
        "C09" => standard_main(
            &opts,
            &CheckSpec {
                harness_name: "h_store",
                level: "fault_enumeration",
                rule: "one evaluation = one (single-site tamper of the backend objects, strict|compat mode) pair followed by every read path on a cold EncryptedStore; tampers are enumerated completely per generated object set (every byte x 8 bit flips, every truncation length, 1-3 byte extensions, all pairwise object/metadata swaps, chunk swaps, re-pointing to every other known generation, stripping each metadata field and the downgrade combinations, semantic field rewrites); distinct = distinct (tamper kind, position, mode, per-read-path outcome pattern)",
                real: REAL,
                stub: STUB,
                assumptions: &[
                    "AES-GCM / GMAC are not attacked cryptographically: tampers are structural, single-site (plus the listed multi-field downgrade combinations)",
                    "a full rollback (old metadata document together with its old payload) is outside the property and not injected",
                    "plaintext windows shorter than 8 bytes are not searched for",
                ],
                required_probes: &["tamper_detected_by_some_read", "nonces_checked", "plaintext_windows_scanned"],
                required_faults: &["bit_flip_metadata", "bit_flip_payload", "truncate_metadata", "truncate_payload", "swap_payload_objects", "swap_metadata_docs", "repoint_generation", "strip_metadata_fields"],
            },
            vec![(
                PhaseSpec { label: "tamper-sweep", quick_runs: 48, thorough_runs: 4000, quick_budget_s: 60.0, thorough_budget_s: 900.0 },
                Arc::new(c09::H),
            )],
        ),
        other => {
            eprintln!("harness error: h_store does not serve property {other:?}");
            2
        }
    };
    std::process::exit(code);
}
