//! H-store: MetaStore / EncryptedStore over the simulated disk (C07 C08 C09).
simcore::install_libc_seams!();

mod c08;
mod common;

use simcore::batch::{CheckSpec, PhaseSpec, parse_args, standard_main};
use std::sync::Arc;

const REAL: &[&str] = &[
    "anda_object_store::MetaStore",
    "anda_object_store::EncryptedStore",
    "anda_object_store::sidecar::SidecarStore (commit protocol, GC, listings)",
    "moka metadata cache",
    "object_store::memory::InMemory (durable state behind SimStore)",
];
const STUB: &[&str] = &[
    "SimStore: parks/faults/forks every inner-store call",
    "wall clock (libc clock_gettime seam)",
    "entropy (libc getrandom seam)",
    "executor (simcore single-thread scheduler; no tokio runtime)",
];

fn main() {
    let opts = parse_args();
    let code = match opts.property.as_str() {
        "C08" => standard_main(
            &opts,
            &CheckSpec {
                harness_name: "h_store",
                level: "fault_enumeration",
                rule: "one evaluation = one booted crash state (disk fork before an inner-store mutation, or final) of a generated workload, or one GC-race run; distinct = distinct (surviving key set+sizes, op index) signatures of crash states plus distinct schedule signatures of race runs in which >=2 calls were parked at once",
                real: REAL,
                stub: STUB,
                assumptions: &[
                    "backend puts are atomic (object_store contract); torn writes only injected on payload objects",
                    "single writer process (documented contract)",
                    "moka TTL/TTI timers never fire within a run (runs last milliseconds of real time)",
                ],
                required_probes: &["gc_deleted_after_reboot"],
                required_faults: &["power_loss"],
            },
            vec![(
                PhaseSpec { label: "mixed", quick_runs: 1500, thorough_runs: 60000, quick_budget_s: 50.0, thorough_budget_s: 900.0 },
                Arc::new(c08::H),
            )],
        ),
        other => {
            eprintln!("harness error: h_store does not serve property {other:?}");
            2
        }
    };
    std::process::exit(code);
}
