//! C09 — encrypted store: tampering is detected, plaintext never reaches the
//! backend, no GCM nonce is used for two different chunks.
//!
//! Per run: a generated set of objects (single put, multipart, copy, rename,
//! overwrite; sizes across chunk boundaries) is written through
//! `EncryptedStore` onto the simulated disk; then EVERY single-site tamper of
//! the surviving backend objects is applied to a fork of the disk — the
//! "flipped stored byte at an arbitrary instant" fault — and every read path is
//! exercised on a cold wrapper in compatibility and in strict mode.
//! Oracle: a read returns exactly the originally written bytes (and original
//! size / token / timestamp) or fails (or, for listings, omits the key).

use bytes::Bytes;
use cbor2::Value as CV;
use futures::StreamExt;
use object_store::memory::InMemory;
use object_store::path::Path;
use object_store::{ObjectStore, ObjectStoreExt, PutPayload};
use serde::{Deserialize, Serialize};
use simcore::batch::{Harness, RunReport, Tier, Violation};
use simcore::rng::{Rng, Sig};
use simcore::{ClockMode, Sim, SimConfig, SimStore, violation};
use std::collections::{BTreeMap, BTreeSet, HashMap, HashSet};

use crate::c08::{Model, WOp, gen_val, model_apply, real_apply};
use crate::common::*;

#[derive(Clone, Debug, Serialize, Deserialize)]
pub struct Case {
    pub seed: u64,
    pub chunk: u64,
    pub ops: Vec<WOp>,
    /// Restrict the sweep to one tamper (index into the enumeration) — used by
    /// shrinking/replay; `None` = all.
    pub only: Option<u64>,
}

pub struct H;

#[derive(Clone, Debug)]
enum Tamper {
    Flip { path: String, byte: usize, bit: u8 },
    Truncate { path: String, len: usize },
    Extend { path: String, extra: usize },
    SwapObjects { a: String, b: String },
    SwapChunks { path: String, i: usize, j: usize, chunk: usize },
    Repoint { meta: String, generation: String, restore: Option<(String, Bytes)> },
    /// Exchange whole objects between keys: key `to` receives key `from`'s
    /// metadata document AND its payload (placed under `to`'s generation prefix).
    Transplant { from_meta: String, to_meta: String },
    /// Re-encode the metadata document with fields removed and/or replaced.
    Rewrite { meta: String, remove: Vec<String>, set: Vec<(String, CV)>, move_payload_to_legacy: bool, note: String },
}

impl Tamper {
    fn kind(&self) -> &'static str {
        match self {
            Tamper::Flip { path, .. } => if path.starts_with("meta/") { "bit_flip_metadata" } else { "bit_flip_payload" },
            Tamper::Truncate { path, .. } => if path.starts_with("meta/") { "truncate_metadata" } else { "truncate_payload" },
            Tamper::Extend { path, .. } => if path.starts_with("meta/") { "extend_metadata" } else { "extend_payload" },
            Tamper::SwapObjects { a, .. } => if a.starts_with("meta/") { "swap_metadata_docs" } else { "swap_payload_objects" },
            Tamper::SwapChunks { .. } => "swap_chunks_in_payload",
            Tamper::Repoint { .. } => "repoint_generation",
            Tamper::Transplant { .. } => "transplant_object_between_keys",
            Tamper::Rewrite { remove, set, .. } => {
                if set.is_empty() { "strip_metadata_fields" } else if remove.is_empty() { "rewrite_metadata_field" } else { "strip_and_rewrite_metadata" }
            }
        }
    }
}

fn block<T>(f: impl std::future::Future<Output = T>) -> T {
    futures::executor::block_on(f)
}

fn key_of_backend_path(p: &str) -> Option<u8> {
    let rest = p.strip_prefix("meta/").map(|r| r.to_string()).or_else(|| {
        p.strip_prefix("gen/").and_then(|r| r.rsplit_once('/').map(|(k, _)| k.to_string()))
    }).or_else(|| p.strip_prefix("data/").map(|r| r.to_string()))?;
    KEYS.iter().position(|k| *k == rest).map(|i| i as u8)
}

fn cbor_map(bytes: &[u8]) -> Option<Vec<(CV, CV)>> {
    match cbor2::from_slice::<CV>(bytes) {
        Ok(CV::Map(m)) => Some(m),
        _ => None,
    }
}
fn cbor_bytes(m: &[(CV, CV)]) -> Vec<u8> {
    cbor2::to_vec(&CV::Map(m.to_vec())).unwrap()
}
fn field<'a>(m: &'a [(CV, CV)], k: &str) -> Option<&'a CV> {
    m.iter().find(|(kk, _)| matches!(kk, CV::Text(t) if t == k)).map(|(_, v)| v)
}

#[derive(Clone, Debug, PartialEq)]
struct Orig {
    bytes: Bytes,
    size: u64,
    etag: Option<String>,
    lm: i64,
}

async fn put_raw(disk: &InMemory, path: &str, bytes: Bytes) {
    disk.put(&Path::from(path), PutPayload::from(bytes)).await.unwrap();
}

impl H {
    fn enumerate(&self, base: &[(String, Bytes)], ever: &BTreeMap<String, Bytes>, chunk: u64) -> Vec<Tamper> {
        let mut out = Vec::new();
        for (p, b) in base {
            for byte in 0..b.len() {
                for bit in 0..8u8 {
                    out.push(Tamper::Flip { path: p.clone(), byte, bit });
                }
            }
            for len in 0..b.len() {
                out.push(Tamper::Truncate { path: p.clone(), len });
            }
            for extra in 1..=3 {
                out.push(Tamper::Extend { path: p.clone(), extra });
            }
        }
        let gens: Vec<&(String, Bytes)> = base.iter().filter(|(p, _)| p.starts_with("gen/")).collect();
        let metas: Vec<&(String, Bytes)> = base.iter().filter(|(p, _)| p.starts_with("meta/")).collect();
        for i in 0..gens.len() {
            for j in i + 1..gens.len() {
                if gens[i].1 != gens[j].1 {
                    out.push(Tamper::SwapObjects { a: gens[i].0.clone(), b: gens[j].0.clone() });
                }
            }
        }
        for i in 0..metas.len() {
            for j in i + 1..metas.len() {
                out.push(Tamper::SwapObjects { a: metas[i].0.clone(), b: metas[j].0.clone() });
            }
        }
        for i in 0..metas.len() {
            for j in 0..metas.len() {
                if i != j {
                    out.push(Tamper::Transplant { from_meta: metas[i].0.clone(), to_meta: metas[j].0.clone() });
                }
            }
        }
        let c = chunk as usize;
        for (p, b) in &gens.iter().map(|x| (*x).clone()).collect::<Vec<_>>() {
            let full = b.len() / c;
            let mut n = 0;
            'outer: for i in 0..full {
                for j in i + 1..full {
                    if b[i * c..(i + 1) * c] != b[j * c..(j + 1) * c] {
                        out.push(Tamper::SwapChunks { path: p.clone(), i, j, chunk: c });
                        n += 1;
                        if n >= 40 {
                            break 'outer;
                        }
                    }
                }
            }
        }
        // re-pointing: every other generation name known to the run
        let mut gen_names: BTreeSet<(String, String)> = BTreeSet::new(); // (key loc, generation)
        for p in ever.keys() {
            if let Some(r) = p.strip_prefix("gen/") {
                if let Some((k, g)) = r.rsplit_once('/') {
                    gen_names.insert((k.to_string(), g.to_string()));
                }
            }
        }
        for (mp, mb) in &metas.iter().map(|x| (*x).clone()).collect::<Vec<_>>() {
            let loc = mp.strip_prefix("meta/").unwrap().to_string();
            let Some(m) = cbor_map(mb) else { continue };
            let cur = match field(&m, "g") { Some(CV::Text(t)) => t.clone(), _ => String::new() };
            for (k, g) in &gen_names {
                if *g == cur && *k == loc {
                    continue;
                }
                // the generation object of (k,g), placed under this key's prefix
                let src = format!("gen/{k}/{g}");
                let dst = format!("gen/{loc}/{g}");
                let restore = ever.get(&src).map(|b| (dst, b.clone()));
                out.push(Tamper::Repoint { meta: mp.clone(), generation: g.clone(), restore });
            }
            // strip single fields and the downgrade combinations
            let names: Vec<String> = m.iter().filter_map(|(k, _)| if let CV::Text(t) = k { Some(t.clone()) } else { None }).collect();
            for n in &names {
                out.push(Tamper::Rewrite { meta: mp.clone(), remove: vec![n.clone()], set: vec![], move_payload_to_legacy: false, note: format!("strip {n}") });
            }
            let combos: Vec<Vec<&str>> = vec![
                vec![],
                vec!["an", "at"],
                vec!["an", "at", "av"],
                // the layout of a 0.9.x sealed object: chunk-AAD version kept, no generation
                vec!["an", "at", "g"],
                vec!["an", "at", "g", "m"],
                vec!["an", "at", "av", "g"],
                vec!["an", "at", "av", "g", "m"],
                vec!["an", "at", "av", "g", "m", "c"],
            ];
            let size: u64 = match field(&m, "s") { Some(CV::Integer(i)) => u64::try_from(*i).unwrap_or(0), _ => 0 };
            let tags: Vec<CV> = match field(&m, "t") { Some(CV::Array(a)) => a.clone(), _ => vec![] };
            let mut sets: Vec<(String, Vec<(String, CV)>)> = vec![("".into(), vec![])];
            for (note, v) in [("size-1", size.saturating_sub(1)), ("size+1", size + 1), ("size=0", 0), ("size*2", size * 2)] {
                if v != size {
                    sets.push((note.into(), vec![("s".into(), CV::Integer(v.into()))]));
                }
            }
            // truncate to a whole number of chunks, dropping the tags beyond
            for k in 0..tags.len() {
                let sz = (k as u64) * chunk;
                if sz < size {
                    sets.push((format!("size={sz},tags={k}"), vec![("s".into(), CV::Integer(sz.into())), ("t".into(), CV::Array(tags[..k].to_vec()))]));
                }
            }
            for (note, v) in [("chunk=1", 1u64), ("chunk*2", chunk * 2), ("chunk=huge", 1 << 40)] {
                if v != chunk {
                    sets.push((note.into(), vec![("c".into(), CV::Integer(v.into()))]));
                }
            }
            sets.push(("aad-version=0".into(), vec![("av".into(), CV::Integer(0u64.into()))]));
            sets.push(("commit-time=0".into(), vec![("m".into(), CV::Integer(0u64.into()))]));
            sets.push(("etag=other".into(), vec![("e".into(), CV::Text("AAAAAAAAAAAAAAAAAAAAAAAAAAAAAAAAAAAAAAAAAAA=".into()))]));
            for combo in &combos {
                for (note, set) in &sets {
                    if combo.is_empty() && set.is_empty() {
                        continue;
                    }
                    // a field both removed and set makes no sense
                    if set.iter().any(|(f, _)| combo.contains(&f.as_str())) {
                        continue;
                    }
                    for mv in [false, true] {
                        if mv && combo.is_empty() {
                            continue;
                        }
                        out.push(Tamper::Rewrite {
                            meta: mp.clone(),
                            remove: combo.iter().map(|s| s.to_string()).collect(),
                            set: set.clone(),
                            move_payload_to_legacy: mv,
                            note: format!("strip {combo:?} {note}"),
                        });
                    }
                }
            }
        }
        out
    }

    fn apply_tamper(&self, disk: &InMemory, base: &HashMap<String, Bytes>, t: &Tamper) -> bool {
        block(async {
            match t {
                Tamper::Flip { path, byte, bit } => {
                    let mut v = base[path].to_vec();
                    v[*byte] ^= 1 << bit;
                    put_raw(disk, path, Bytes::from(v)).await;
                }
                Tamper::Truncate { path, len } => {
                    put_raw(disk, path, base[path].slice(0..*len)).await;
                }
                Tamper::Extend { path, extra } => {
                    let mut v = base[path].to_vec();
                    v.extend(std::iter::repeat(0x5a).take(*extra));
                    put_raw(disk, path, Bytes::from(v)).await;
                }
                Tamper::SwapObjects { a, b } => {
                    put_raw(disk, a, base[b].clone()).await;
                    put_raw(disk, b, base[a].clone()).await;
                }
                Tamper::SwapChunks { path, i, j, chunk } => {
                    let mut v = base[path].to_vec();
                    for k in 0..*chunk {
                        v.swap(i * chunk + k, j * chunk + k);
                    }
                    put_raw(disk, path, Bytes::from(v)).await;
                }
                Tamper::Transplant { from_meta, to_meta } => {
                    let Some(m) = cbor_map(&base[from_meta]) else { return false };
                    let Some(CV::Text(g)) = field(&m, "g").cloned() else { return false };
                    let from_loc = from_meta.strip_prefix("meta/").unwrap();
                    let to_loc = to_meta.strip_prefix("meta/").unwrap();
                    let Some(payload) = base.get(&format!("gen/{from_loc}/{g}")) else { return false };
                    put_raw(disk, to_meta, base[from_meta].clone()).await;
                    put_raw(disk, &format!("gen/{to_loc}/{g}"), payload.clone()).await;
                }
                Tamper::Repoint { meta, generation, restore } => {
                    let Some(mut m) = cbor_map(&base[meta]) else { return false };
                    let mut found = false;
                    for (k, v) in m.iter_mut() {
                        if matches!(k, CV::Text(t) if t == "g") {
                            *v = CV::Text(generation.clone());
                            found = true;
                        }
                    }
                    if !found {
                        return false;
                    }
                    put_raw(disk, meta, Bytes::from(cbor_bytes(&m))).await;
                    if let Some((p, b)) = restore {
                        put_raw(disk, p, b.clone()).await;
                    }
                }
                Tamper::Rewrite { meta, remove, set, move_payload_to_legacy, .. } => {
                    let Some(m) = cbor_map(&base[meta]) else { return false };
                    let g = match field(&m, "g") { Some(CV::Text(t)) => Some(t.clone()), _ => None };
                    let mut m2: Vec<(CV, CV)> = m
                        .iter()
                        .filter(|(k, _)| !matches!(k, CV::Text(t) if remove.contains(t)))
                        .cloned()
                        .collect();
                    let mut changed = m2.len() != m.len();
                    for (f, value) in set {
                        let mut found = false;
                        for (k, v) in m2.iter_mut() {
                            if matches!(k, CV::Text(t) if t == f) {
                                if v != value {
                                    *v = value.clone();
                                    changed = true;
                                }
                                found = true;
                            }
                        }
                        if !found {
                            m2.push((CV::Text(f.clone()), value.clone()));
                            changed = true;
                        }
                    }
                    if !changed {
                        return false;
                    }
                    put_raw(disk, meta, Bytes::from(cbor_bytes(&m2))).await;
                    if *move_payload_to_legacy {
                        let loc = meta.strip_prefix("meta/").unwrap();
                        if let Some(g) = g {
                            if let Some(b) = base.get(&format!("gen/{loc}/{g}")) {
                                put_raw(disk, &format!("data/{loc}"), b.clone()).await;
                            }
                        }
                    }
                }
            }
            true
        })
    }

    /// All read paths for `key` on `s`; returns an outcome code string or a violation.
    fn read_paths(
        &self,
        s: &dyn ObjectStore,
        key: u8,
        orig: Option<&Orig>,
        chunk: u64,
        judge_meta: bool,
        ctx: &dyn Fn() -> String,
    ) -> Result<String, Violation> {
        let p = key_path(key);
        let mut outcome = String::new();
        let bad = |what: &str, detail: String| -> Violation {
            violation!(format!("c09.wrong-{what}"), "{}: {what}: {detail}", ctx())
        };
        block(async {
            // get
            match s.get(&p).await {
                Ok(r) => {
                    let meta = r.meta.clone();
                    match r.bytes().await {
                        Ok(b) => {
                            let Some(o) = orig else {
                                return Err(bad("bytes", format!("get({p}) returned {} for a key that was never written", short(&b))));
                            };
                            if b != o.bytes {
                                return Err(bad("bytes", format!("get({p}) returned {} instead of the written {}", short(&b), short(&o.bytes))));
                            }
                            if judge_meta && (meta.size != o.size || meta.e_tag != o.etag) {
                                return Err(bad("metadata", format!("get({p}) reports size={} etag={:?} lm={} but the commit was size={} etag={:?} lm={}", meta.size, meta.e_tag, meta.last_modified.timestamp_millis(), o.size, o.etag, o.lm)));
                            }
                            outcome.push('G');
                        }
                        Err(_) => outcome.push('g'),
                    }
                }
                Err(_) => outcome.push('e'),
            }
            // head
            match s.head(&p).await {
                Ok(m) => {
                    let Some(o) = orig else {
                        return Err(bad("metadata", format!("head({p}) succeeded for a key that was never written")));
                    };
                    if judge_meta && (m.size != o.size || m.e_tag != o.etag) {
                        return Err(bad("metadata", format!("head({p}) reports size={} etag={:?} lm={} but the commit was size={} etag={:?} lm={}", m.size, m.e_tag, m.last_modified.timestamp_millis(), o.size, o.etag, o.lm)));
                    }
                    outcome.push('H');
                }
                Err(_) => outcome.push('e'),
            }
            // ranged reads over chunk-boundary windows
            if let Some(o) = orig {
                let n = o.size;
                let c = chunk.min(64);
                let mut wins: Vec<(u64, u64)> = vec![(0, 1), (0, n), (n.saturating_sub(1), n), (c.saturating_sub(1), c + 1), (c, 2 * c), (1, c + 2), (2 * c, 3 * c + 1)];
                wins.retain(|(a, b)| a < b && *b <= n);
                wins.dedup();
                for (a, b) in &wins {
                    match s.get_range(&p, *a..*b).await {
                        Ok(got) => {
                            if got != o.bytes.slice(*a as usize..*b as usize) {
                                return Err(bad("bytes", format!("get_range({p},{a}..{b}) returned {} instead of {}", short(&got), short(&o.bytes.slice(*a as usize..*b as usize)))));
                            }
                            outcome.push('R');
                        }
                        Err(_) => outcome.push('e'),
                    }
                }
                if !wins.is_empty() {
                    let rs: Vec<std::ops::Range<u64>> = wins.iter().map(|(a, b)| *a..*b).collect();
                    match s.get_ranges(&p, &rs).await {
                        Ok(v) => {
                            for (got, (a, b)) in v.iter().zip(wins.iter()) {
                                if *got != o.bytes.slice(*a as usize..*b as usize) {
                                    return Err(bad("bytes", format!("get_ranges({p}) window {a}..{b} returned {}", short(got))));
                                }
                            }
                            if v.len() != wins.len() {
                                return Err(bad("bytes", format!("get_ranges({p}) returned {} parts for {} ranges", v.len(), wins.len())));
                            }
                            outcome.push('M');
                        }
                        Err(_) => outcome.push('e'),
                    }
                }
            }
            // copy then read the copy
            let dst = Path::from("z/copy");
            match s.copy(&p, &dst).await {
                Ok(()) => match read_full(s, &dst).await {
                    Ok(Some(b)) => {
                        if orig.map(|o| &o.bytes) != Some(&b) {
                            return Err(bad("bytes", format!("copy({p}→z/copy) then get returned {}", short(&b))));
                        }
                        outcome.push('C');
                    }
                    _ => outcome.push('c'),
                },
                Err(_) => outcome.push('e'),
            }
            Ok(outcome)
        })
    }

    fn listings(
        &self,
        s: &dyn ObjectStore,
        origs: &BTreeMap<u8, Orig>,
        judge_meta: bool,
        ctx: &dyn Fn() -> String,
    ) -> Result<String, Violation> {
        block(async {
            let mut outcome = String::new();
            let items: Vec<_> = s.list(None).collect().await;
            let mut failed = false;
            for it in &items {
                match it {
                    Err(_) => failed = true,
                    Ok(m) => {
                        let loc = m.location.to_string();
                        if loc == "z/copy" {
                            continue;
                        }
                        let k = KEYS.iter().position(|k| *k == loc).map(|i| i as u8);
                        let o = k.and_then(|k| origs.get(&k));
                        match o {
                            None => {
                                return Err(violation!("c09.wrong-listing", "{}: list reports {loc}, a key that was never written", ctx()));
                            }
                            Some(o) => {
                                // last_modified is not compared in listings: a document that
                                // degrades to unauthenticated legacy metadata (documented for
                                // compatibility mode) falls back to the backend timestamp; the
                                // property speaks of bytes, and C07 covers timestamps untampered.
                                if judge_meta && (m.size != o.size || m.e_tag != o.etag) {
                                    return Err(violation!(
                                        "c09.wrong-listing",
                                        "{}: list reports {loc} size={} etag={:?} lm={} but the commit was size={} etag={:?} lm={}",
                                        ctx(), m.size, m.e_tag, m.last_modified.timestamp_millis(), o.size, o.etag, o.lm
                                    ));
                                }
                            }
                        }
                    }
                }
            }
            outcome.push(if failed { 'l' } else { 'L' });
            match s.list_with_delimiter(None).await {
                Ok(r) => {
                    for m in &r.objects {
                        let loc = m.location.to_string();
                        let k = KEYS.iter().position(|k| *k == loc).map(|i| i as u8);
                        if let Some(o) = k.and_then(|k| origs.get(&k)) {
                            if judge_meta && (m.size != o.size || m.e_tag != o.etag) {
                                return Err(violation!("c09.wrong-listing", "{}: list_with_delimiter reports {loc} with metadata differing from the commit", ctx()));
                            }
                        } else if loc != "z/copy" {
                            return Err(violation!("c09.wrong-listing", "{}: list_with_delimiter reports unknown key {loc}", ctx()));
                        }
                    }
                    outcome.push('D');
                }
                Err(_) => outcome.push('d'),
            }
            Ok(outcome)
        })
    }
}

impl Harness for H {
    type Case = Case;

    fn generate(&self, case_seed: u64, _idx: u64, tier: Tier) -> Case {
        let mut rng = Rng::stream(case_seed, "c09");
        let chunk = *rng.pick(if tier == Tier::Thorough { &[1u64, 7, 16, 64][..] } else { &[7u64, 16, 64][..] });
        let mut tag = 0u32;
        let n = rng.range(2, 4);
        let nkeys = 4u8;
        let mut ops = Vec::new();
        for _ in 0..n {
            let key = rng.below(nkeys as u64) as u8;
            // keep payloads small: the sweep is quadratic in object size
            let mut v = gen_val(&mut rng, &mut tag, chunk.min(16));
            if v.len > 70 {
                v.len = 3 * chunk.min(16) as u32 + 1;
            }
            let op = match rng.weighted(&[40, 20, 15, 15, 10]) {
                0 => WOp::Put { key, val: v, create: false },
                1 => {
                    let mut v2 = gen_val(&mut rng, &mut tag, chunk.min(16));
                    if v2.len > 40 {
                        v2.len = chunk.min(16) as u32 + 1;
                    }
                    WOp::Multi { key, parts: vec![v, v2], abort: false }
                }
                2 => WOp::Copy { from: rng.below(nkeys as u64) as u8, to: key, create: false },
                3 => WOp::Rename { from: rng.below(nkeys as u64) as u8, to: key, create: false },
                _ => WOp::Put { key, val: v, create: false },
            };
            ops.push(op);
        }
        // guarantee at least one object and one overwrite
        ops.insert(0, WOp::Put { key: 0, val: Val { tag: 9001, len: (2 * chunk.min(16) + 3) as u32 }, create: false });
        ops.push(WOp::Put { key: 0, val: Val { tag: 9002, len: (chunk.min(16) + 1) as u32 }, create: false });
        Case { seed: case_seed, chunk, ops, only: None }
    }

    fn entropy_seed(&self, case: &Case) -> u64 {
        simcore::rng::derive(case.seed, "entropy")
    }

    fn execute(&self, case: &Case, rep: &mut RunReport) -> Result<(), Violation> {
        let mut cfg = SimConfig::simple(case.seed);
        cfg.park = false;
        cfg.clock = ClockMode::Tick(3);
        cfg.record_trace = false;
        let sim = Sim::new(&cfg);
        sim.install_clock_here();
        let disk = InMemory::new();
        let store = SimStore::new(sim.clone(), disk);
        let kind = WrapperKind::Enc(case.chunk, false);
        let w = Wrapper::build(kind, store.clone(), 1000);
        let s = w.store();
        let mut model: Model = BTreeMap::new();
        let mut ever: BTreeMap<String, Bytes> = BTreeMap::new();
        let mut plaintexts: Vec<Bytes> = Vec::new();
        for op in &case.ops {
            let r = block(real_apply(&w, s.as_ref(), op));
            let mut m2 = model.clone();
            let ok = model_apply(&mut m2, op);
            if r.is_ok() != ok {
                return Err(violation!("c09.seq-result", "{op:?}: wrapper returned {r:?}, model expects ok={ok}"));
            }
            if ok {
                model = m2;
            }
            match op {
                WOp::Put { val, .. } => plaintexts.push(val.bytes()),
                WOp::Multi { parts, .. } => parts.iter().for_each(|p| plaintexts.push(p.bytes())),
                _ => {}
            }
            for (p, b) in SimStore::dump(store.disk()) {
                ever.entry(p).or_insert(b);
            }
        }
        // originals through a cold wrapper
        let mut origs: BTreeMap<u8, Orig> = BTreeMap::new();
        {
            let w0 = Wrapper::build(kind, store.clone(), 1000);
            let s0 = w0.store();
            for (k, b) in &model {
                let m = block(s0.head(&key_path(*k))).map_err(|e| violation!("c09.setup", "head of written key failed: {e}"))?;
                let got = block(read_full(s0.as_ref(), &key_path(*k))).map_err(|e| violation!("c09.setup", "get of written key failed: {e}"))?;
                if got.as_ref() != Some(b) {
                    return Err(violation!("c09.wrong-bytes", "untampered read of {} differs from what was written", KEYS[*k as usize]));
                }
                origs.insert(*k, Orig { bytes: b.clone(), size: m.size, etag: m.e_tag.clone(), lm: m.last_modified.timestamp_millis() });
            }
        }
        // invariant: no plaintext window in any backend object ever written
        let mut windows: HashSet<[u8; 8]> = HashSet::new();
        for p in &plaintexts {
            if p.len() >= 8 {
                for w in p.windows(8) {
                    windows.insert(w.try_into().unwrap());
                }
            }
        }
        let mut scanned = 0u64;
        for (path, b) in &ever {
            if b.len() >= 8 {
                for w in b.windows(8) {
                    scanned += 1;
                    let a: [u8; 8] = w.try_into().unwrap();
                    if windows.contains(&a) {
                        return Err(violation!("c09.plaintext-on-backend", "backend object {path} contains an 8-byte window of a written plaintext"));
                    }
                }
            }
        }
        rep.probe("plaintext_windows_scanned", scanned);
        // invariant: GCM nonce uniqueness across everything ever written
        let mut nonce_use: HashMap<[u8; 12], (String, Vec<u8>)> = HashMap::new();
        let mut nonces_checked = 0u64;
        for (path, b) in &ever {
            let Some(loc) = path.strip_prefix("meta/") else { continue };
            let Some(m) = cbor_map(b) else { continue };
            let (Some(CV::Bytes(n)), Some(CV::Array(tags))) = (field(&m, "n"), field(&m, "t")) else { continue };
            let g = match field(&m, "g") { Some(CV::Text(t)) => t.clone(), _ => continue };
            let csize = match field(&m, "c") { Some(CV::Integer(i)) => u64::try_from(*i).unwrap_or(case.chunk), _ => case.chunk } as usize;
            let Some(payload) = ever.get(&format!("gen/{loc}/{g}")) else { continue };
            let base: [u8; 12] = match n.as_slice().try_into() { Ok(a) => a, Err(_) => continue };
            for idx in 0..tags.len() {
                let mut nonce = base;
                let ctr = u64::from_le_bytes(nonce[4..12].try_into().unwrap()).wrapping_add(idx as u64);
                nonce[4..12].copy_from_slice(&ctr.to_le_bytes());
                let lo = idx * csize;
                let hi = ((idx + 1) * csize).min(payload.len());
                let ct = if lo <= hi && hi <= payload.len() { payload[lo..hi].to_vec() } else { vec![] };
                nonces_checked += 1;
                if let Some((where_, prev)) = nonce_use.get(&nonce) {
                    if *prev != ct {
                        return Err(violation!("c09.nonce-reuse", "GCM nonce {:02x?} encrypts two different chunks: {where_} and {path}#{idx}", nonce));
                    }
                } else {
                    nonce_use.insert(nonce, (format!("{path}#{idx}"), ct));
                }
            }
            if let Some(CV::Bytes(an)) = field(&m, "an") {
                if let Ok(a) = <[u8; 12]>::try_from(an.as_slice()) {
                    nonces_checked += 1;
                    // the metadata GMAC nonce authenticates this document's AAD;
                    // identical documents (same bytes) legitimately repeat it
                    let ident = b.to_vec();
                    if let Some((where_, prev)) = nonce_use.get(&a) {
                        if *prev != ident {
                            return Err(violation!("c09.nonce-reuse", "metadata auth nonce of {path} is also used by {where_}"));
                        }
                    } else {
                        nonce_use.insert(a, (format!("{path}#auth"), ident));
                    }
                }
            }
        }
        rep.probe("nonces_checked", nonces_checked);

        // the tamper sweep
        let base_vec = SimStore::dump(store.disk());
        let base: HashMap<String, Bytes> = base_vec.iter().cloned().collect();
        let tampers = self.enumerate(&base_vec, &ever, case.chunk);
        if std::env::var("C09_DEBUG").is_ok() {
            for (p, b) in &base_vec {
                if p.starts_with("meta/") {
                    eprintln!("{p}: {}", b.iter().map(|x| format!("{x:02x}")).collect::<String>());
                    eprintln!("   {:?}", cbor_map(b));
                }
            }
        }
        let mut sigs = Vec::new();
        let mut evals = 0u64;
        let mut downgrade_hit: Option<Violation> = None;
        for (ti, t) in tampers.iter().enumerate() {
            if let Some(only) = case.only {
                if only != ti as u64 {
                    continue;
                }
            }
            let d = store.disk().fork();
            if !self.apply_tamper(&d, &base, t) {
                continue;
            }
            rep.fire(t.kind(), 1);
            // affected keys
            let mut keys: BTreeSet<u8> = BTreeSet::new();
            match t {
                Tamper::Flip { path, .. } | Tamper::Truncate { path, .. } | Tamper::Extend { path, .. } | Tamper::SwapChunks { path, .. } => {
                    keys.extend(key_of_backend_path(path));
                }
                Tamper::SwapObjects { a, b } => {
                    keys.extend(key_of_backend_path(a));
                    keys.extend(key_of_backend_path(b));
                }
                Tamper::Repoint { meta, .. } | Tamper::Rewrite { meta, .. } => {
                    keys.extend(key_of_backend_path(meta));
                }
                Tamper::Transplant { from_meta, to_meta } => {
                    keys.extend(key_of_backend_path(from_meta));
                    keys.extend(key_of_backend_path(to_meta));
                }
            }
            if !matches!(t, Tamper::Flip { .. } | Tamper::Truncate { .. } | Tamper::Extend { .. }) {
                keys.extend(origs.keys().copied());
            }
            // Besides the two cold instances, metadata-level tampers are replayed
            // against a WARM instance (every key read once before the backend is
            // modified underneath it), once as is and once with the generation
            // objects the cached documents point at moved away - the stale-pointer
            // path re-reads the commit point, and what it re-reads is the forgery.
            let meta_level = matches!(t, Tamper::Transplant { .. } | Tamper::Repoint { .. } | Tamper::Rewrite { .. }) || matches!(t, Tamper::SwapObjects { a, .. } if a.starts_with("meta/"));
            for (strict, warm) in [(false, 0u8), (true, 0), (false, 1), (false, 2)] {
                if warm > 0 && !meta_level {
                    continue;
                }
                let mut cfg2 = SimConfig::simple(case.seed ^ 0x99);
                cfg2.park = false;
                cfg2.record_trace = false;
                cfg2.start_ms = sim.clock().now_ms() + 10;
                let sim2 = Sim::new(&cfg2);
                sim2.install_clock_here();
                let st2 = SimStore::new(sim2, if warm > 0 { store.disk().fork() } else { d.fork() });
                let w2 = Wrapper::build(WrapperKind::Enc(case.chunk, strict), st2.clone(), 1000);
                let s2 = w2.store();
                if warm > 0 {
                    for k in origs.keys() {
                        let _ = block(s2.head(&key_path(*k)));
                        let _ = block(read_full(s2.as_ref(), &key_path(*k)));
                    }
                    if !self.apply_tamper(st2.disk(), &base, t) {
                        continue;
                    }
                    if warm == 2 {
                        let mut evicted = 0u64;
                        for (p, b) in SimStore::dump(st2.disk()) {
                            let Some(loc) = p.strip_prefix("meta/") else { continue };
                            let Some(old) = base.get(&p) else { continue };
                            if *old == b {
                                continue;
                            }
                            let g_of = |doc: &Bytes| cbor_map(doc).and_then(|m| match field(&m, "g") { Some(CV::Text(t)) => Some(t.clone()), _ => None });
                            if let (Some(g0), g1) = (g_of(old), g_of(&b)) {
                                if g1.as_deref() != Some(g0.as_str()) {
                                    let _ = block(st2.disk().delete(&Path::from(format!("gen/{loc}/{g0}"))));
                                    evicted += 1;
                                }
                            }
                        }
                        if evicted == 0 {
                            continue;
                        }
                        rep.probe("warm_instance_with_cached_generation_moved_away", 1);
                    } else {
                        rep.probe("warm_instance_tampered_underneath", 1);
                    }
                }
                let ctx = || format!("tamper #{ti} {t:?} (strict={strict}, chunk={}, instance={})", case.chunk, ["cold", "warm", "warm, cached generation objects removed"][warm as usize]);
                // Compatibility mode (the default) documents one downgrade window: a
                // document stripped of ALL its authentication fields is accepted as
                // pre-auth legacy metadata. Violations reached through such compound
                // tampers are classified separately (known finding, see DESIGN.md §6)
                // and do not stop the sweep.
                // ... i.e. of an, at, av AND g: anything less still carries a field
                // that genuine pre-auth metadata never had and must be rejected.
                // The window is recognised by its effect, not by the tamper that
                // produced it: some metadata document on the tampered disk differs
                // from the original and decodes as a CBOR map carrying none of the
                // four fields (a field-stripping rewrite, or a bit flip in a key
                // header that shifts the rest of the map into unknown keys).
                let full_strip = SimStore::dump(&d).iter().any(|(p, b)| {
                    p.starts_with("meta/")
                        && base.get(p).map(|o| o != b).unwrap_or(true)
                        && cbor_map(b).map(|m| ["an", "at", "av", "g"].iter().all(|f| field(&m, f).is_none())).unwrap_or(false)
                });
                let window = !strict && full_strip;
                let mut outcome = String::new();
                let r = (|| -> Result<(), Violation> {
                    outcome = self.listings(s2.as_ref(), &origs, true, &ctx)?;
                    for k in &keys {
                        outcome.push_str(&self.read_paths(s2.as_ref(), *k, origs.get(k), case.chunk, true, &ctx)?);
                    }
                    Ok(())
                })();
                if let Err(v) = r {
                    if window {
                        rep.probe("compat_downgrade_window_hit", 1);
                        outcome.push('!');
                        if downgrade_hit.is_none() {
                            downgrade_hit = Some(Violation::new(
                                format!("c09.compat-downgrade-window.{}", v.class.trim_start_matches("c09.")),
                                v.message,
                            ));
                        }
                    } else {
                        return Err(v);
                    }
                }
                evals += 1;
                let detected = outcome.chars().any(|c| c.is_ascii_lowercase());
                rep.probe(if detected { "tamper_detected_by_some_read" } else { "tamper_harmless_all_reads_original" }, 1);
                let mut sg = Sig::default();
                sg.add_str(t.kind());
                sg.add_str(&outcome);
                sg.add(strict as u64);
                if let Tamper::Flip { byte, bit, .. } = t {
                    sg.add(*byte as u64);
                    sg.add(*bit as u64);
                }
                if let Tamper::Truncate { len, .. } = t {
                    sg.add(*len as u64);
                }
                sg.add(ti as u64);
                sigs.push(sg.0);
            }
        }
        sim.install_clock_here();
        rep.evaluations = evals.max(1);
        rep.nontrivial_sigs = sigs;
        rep.steps = sim.calls();
        rep.trace_hash = {
            let mut sg = Sig::default();
            for (p, b) in &base_vec {
                sg.add_str(p);
                sg.add_bytes(b);
            }
            sg.0
        };
        rep.sample = Some(serde_json::json!({
            "chunk": case.chunk,
            "ops": case.ops.iter().map(|o| format!("{o:?}")).collect::<Vec<_>>(),
            "backend_objects": base_vec.iter().map(|(p, b)| format!("{p} ({}B)", b.len())).collect::<Vec<_>>(),
            "tampers_enumerated": tampers.len(),
            "example_tampers": tampers.iter().step_by((tampers.len() / 6).max(1)).take(6).map(|t| format!("{t:?}")).collect::<Vec<_>>(),
        }));
        if let Some(v) = downgrade_hit {
            return Err(v);
        }
        Ok(())
    }

    fn shrink(&self, case: &Case) -> Vec<Case> {
        let mut out = Vec::new();
        for i in (0..case.ops.len()).rev() {
            let mut c = case.clone();
            c.ops.remove(i);
            c.only = None;
            out.push(c);
        }
        out
    }
}
