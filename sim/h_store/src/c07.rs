//! C07 — the wrappers behave as a conforming object store with real CAS.
//!
//! 1–3 simulated clients issue generated object-store calls through MetaStore
//! or EncryptedStore over the simulated disk; invoke/return events are stamped
//! with the simulator's event sequence; the history must be linearizable
//! against `RefStore`, a small sequential model of the `ObjectStore` contract
//! as `object_store::memory::InMemory` implements it (a separate phase runs the
//! same generator against a bare InMemory to keep the model honest). Tokens are
//! opaque: the model binds each real token to one commit and requires the
//! binding to stay injective across commits and keys.

use bytes::Bytes;
use chrono::{DateTime, TimeZone, Utc};
use futures::StreamExt;
use object_store::memory::InMemory;
use object_store::path::Path;
use object_store::{
    CopyMode, CopyOptions, Error, GetOptions, GetRange, ObjectMeta, ObjectStore, ObjectStoreExt,
    PutMode, PutOptions, PutPayload, RenameOptions, RenameTargetMode, UpdateVersion,
};
use serde::{Deserialize, Serialize};
use simcore::batch::{Harness, RunReport, Tier, Violation};
use simcore::lin::{self, Event, Model};
use simcore::rng::{Rng, Sig};
use simcore::sim::{LocalTask, Outcome};
use simcore::{ClockMode, Policy, Schedule, Sim, SimConfig, SimStore, violation};
use std::collections::{BTreeMap, BTreeSet};
use std::sync::{Arc, Mutex};

use crate::common::*;

// ---------------------------------------------------------------------------
// generated operations (symbolic tokens)

#[derive(Clone, Debug, Serialize, Deserialize, PartialEq)]
pub enum TokSel {
    Latest(u8),
    Older(u8),
    Missing,
    Garbage,
    Star,
}

#[derive(Clone, Debug, Serialize, Deserialize, PartialEq)]
pub enum GMode {
    Overwrite,
    Create,
    Update(TokSel),
    /// Update with a version precondition as well (never reported ⇒ never matches)
    UpdateWithVersion(TokSel),
}

#[derive(Clone, Debug, Serialize, Deserialize, PartialEq, Eq, Hash)]
pub enum RSel {
    Bounded(u64, u64),
    Offset(u64),
    Suffix(u64),
}

#[derive(Clone, Debug, Serialize, Deserialize, PartialEq)]
pub enum GOp {
    Put { key: u8, val: Val, mode: GMode },
    Multi { key: u8, parts: Vec<Val>, finish: u8 },
    Get {
        key: u8,
        head: bool,
        range: Option<RSel>,
        if_match: Option<Vec<TokSel>>,
        if_none_match: Option<Vec<TokSel>>,
        mod_since: Option<i32>,
        unmod_since: Option<i32>,
    },
    GetRange { key: u8, lo: u64, hi: u64 },
    GetRanges { key: u8, ranges: Vec<(u64, u64)> },
    List { prefix: Option<u8>, offset: Option<u8> },
    ListDelim { prefix: Option<u8> },
    Delete { key: u8 },
    Copy { from: u8, to: u8, create: bool },
    Rename { from: u8, to: u8, create: bool },
    Recache,
    /// Writer hand-over: the calls that follow go through the OTHER live wrapper
    /// instance over the same backend (its metadata cache is as warm - and as
    /// stale - as it was left).
    Handover,
}

pub const PREFIXES: [&str; 5] = ["a", "a/b", "d", "x", "a/b/c"];

// ---------------------------------------------------------------------------
// resolved operations and results (what the model sees)

#[derive(Clone, Debug, PartialEq, Eq, Hash)]
pub enum MMode {
    Overwrite,
    Create,
    Update { etag: Option<String>, version: Option<String> },
}

#[derive(Clone, Debug, PartialEq, Eq, Hash)]
pub enum MOp {
    Put { key: u8, bytes: Bytes, mode: MMode },
    MultiComplete { key: u8, bytes: Bytes },
    Nop,
    Get {
        key: u8,
        head: bool,
        range: Option<RSel>,
        if_match: Option<String>,
        if_none_match: Option<String>,
        mod_since: Option<i64>,
        unmod_since: Option<i64>,
    },
    GetRanges { key: u8, ranges: Vec<(u64, u64)> },
    List { prefix: Option<String>, offset: Option<String> },
    ListDelim { prefix: Option<String> },
    /// One entry (or one absence) of a non-snapshot listing.
    Observe { key: u8 },
    /// One common prefix (listed or not) of a non-snapshot delimiter listing.
    ObservePrefix { q: String },
    Delete { key: u8 },
    Copy { from: u8, to: u8, create: bool },
    /// Under concurrency a copy is two steps (as on S3-class stores and as
    /// the wrappers implement it): resolve the source, then commit the target.
    CopyRead { from: u8, id: u64 },
    CopyCommit { to: u8, create: bool, id: u64 },
    Rename { from: u8, to: u8, create: bool },
}

#[derive(Clone, Debug, PartialEq, Eq, Hash)]
pub struct Ent {
    pub loc: String,
    pub size: u64,
    pub etag: Option<String>,
    pub lm: i64,
    pub version_reported: bool,
}

#[derive(Clone, Debug, PartialEq, Eq, Hash)]
pub enum EK {
    NotFound,
    AlreadyExists,
    Precondition,
    NotModified,
    Other(String),
}

#[derive(Clone, Debug, PartialEq, Eq, Hash)]
pub enum MRes {
    Put { etag: Option<String>, version_reported: bool },
    Get { bytes: Bytes, ent: Ent, range: (u64, u64) },
    Ranges(Vec<Bytes>),
    Unit,
    List(Vec<Ent>),
    ListDelim { prefixes: Vec<String>, objects: Vec<Ent> },
    Obs(Option<Ent>),
    PrefixListed(bool),
    Err(EK),
}

fn ek(e: &Error) -> EK {
    match e {
        Error::NotFound { .. } => EK::NotFound,
        Error::AlreadyExists { .. } => EK::AlreadyExists,
        Error::Precondition { .. } => EK::Precondition,
        Error::NotModified { .. } => EK::NotModified,
        other => EK::Other(other.to_string()),
    }
}

fn ent_of(m: &ObjectMeta) -> Ent {
    Ent {
        loc: m.location.to_string(),
        size: m.size,
        etag: m.e_tag.clone(),
        lm: m.last_modified.timestamp_millis(),
        version_reported: m.version.is_some(),
    }
}

// ---------------------------------------------------------------------------
// the reference model

/// Latitude: what the trait leaves open / the property exempts.
#[derive(Clone, Debug)]
pub struct Latitude {
    /// delete of a missing key may return Ok
    pub delete_missing_ok: bool,
    /// delete of a missing key may return NotFound
    pub delete_missing_notfound: bool,
    /// rename(a, a): object kept (wrappers) vs destroyed by copy+delete (reference default)
    pub self_rename_keeps: bool,
    /// PutMode::Update without an e_tag: Precondition accepted besides a generic error
    pub missing_etag_precondition: bool,
    /// get_ranges with end > len: error accepted besides clamping
    pub ranges_end_beyond_len_error: bool,
    /// a version in UpdateVersion never matches (versions are documented as
    /// not reported); the reference ignores the field
    pub update_version_never_matches: bool,
    /// tokens are quoted counters that legitimately differ per key only by value
    pub tokens_opaque: bool,
    /// last_modified of the reference is wall-clock at apply time (no binding check)
    pub lm_checked: bool,
}

impl Latitude {
    pub fn wrapper() -> Self {
        Latitude {
            delete_missing_ok: true,
            delete_missing_notfound: true,
            self_rename_keeps: true,
            missing_etag_precondition: true,
            ranges_end_beyond_len_error: true,
            update_version_never_matches: true,
            tokens_opaque: true,
            lm_checked: true,
        }
    }
    pub fn inmemory() -> Self {
        Latitude {
            delete_missing_ok: true,
            delete_missing_notfound: false,
            self_rename_keeps: false,
            missing_etag_precondition: false,
            ranges_end_beyond_len_error: false,
            update_version_never_matches: false,
            tokens_opaque: true,
            lm_checked: true,
        }
    }
}

#[derive(Clone, Debug, PartialEq, Eq, Hash)]
pub struct MObj {
    bytes: Bytes,
    tok: Option<String>,
    lm: Option<i64>,
    cid: u32,
}

#[derive(Clone, Debug, PartialEq, Eq, Hash, Default)]
pub struct MState {
    objs: BTreeMap<u8, MObj>,
    retired: BTreeSet<String>,
    next_cid: u32,
    /// source bytes resolved by an in-progress two-step copy
    copies: BTreeMap<u64, Bytes>,
}

pub struct RefStore {
    pub lat: Latitude,
}

fn in_prefix(loc: &str, prefix: &Option<String>) -> bool {
    match prefix {
        None => true,
        Some(p) => loc.len() > p.len() && loc.starts_with(p.as_str()) && loc.as_bytes()[p.len()] == b'/',
    }
}

impl RefStore {
    fn fresh_token_ok(st: &MState, key: u8, t: &str) -> bool {
        if st.retired.contains(t) {
            return false;
        }
        !st.objs
            .iter()
            .any(|(k, o)| *k != key && o.tok.as_deref() == Some(t))
    }

    fn commit(&self, st: &MState, key: u8, bytes: Bytes, tok: Option<String>) -> Option<MState> {
        let mut s = st.clone();
        if let Some(old) = s.objs.get(&key) {
            if let Some(t) = &old.tok {
                s.retired.insert(t.clone());
            }
        }
        if let Some(t) = &tok {
            if !Self::fresh_token_ok(&s, key, t) {
                return None; // token reuse across commits or keys
            }
        }
        let cid = s.next_cid;
        s.next_cid += 1;
        s.objs.insert(key, MObj { bytes, tok, lm: None, cid });
        Some(s)
    }

    /// Binds/checks one observation of a key's metadata.
    fn observe(&self, st: &MState, key: u8, ent: &Ent) -> Option<MState> {
        let o = st.objs.get(&key)?;
        if ent.loc != KEYS[key as usize] || ent.size != o.bytes.len() as u64 || ent.version_reported {
            return None;
        }
        let t = ent.etag.as_ref()?;
        let mut s = st.clone();
        match &o.tok {
            Some(c) => {
                if c != t {
                    return None;
                }
            }
            None => {
                if !Self::fresh_token_ok(st, key, t) {
                    return None;
                }
                s.objs.get_mut(&key).unwrap().tok = Some(t.clone());
            }
        }
        if self.lat.lm_checked {
            match o.lm {
                Some(l) => {
                    if l != ent.lm {
                        return None;
                    }
                }
                None => s.objs.get_mut(&key).unwrap().lm = Some(ent.lm),
            }
        }
        Some(s)
    }

    fn tag_list_matches(list: &str, tok: &str) -> bool {
        list.split(',').map(str::trim).any(|t| t == tok)
    }
}

impl Model for RefStore {
    type State = MState;
    type Op = MOp;
    type Res = MRes;

    fn step(&self, st: &MState, op: &MOp, res: Option<&MRes>) -> Vec<MState> {
        let Some(res) = res else {
            // unknown outcome (an injected failure reported after the write may
            // have landed): an overwriting put either committed - under a token
            // nobody has seen yet - or did nothing
            return match op {
                MOp::Put { key, bytes, mode: MMode::Overwrite } => {
                    let mut v = vec![st.clone()];
                    if let Some(n) = self.commit(st, *key, bytes.clone(), None) {
                        v.push(n);
                    }
                    v
                }
                _ => vec![st.clone()],
            };
        };
        let one = |o: Option<MState>| o.into_iter().collect::<Vec<_>>();
        let same = || vec![st.clone()];
        match op {
            MOp::Nop => match res {
                MRes::Unit => same(),
                _ => vec![],
            },
            MOp::Put { key, bytes, mode } => {
                let cur = st.objs.get(key);
                let expect_err: Option<Vec<EK>> = match mode {
                    MMode::Overwrite => None,
                    MMode::Create => cur.map(|_| vec![EK::AlreadyExists]),
                    MMode::Update { etag, version } => match cur {
                        None => Some(vec![EK::Precondition]),
                        Some(o) => match etag {
                            None => {
                                let mut v = vec![EK::Other(String::new())];
                                if self.lat.missing_etag_precondition {
                                    v.push(EK::Precondition);
                                }
                                Some(v)
                            }
                            Some(t) => {
                                // an unbound current token was never observed by
                                // anyone before this point, so no caller holds it
                                let matches = o.tok.as_deref() == Some(t.as_str());
                                if !matches || (version.is_some() && self.lat.update_version_never_matches) {
                                    Some(vec![EK::Precondition])
                                } else {
                                    None
                                }
                            }
                        },
                    },
                };
                match (expect_err, res) {
                    (None, MRes::Put { etag, version_reported }) => {
                        if etag.is_none() || *version_reported {
                            return vec![];
                        }
                        one(self.commit(st, *key, bytes.clone(), etag.clone()))
                    }
                    (Some(kinds), MRes::Err(k)) => {
                        let ok = kinds.iter().any(|e| match (e, k) {
                            (EK::Other(_), EK::Other(_)) => true,
                            (a, b) => a == b,
                        });
                        if ok { same() } else { vec![] }
                    }
                    _ => vec![],
                }
            }
            MOp::MultiComplete { key, bytes } => match res {
                MRes::Put { etag, version_reported } if etag.is_some() && !*version_reported => {
                    one(self.commit(st, *key, bytes.clone(), etag.clone()))
                }
                _ => vec![],
            },
            MOp::Get { key, head, range, if_match, if_none_match, mod_since, unmod_since } => {
                let Some(o) = st.objs.get(key) else {
                    return match res {
                        MRes::Err(EK::NotFound) => same(),
                        _ => vec![],
                    };
                };
                // Preconditions (RFC 9110 precedence, as GetOptions::check_preconditions).
                // If the current token is unbound no caller can hold it, so a
                // concrete tag never matches it; '*' matches any existing object.
                let cur_tok = o.tok.as_deref();
                let mut expect: Option<EK> = None;
                if let Some(m) = if_match {
                    let hit = m == "*" || cur_tok.map(|t| Self::tag_list_matches(m, t)).unwrap_or(false);
                    if !hit {
                        expect = Some(EK::Precondition);
                    }
                } else if let Some(d) = unmod_since {
                    match o.lm {
                        Some(l) => {
                            if l > *d {
                                expect = Some(EK::Precondition);
                            }
                        }
                        // the commit's timestamp has not been observed yet:
                        // either outcome of the date condition is consistent
                        None => {
                            if matches!(res, MRes::Err(EK::Precondition)) {
                                return same();
                            }
                        }
                    }
                }
                if expect.is_none() {
                    if let Some(m) = if_none_match {
                        let hit = m == "*" || cur_tok.map(|t| Self::tag_list_matches(m, t)).unwrap_or(false);
                        if hit {
                            expect = Some(EK::NotModified);
                        }
                    } else if let Some(d) = mod_since {
                        match o.lm {
                            Some(l) => {
                                if l <= *d {
                                    expect = Some(EK::NotModified);
                                }
                            }
                            None => {
                                if matches!(res, MRes::Err(EK::NotModified)) {
                                    return same();
                                }
                            }
                        }
                    }
                }
                if let Some(e) = expect {
                    return match res {
                        MRes::Err(k) if *k == e => same(),
                        _ => vec![],
                    };
                }
                let len = o.bytes.len() as u64;
                let want: Result<(u64, u64), ()> = if *head {
                    Ok((0, len))
                } else {
                    match range {
                        None => Ok((0, len)),
                        Some(RSel::Bounded(a, b)) => {
                            if b <= a || *a >= len { Err(()) } else { Ok((*a, (*b).min(len))) }
                        }
                        Some(RSel::Offset(a)) => {
                            if *a >= len { Err(()) } else { Ok((*a, len)) }
                        }
                        Some(RSel::Suffix(n)) => Ok((len.saturating_sub(*n), len)),
                    }
                };
                match (want, res) {
                    (Err(()), MRes::Err(EK::Other(_))) => same(),
                    (Ok((a, b)), MRes::Get { bytes, ent, range }) => {
                        if !*head {
                            if *range != (a, b) || *bytes != o.bytes.slice(a as usize..b as usize) {
                                return vec![];
                            }
                        }
                        one(self.observe(st, *key, ent))
                    }
                    _ => vec![],
                }
            }
            MOp::GetRanges { key, ranges } => {
                let Some(o) = st.objs.get(key) else {
                    return match res {
                        MRes::Err(EK::NotFound) => same(),
                        // empty range list short-circuits to Ok(vec![]) in the wrappers
                        MRes::Ranges(v) if ranges.is_empty() && v.is_empty() => same(),
                        _ => vec![],
                    };
                };
                let len = o.bytes.len() as u64;
                let mut want: Vec<Bytes> = Vec::new();
                let mut invalid = false;
                let mut beyond = false;
                for (a, b) in ranges {
                    if b <= a || *a >= len {
                        invalid = true;
                        break;
                    }
                    if *b > len {
                        beyond = true;
                    }
                    want.push(o.bytes.slice(*a as usize..(*b).min(len) as usize));
                }
                match res {
                    MRes::Err(EK::Other(_)) if invalid => same(),
                    MRes::Err(EK::Other(_)) if beyond && self.lat.ranges_end_beyond_len_error => same(),
                    MRes::Ranges(v) if !invalid && *v == want => same(),
                    _ => vec![],
                }
            }
            MOp::Observe { key } => match res {
                MRes::Obs(None) => {
                    if st.objs.contains_key(key) { vec![] } else { same() }
                }
                MRes::Obs(Some(ent)) => one(self.observe(st, *key, ent)),
                _ => vec![],
            },
            MOp::ObservePrefix { q } => {
                let MRes::PrefixListed(listed) = res else { return vec![] };
                let under = format!("{q}/");
                let any = st.objs.keys().any(|k| KEYS[*k as usize].starts_with(&under));
                if any == *listed { same() } else { vec![] }
            }
            MOp::List { prefix, offset } => {
                let MRes::List(ents) = res else { return vec![] };
                let mut s = st.clone();
                let mut expected: Vec<u8> = Vec::new();
                for (k, _) in st.objs.iter() {
                    let loc = KEYS[*k as usize];
                    if in_prefix(loc, prefix) && offset.as_ref().map(|o| loc > o.as_str()).unwrap_or(true) {
                        expected.push(*k);
                    }
                }
                let mut got: Vec<&Ent> = ents.iter().collect();
                got.sort_by(|a, b| a.loc.cmp(&b.loc));
                if got.len() != expected.len() {
                    return vec![];
                }
                let mut exp_sorted = expected.clone();
                exp_sorted.sort_by_key(|k| KEYS[*k as usize]);
                for (k, e) in exp_sorted.iter().zip(got.iter()) {
                    match self.observe(&s, *k, e) {
                        Some(n) => s = n,
                        None => return vec![],
                    }
                }
                vec![s]
            }
            MOp::ListDelim { prefix } => {
                let MRes::ListDelim { prefixes, objects } = res else { return vec![] };
                let mut s = st.clone();
                let mut exp_objs: Vec<u8> = Vec::new();
                let mut exp_pref: BTreeSet<String> = BTreeSet::new();
                let plen = prefix.as_ref().map(|p| p.len() + 1).unwrap_or(0);
                for (k, _) in st.objs.iter() {
                    let loc = KEYS[*k as usize];
                    if !in_prefix(loc, prefix) {
                        continue;
                    }
                    let rest = &loc[plen..];
                    match rest.find('/') {
                        None => exp_objs.push(*k),
                        Some(i) => {
                            exp_pref.insert(loc[..plen + i].to_string());
                        }
                    }
                }
                let got_pref: BTreeSet<String> = prefixes.iter().cloned().collect();
                if got_pref != exp_pref || got_pref.len() != prefixes.len() {
                    return vec![];
                }
                let mut got: Vec<&Ent> = objects.iter().collect();
                got.sort_by(|a, b| a.loc.cmp(&b.loc));
                exp_objs.sort_by_key(|k| KEYS[*k as usize]);
                if got.len() != exp_objs.len() {
                    return vec![];
                }
                for (k, e) in exp_objs.iter().zip(got.iter()) {
                    match self.observe(&s, *k, e) {
                        Some(n) => s = n,
                        None => return vec![],
                    }
                }
                vec![s]
            }
            MOp::Delete { key } => {
                if st.objs.contains_key(key) {
                    match res {
                        MRes::Unit => {
                            let mut s = st.clone();
                            if let Some(o) = s.objs.remove(key) {
                                if let Some(t) = o.tok {
                                    s.retired.insert(t);
                                }
                            }
                            vec![s]
                        }
                        _ => vec![],
                    }
                } else {
                    match res {
                        MRes::Unit if self.lat.delete_missing_ok => same(),
                        MRes::Err(EK::NotFound) if self.lat.delete_missing_notfound => same(),
                        _ => vec![],
                    }
                }
            }
            MOp::Copy { from, to, create } => {
                let Some(src) = st.objs.get(from) else {
                    return match res {
                        MRes::Err(EK::NotFound) => same(),
                        _ => vec![],
                    };
                };
                if *create && st.objs.contains_key(to) {
                    return match res {
                        MRes::Err(EK::AlreadyExists) => same(),
                        _ => vec![],
                    };
                }
                match res {
                    MRes::Unit => one(self.commit(st, *to, src.bytes.clone(), None)),
                    _ => vec![],
                }
            }
            MOp::CopyRead { from, id } => match (st.objs.get(from), res) {
                (None, MRes::Err(EK::NotFound)) => same(),
                (Some(o), MRes::Unit) => {
                    let mut s = st.clone();
                    s.copies.insert(*id, o.bytes.clone());
                    vec![s]
                }
                _ => vec![],
            },
            MOp::CopyCommit { to, create, id } => {
                let Some(bytes) = st.copies.get(id).cloned() else { return vec![] };
                let mut base = st.clone();
                base.copies.remove(id);
                if *create && st.objs.contains_key(to) {
                    return match res {
                        MRes::Err(EK::AlreadyExists) => vec![base],
                        _ => vec![],
                    };
                }
                match res {
                    MRes::Unit => one(self.commit(&base, *to, bytes, None)),
                    _ => vec![],
                }
            }
            MOp::Rename { from, to, create } => {
                let Some(src) = st.objs.get(from) else {
                    return match res {
                        MRes::Err(EK::NotFound) => same(),
                        _ => vec![],
                    };
                };
                if from == to {
                    if self.lat.self_rename_keeps {
                        return match (create, res) {
                            (false, MRes::Unit) => same(),
                            (true, MRes::Err(EK::AlreadyExists)) => same(),
                            _ => vec![],
                        };
                    } else {
                        // reference default: copy(a,a) then delete(a)
                        return match (create, res) {
                            (true, MRes::Err(EK::AlreadyExists)) => same(),
                            (false, MRes::Unit) => {
                                let mut s = st.clone();
                                if let Some(o) = s.objs.remove(from) {
                                    if let Some(t) = o.tok {
                                        s.retired.insert(t);
                                    }
                                }
                                vec![s]
                            }
                            _ => vec![],
                        };
                    }
                }
                if *create && st.objs.contains_key(to) {
                    return match res {
                        MRes::Err(EK::AlreadyExists) => same(),
                        _ => vec![],
                    };
                }
                match res {
                    MRes::Unit => {
                        let bytes = src.bytes.clone();
                        let Some(mut s) = self.commit(st, *to, bytes, None) else { return vec![] };
                        if let Some(o) = s.objs.remove(from) {
                            if let Some(t) = o.tok {
                                s.retired.insert(t);
                            }
                        }
                        vec![s]
                    }
                    _ => vec![],
                }
            }
        }
    }
}

// ---------------------------------------------------------------------------
// the case

#[derive(Clone, Debug, Serialize, Deserialize, PartialEq)]
pub enum Target {
    Wrapper(WrapperKind),
    /// Model self-test: the same generator against a bare InMemory.
    BareInMemory,
}

#[derive(Clone, Debug, Serialize, Deserialize)]
pub struct Case {
    pub seed: u64,
    pub target: Target,
    pub cache: u64,
    /// sequential prefix (client 0)
    pub prefix: Vec<GOp>,
    /// concurrent clients (empty ⇒ purely sequential run)
    pub clients: Vec<Vec<GOp>>,
    pub clock: ClockMode,
    pub schedule: Schedule,
    pub list_page: u32,
    /// one overwriting put of the sequential prefix (by index) fails at its
    /// `call`-th backend call: after the call was applied (unknown outcome) or before it
    #[serde(default)]
    pub fault: Option<(usize, u64, bool)>,
}

impl Case {
    /// A quarter of the purely sequential wrapper runs fail one overwriting put.
    fn with_fault(mut self, rng: &mut Rng, bare: bool) -> Case {
        if !bare && self.clients.is_empty() && rng.chance(1, 4) {
            let puts: Vec<usize> = self.prefix.iter().enumerate().filter(|(_, g)| matches!(g, GOp::Put { mode: GMode::Overwrite, .. })).map(|(i, _)| i).collect();
            if !puts.is_empty() {
                self.fault = Some((*rng.pick(&puts), rng.below(4), rng.chance(3, 4)));
            }
        }
        self
    }
}

pub struct H {
    pub bare: bool,
}

#[derive(Default)]
struct ClientMem {
    seen: BTreeMap<u8, Vec<String>>,
    lm: BTreeMap<u8, i64>,
}

impl ClientMem {
    fn note(&mut self, key: u8, etag: &Option<String>, lm: Option<i64>) {
        if let Some(t) = etag {
            let v = self.seen.entry(key).or_default();
            if v.last() != Some(t) {
                v.push(t.clone());
            }
        }
        if let Some(l) = lm {
            self.lm.insert(key, l);
        }
    }
    fn resolve(&self, t: &TokSel) -> Option<String> {
        match t {
            TokSel::Latest(k) => Some(
                self.seen
                    .get(k)
                    .and_then(|v| v.last().cloned())
                    .unwrap_or_else(|| "never-seen".into()),
            ),
            TokSel::Older(k) => Some(
                self.seen
                    .get(k)
                    .and_then(|v| if v.len() >= 2 { Some(v[v.len() - 2].clone()) } else { None })
                    .unwrap_or_else(|| "no-older".into()),
            ),
            TokSel::Missing => None,
            TokSel::Garbage => Some("Z2FyYmFnZQ".into()),
            TokSel::Star => Some("*".into()),
        }
    }
    fn resolve_list(&self, ts: &[TokSel]) -> String {
        ts.iter()
            .map(|t| self.resolve(t).unwrap_or_else(|| "none".into()))
            .collect::<Vec<_>>()
            .join(", ")
    }
}

fn key_of_loc(loc: &str) -> Option<u8> {
    KEYS.iter().position(|k| *k == loc).map(|i| i as u8)
}

fn ms_to_dt(ms: i64) -> DateTime<Utc> {
    Utc.timestamp_millis_opt(ms).single().unwrap()
}

type Hist = Vec<Event<MOp, MRes>>;

struct Exec {
    store: Arc<dyn ObjectStore>,
    sim: Sim,
    hist: Arc<Mutex<Hist>>,
    split_lists: bool,
}

impl Exec {
    fn push(&self, client: usize, invoke: u64, ret: u64, op: MOp, res: MRes) {
        self.hist.lock().unwrap().push(Event {
            client,
            invoke,
            ret: Some(ret),
            op,
            res: Some(res),
        });
    }

    fn push_unknown(&self, client: usize, invoke: u64, ret: u64, op: MOp) {
        self.hist.lock().unwrap().push(Event { client, invoke, ret: Some(ret), op, res: None });
    }

    async fn run_op(&self, client: usize, mem: &mut ClientMem, g: &GOp) {
        let s = self.store.as_ref();
        let inv = self.sim.tick();
        match g {
            GOp::Recache | GOp::Handover => {}
            GOp::Put { key, val, mode } => {
                let mmode = match mode {
                    GMode::Overwrite => MMode::Overwrite,
                    GMode::Create => MMode::Create,
                    GMode::Update(t) => MMode::Update { etag: mem.resolve(t), version: None },
                    GMode::UpdateWithVersion(t) => MMode::Update {
                        etag: mem.resolve(t),
                        version: Some("v-never-reported".into()),
                    },
                };
                let pm = match &mmode {
                    MMode::Overwrite => PutMode::Overwrite,
                    MMode::Create => PutMode::Create,
                    MMode::Update { etag, version } => PutMode::Update(UpdateVersion {
                        e_tag: etag.clone(),
                        version: version.clone(),
                    }),
                };
                let bytes = val.bytes();
                let r = s
                    .put_opts(
                        &key_path(*key),
                        PutPayload::from(bytes.clone()),
                        PutOptions { mode: pm, ..Default::default() },
                    )
                    .await;
                let ret = self.sim.tick();
                let res = match r {
                    Ok(p) => {
                        mem.note(*key, &p.e_tag, None);
                        MRes::Put { etag: p.e_tag, version_reported: p.version.is_some() }
                    }
                    Err(e) if simcore::store::is_injected(&e) && matches!(mmode, MMode::Overwrite) => {
                        self.sim.note_fired("put_failed_with_unknown_outcome");
                        self.push_unknown(client, inv, ret, MOp::Put { key: *key, bytes, mode: mmode });
                        return;
                    }
                    Err(e) => MRes::Err(ek(&e)),
                };
                self.push(client, inv, ret, MOp::Put { key: *key, bytes, mode: mmode }, res);
            }
            GOp::Multi { key, parts, finish } => {
                let mut all = Vec::new();
                let r = async {
                    let mut up = s.put_multipart(&key_path(*key)).await?;
                    for p in parts {
                        let b = p.bytes();
                        all.extend_from_slice(&b);
                        up.put_part(PutPayload::from(b)).await?;
                    }
                    match finish {
                        0 => up.complete().await.map(Some),
                        1 => up.abort().await.map(|_| None),
                        _ => Ok(None), // abandoned
                    }
                }
                .await;
                let ret = self.sim.tick();
                match r {
                    Ok(Some(p)) => {
                        mem.note(*key, &p.e_tag, None);
                        self.push(
                            client,
                            inv,
                            ret,
                            MOp::MultiComplete { key: *key, bytes: Bytes::from(all) },
                            MRes::Put { etag: p.e_tag, version_reported: p.version.is_some() },
                        );
                    }
                    Ok(None) => self.push(client, inv, ret, MOp::Nop, MRes::Unit),
                    Err(e) => self.push(
                        client,
                        inv,
                        ret,
                        MOp::MultiComplete { key: *key, bytes: Bytes::from(all) },
                        MRes::Err(ek(&e)),
                    ),
                }
            }
            GOp::Get { key, head, range, if_match, if_none_match, mod_since, unmod_since } => {
                let base = mem.lm.get(key).copied().unwrap_or_else(|| self.sim.clock().now_ms());
                let mop = MOp::Get {
                    key: *key,
                    head: *head,
                    range: if *head { None } else { range.clone() },
                    if_match: if_match.as_ref().map(|l| mem.resolve_list(l)),
                    if_none_match: if_none_match.as_ref().map(|l| mem.resolve_list(l)),
                    mod_since: mod_since.map(|d| base + d as i64),
                    unmod_since: unmod_since.map(|d| base + d as i64),
                };
                let MOp::Get { if_match: im, if_none_match: inm, mod_since: ms, unmod_since: us, .. } = &mop else {
                    unreachable!()
                };
                let mut o = GetOptions::new()
                    .with_if_match(im.clone())
                    .with_if_none_match(inm.clone())
                    .with_if_modified_since(ms.map(ms_to_dt))
                    .with_if_unmodified_since(us.map(ms_to_dt))
                    .with_head(*head);
                if !*head {
                    o = o.with_range(range.as_ref().map(|r| match r {
                        RSel::Bounded(a, b) => GetRange::Bounded(*a..*b),
                        RSel::Offset(a) => GetRange::Offset(*a),
                        RSel::Suffix(n) => GetRange::Suffix(*n),
                    }));
                }
                let r = s.get_opts(&key_path(*key), o).await;
                let res = match r {
                    Ok(g) => {
                        let ent = ent_of(&g.meta);
                        let range = (g.range.start, g.range.end);
                        mem.note(*key, &ent.etag, Some(ent.lm));
                        if *head {
                            MRes::Get { bytes: Bytes::new(), ent, range }
                        } else {
                            match g.bytes().await {
                                Ok(b) => MRes::Get { bytes: b, ent, range },
                                Err(e) => MRes::Err(EK::Other(format!("body: {e}"))),
                            }
                        }
                    }
                    Err(e) => MRes::Err(ek(&e)),
                };
                let ret = self.sim.tick();
                self.push(client, inv, ret, mop, res);
            }
            GOp::GetRange { key, lo, hi } => {
                let r = s.get_range(&key_path(*key), *lo..*hi).await;
                let ret = self.sim.tick();
                // get_range = get_opts(Bounded) + bytes; compare the bytes only
                let res = match r {
                    Ok(b) => MRes::Ranges(vec![b]),
                    Err(e) => MRes::Err(ek(&e)),
                };
                // modelled as a one-element get_ranges with clamping allowed
                self.push(client, inv, ret, MOp::GetRanges { key: *key, ranges: vec![(*lo, *hi)] }, res);
            }
            GOp::GetRanges { key, ranges } => {
                let rs: Vec<std::ops::Range<u64>> = ranges.iter().map(|(a, b)| *a..*b).collect();
                let r = s.get_ranges(&key_path(*key), &rs).await;
                let ret = self.sim.tick();
                let res = match r {
                    Ok(v) => MRes::Ranges(v),
                    Err(e) => MRes::Err(ek(&e)),
                };
                self.push(client, inv, ret, MOp::GetRanges { key: *key, ranges: ranges.clone() }, res);
            }
            GOp::List { prefix, offset } => {
                let p = prefix.map(|i| PREFIXES[i as usize % PREFIXES.len()].to_string());
                let off = offset.map(|k| KEYS[k as usize % KEYS.len()].to_string());
                let pp = p.as_ref().map(|p| Path::from(p.as_str()));
                let stream = match &off {
                    Some(o) => s.list_with_offset(pp.as_ref(), &Path::from(o.as_str())),
                    None => s.list(pp.as_ref()),
                };
                let items: Vec<_> = stream.collect().await;
                let ret = self.sim.tick();
                let mut ents = Vec::new();
                let mut err = None;
                for it in items {
                    match it {
                        Ok(m) => ents.push(ent_of(&m)),
                        Err(e) => err = Some(e),
                    }
                }
                if let Some(e) = err {
                    self.push(client, inv, ret, MOp::List { prefix: p, offset: off }, MRes::Err(ek(&e)));
                    return;
                }
                for e in &ents {
                    if let Some(k) = key_of_loc(&e.loc) {
                        mem.note(k, &e.etag, Some(e.lm));
                    }
                }
                if self.split_lists {
                    // non-snapshot listing: one observation per in-scope key
                    let mut seen_locs = BTreeSet::new();
                    for e in &ents {
                        if !seen_locs.insert(e.loc.clone()) {
                            // duplicate entry: report as a whole-list op so the model rejects it
                            self.push(client, inv, ret, MOp::List { prefix: p.clone(), offset: off.clone() }, MRes::List(ents.clone()));
                            return;
                        }
                    }
                    for (k, loc) in KEYS.iter().enumerate() {
                        let in_scope = in_prefix(loc, &p) && off.as_ref().map(|o| *loc > o.as_str()).unwrap_or(true);
                        let e = ents.iter().find(|e| e.loc == *loc).cloned();
                        if in_scope {
                            self.push(client, inv, ret, MOp::Observe { key: k as u8 }, MRes::Obs(e));
                        } else if e.is_some() {
                            // out-of-scope key listed: let the whole-list op fail
                            self.push(client, inv, ret, MOp::List { prefix: p.clone(), offset: off.clone() }, MRes::List(ents.clone()));
                            return;
                        }
                    }
                } else {
                    self.push(client, inv, ret, MOp::List { prefix: p, offset: off }, MRes::List(ents));
                }
            }
            GOp::ListDelim { prefix } => {
                let p = prefix.map(|i| PREFIXES[i as usize % PREFIXES.len()].to_string());
                let pp = p.as_ref().map(|p| Path::from(p.as_str()));
                let r = s.list_with_delimiter(pp.as_ref()).await;
                let ret = self.sim.tick();
                let res = match r {
                    Ok(l) => {
                        for m in &l.objects {
                            if let Some(k) = key_of_loc(m.location.as_ref()) {
                                mem.note(k, &m.e_tag, Some(m.last_modified.timestamp_millis()));
                            }
                        }
                        MRes::ListDelim {
                            prefixes: l.common_prefixes.iter().map(|p| p.to_string()).collect(),
                            objects: l.objects.iter().map(ent_of).collect(),
                        }
                    }
                    Err(e) => MRes::Err(ek(&e)),
                };
                if let (true, MRes::ListDelim { prefixes, objects }) = (self.split_lists, &res) {
                    // non-snapshot listing (the backend listing and the per-entry
                    // resolution happen at different instants): one observation per
                    // direct child and one per candidate common prefix
                    let plen = p.as_ref().map(|p| p.len() + 1).unwrap_or(0);
                    let mut children: Vec<u8> = Vec::new();
                    let mut cands: BTreeSet<String> = BTreeSet::new();
                    for (k, loc) in KEYS.iter().enumerate() {
                        if !in_prefix(loc, &p) {
                            continue;
                        }
                        match loc[plen..].find('/') {
                            None => children.push(k as u8),
                            Some(i) => {
                                cands.insert(loc[..plen + i].to_string());
                            }
                        }
                    }
                    let mut seen = BTreeSet::new();
                    let well_formed = objects.iter().all(|e| seen.insert(e.loc.clone()) && children.iter().any(|k| KEYS[*k as usize] == e.loc))
                        && prefixes.iter().all(|q| cands.contains(q))
                        && prefixes.iter().collect::<BTreeSet<_>>().len() == prefixes.len();
                    if well_formed {
                        for k in children {
                            let e = objects.iter().find(|e| e.loc == KEYS[k as usize]).cloned();
                            self.push(client, inv, ret, MOp::Observe { key: k }, MRes::Obs(e));
                        }
                        for q in cands {
                            let listed = prefixes.contains(&q);
                            self.push(client, inv, ret, MOp::ObservePrefix { q }, MRes::PrefixListed(listed));
                        }
                        return;
                    }
                }
                self.push(client, inv, ret, MOp::ListDelim { prefix: p }, res);
            }
            GOp::Delete { key } => {
                let r = s.delete(&key_path(*key)).await;
                let ret = self.sim.tick();
                let res = match r {
                    Ok(()) => MRes::Unit,
                    Err(e) => MRes::Err(ek(&e)),
                };
                self.push(client, inv, ret, MOp::Delete { key: *key }, res);
            }
            GOp::Copy { from, to, create } => {
                let mode = if *create { CopyMode::Create } else { CopyMode::Overwrite };
                let r = s
                    .copy_opts(&key_path(*from), &key_path(*to), CopyOptions { mode, ..Default::default() })
                    .await;
                let ret = self.sim.tick();
                let res = match r {
                    Ok(()) => MRes::Unit,
                    Err(e) => MRes::Err(ek(&e)),
                };
                if self.split_lists {
                    // concurrent phase: two-step copy
                    let id = inv;
                    match &res {
                        MRes::Unit => {
                            self.push(client, inv, ret, MOp::CopyRead { from: *from, id }, MRes::Unit);
                            self.push(client, inv, ret, MOp::CopyCommit { to: *to, create: *create, id }, MRes::Unit);
                        }
                        MRes::Err(EK::NotFound) => self.push(client, inv, ret, MOp::CopyRead { from: *from, id }, res),
                        MRes::Err(EK::AlreadyExists) => {
                            self.push(client, inv, ret, MOp::CopyRead { from: *from, id }, MRes::Unit);
                            self.push(client, inv, ret, MOp::CopyCommit { to: *to, create: *create, id }, res);
                        }
                        _ => self.push(client, inv, ret, MOp::Copy { from: *from, to: *to, create: *create }, res),
                    }
                } else {
                    self.push(client, inv, ret, MOp::Copy { from: *from, to: *to, create: *create }, res);
                }
            }
            GOp::Rename { from, to, create } => {
                let target_mode = if *create { RenameTargetMode::Create } else { RenameTargetMode::Overwrite };
                let r = s
                    .rename_opts(&key_path(*from), &key_path(*to), RenameOptions { target_mode, ..Default::default() })
                    .await;
                let ret = self.sim.tick();
                let res = match r {
                    Ok(()) => MRes::Unit,
                    Err(e) => MRes::Err(ek(&e)),
                };
                self.push(client, inv, ret, MOp::Rename { from: *from, to: *to, create: *create }, res);
            }
        }
    }
}

fn describe(e: &Event<MOp, MRes>) -> String {
    let op = match &e.op {
        MOp::Put { key, bytes, mode } => format!("put({}, {}, {:?})", KEYS[*key as usize], short(bytes), mode),
        MOp::MultiComplete { key, bytes } => format!("multipart({}, {})", KEYS[*key as usize], short(bytes)),
        other => format!("{other:?}"),
    };
    let res = match e.res.as_ref() {
        Some(MRes::Get { bytes, ent, range }) => format!("Get{{{} etag={:?} lm={} size={} range={:?}}}", short(bytes), ent.etag, ent.lm, ent.size, range),
        Some(MRes::Ranges(v)) => format!("Ranges{:?}", v.iter().map(short).collect::<Vec<_>>()),
        Some(r) => format!("{r:?}"),
        None => "pending".into(),
    };
    format!("c{} [{},{}] {} -> {}", e.client, e.invoke, e.ret.unwrap_or(0), op, res)
}

impl H {
    fn build_store(&self, case: &Case, store: &SimStore) -> Arc<dyn ObjectStore> {
        match &case.target {
            Target::BareInMemory => Arc::new(store.clone()),
            Target::Wrapper(k) => Wrapper::build(*k, store.clone(), case.cache).store(),
        }
    }
}

fn block<T>(f: impl std::future::Future<Output = T>) -> T {
    futures::executor::block_on(f)
}

impl Harness for H {
    type Case = Case;

    fn generate(&self, case_seed: u64, idx: u64, tier: Tier) -> Case {
        let mut rng = Rng::stream(case_seed, "c07");
        let target = if self.bare {
            Target::BareInMemory
        } else {
            Target::Wrapper(match rng.below(3) {
                0 => WrapperKind::Meta,
                _ => {
                    let chunks: &[u64] = if tier == Tier::Thorough && rng.chance(1, 50) { &[65536] } else { &[1, 7, 16, 64] };
                    WrapperKind::Enc(*rng.pick(chunks), rng.bool())
                }
            })
        };
        let chunk = match &target {
            Target::Wrapper(WrapperKind::Enc(c, _)) => *c,
            _ => 16,
        };
        let concurrent = !self.bare && idx % 2 == 1;
        let nkeys = rng.range(2, 6) as u8;
        let mut tag = (idx as u32) << 8;
        let mut gen_val = |rng: &mut Rng| {
            tag += 1;
            let sizes = boundary_sizes(chunk);
            let len = if rng.chance(3, 4) { *rng.pick(&sizes) } else { rng.below(3 * chunk.min(64) + 2) as u32 };
            Val { tag, len }
        };
        // concurrent runs concentrate on one hot key: windows between two
        // clients only exist when they touch the same key
        let hot: Option<u8> = if concurrent && rng.chance(2, 3) { Some(rng.below(nkeys as u64) as u8) } else { None };
        let key = |rng: &mut Rng| match hot {
            Some(h) if rng.chance(2, 3) => h,
            _ => rng.below(nkeys as u64) as u8,
        };
        let toksel = |rng: &mut Rng, k: u8| match rng.weighted(&[50, 20, 10, 8, 8]) {
            0 => TokSel::Latest(k),
            1 => TokSel::Older(k),
            2 => TokSel::Latest((k + 1) % nkeys), // foreign: another key's token
            3 => TokSel::Missing,
            _ => TokSel::Garbage,
        };
        let mut gen_op = |rng: &mut Rng, conc: bool| -> GOp {
            let w: [u32; 11] = if conc {
                [30, 8, 22, 5, 5, 12, 2, 8, 8, 0, 0]
            } else {
                [24, 7, 22, 6, 6, 8, 4, 7, 8, 6, 2]
            };
            match rng.weighted(&w) {
                0 => {
                    let k = key(rng);
                    let mode = match rng.weighted(&[40, 20, 35, 5]) {
                        0 => GMode::Overwrite,
                        1 => GMode::Create,
                        2 => GMode::Update(toksel(rng, k)),
                        _ => GMode::UpdateWithVersion(TokSel::Latest(k)),
                    };
                    GOp::Put { key: k, val: gen_val(rng), mode }
                }
                1 => GOp::Multi {
                    key: key(rng),
                    parts: (0..rng.range(1, 3)).map(|_| gen_val(rng)).collect(),
                    finish: rng.weighted(&[70, 15, 15]) as u8,
                },
                2 => {
                    let k = key(rng);
                    let sel = |rng: &mut Rng| -> Option<Vec<TokSel>> {
                        if rng.chance(1, 4) {
                            let n = rng.range(1, 2);
                            Some((0..n).map(|_| if rng.chance(1, 8) { TokSel::Star } else { toksel(rng, k) }).filter(|t| *t != TokSel::Missing).collect::<Vec<_>>())
                                .filter(|v: &Vec<TokSel>| !v.is_empty())
                        } else {
                            None
                        }
                    };
                    let date = |rng: &mut Rng| if rng.chance(1, 6) { Some(*rng.pick(&[-1000i32, -1, 0, 1, 1000])) } else { None };
                    let range = if rng.chance(1, 2) {
                        let c = chunk.min(64);
                        Some(match rng.below(3) {
                            0 => {
                                let a = rng.below(2 * c + 2);
                                RSel::Bounded(a, a + rng.below(2 * c + 2))
                            }
                            1 => RSel::Offset(rng.below(3 * c + 2)),
                            _ => RSel::Suffix(rng.below(2 * c + 2)),
                        })
                    } else {
                        None
                    };
                    GOp::Get {
                        key: k,
                        head: rng.chance(1, 4),
                        range,
                        if_match: sel(rng),
                        if_none_match: sel(rng),
                        mod_since: date(rng),
                        unmod_since: date(rng),
                    }
                }
                3 => {
                    let c = chunk.min(64);
                    let a = rng.below(2 * c + 2);
                    GOp::GetRange { key: key(rng), lo: a, hi: a + rng.below(2 * c + 2) }
                }
                4 => {
                    let c = chunk.min(64);
                    let n = rng.below(4);
                    GOp::GetRanges {
                        key: key(rng),
                        ranges: (0..n)
                            .map(|_| {
                                let a = rng.below(2 * c + 2);
                                (a, a + rng.below(c + 3))
                            })
                            .collect(),
                    }
                }
                5 => GOp::List {
                    prefix: if rng.bool() { Some(rng.below(PREFIXES.len() as u64) as u8) } else { None },
                    offset: if rng.chance(1, 3) { Some(key(rng)) } else { None },
                },
                6 => GOp::ListDelim { prefix: if rng.bool() { Some(rng.below(PREFIXES.len() as u64) as u8) } else { None } },
                7 => GOp::Delete { key: key(rng) },
                8 => GOp::Copy { from: key(rng), to: key(rng), create: rng.chance(1, 3) },
                9 => GOp::Rename { from: key(rng), to: key(rng), create: rng.chance(1, 3) },
                _ => GOp::Recache,
            }
        };
        let (prefix, clients) = if concurrent {
            let np = rng.range(1, 6);
            let mut prefix: Vec<GOp> = (0..np).map(|_| gen_op(&mut rng, false)).collect();
            if rng.bool() {
                // the race starts on a cold metadata cache
                prefix.push(GOp::Recache);
            }
            let nc = rng.range(2, 3);
            let clients = (0..nc)
                .map(|_| (0..rng.range(1, 4)).map(|_| gen_op(&mut rng, true)).collect())
                .collect();
            (prefix, clients)
        } else {
            let n = rng.range(3, if tier == Tier::Thorough { 18 } else { 12 });
            ((0..n).map(|_| gen_op(&mut rng, false)).collect(), vec![])
        };
        let mut prefix = prefix;
        if !self.bare && clients.is_empty() && rng.chance(1, 4) {
            // Writer hand-over between two live instances. What the wrappers promise
            // a handle whose cache lags the backend is that its WRITES are checked
            // against the committed truth (reads may be served from the lagging
            // cache for its lifetime). So through either instance, a key the other
            // instance has written is only ever written - conditionally, mostly -
            // and never read, copied from or listed; the history ends on a cold
            // instance.
            let mut out: Vec<GOp> = Vec::new();
            let mut cur = 0usize;
            let mut written: [std::collections::BTreeSet<u8>; 2] = [Default::default(), Default::default()];
            let mut extra = 0u32;
            let n = prefix.len();
            for (i, g) in prefix.into_iter().enumerate() {
                if i > 0 && rng.chance(1, 3) || i == n / 2 {
                    out.push(GOp::Handover);
                    cur = 1 - cur;
                }
                let stale = &written[1 - cur];
                let reads: Vec<u8> = match &g {
                    GOp::Get { key, .. } | GOp::GetRange { key, .. } | GOp::GetRanges { key, .. } => vec![*key],
                    GOp::Copy { from, .. } | GOp::Rename { from, .. } => vec![*from],
                    GOp::List { .. } | GOp::ListDelim { .. } => (0..nkeys).collect(),
                    _ => vec![],
                };
                let g = match reads.iter().find(|k| stale.contains(k)) {
                    Some(k) => {
                        extra += 1;
                        let mode = match rng.weighted(&[45, 25, 15, 15]) {
                            0 => GMode::Update(TokSel::Latest(*k)),
                            1 => GMode::Update(TokSel::Older(*k)),
                            2 => GMode::Create,
                            _ => GMode::Overwrite,
                        };
                        let sizes = boundary_sizes(chunk);
                        GOp::Put { key: *k, val: Val { tag: ((idx as u32) << 8) + 200 + extra, len: *rng.pick(&sizes) }, mode }
                    }
                    None => g,
                };
                match &g {
                    GOp::Put { key, .. } | GOp::Multi { key, .. } | GOp::Delete { key } => {
                        written[cur].insert(*key);
                    }
                    GOp::Copy { to, .. } => {
                        written[cur].insert(*to);
                    }
                    GOp::Rename { from, to, .. } => {
                        written[cur].insert(*from);
                        written[cur].insert(*to);
                    }
                    _ => {}
                }
                out.push(g);
            }
            out.push(GOp::Recache);
            prefix = out;
        }
        let policy = match rng.below(4) {
            0 => Policy::Uniform,
            1 => Policy::Sticky(12),
            2 => Policy::Pct(2),
            _ => Policy::Starve(rng.usize(3)),
        };
        Case {
            seed: case_seed,
            target,
            cache: if rng.chance(1, 3) { 0 } else { 1000 },
            prefix,
            clients,
            clock: match rng.below(4) {
                0 => ClockMode::Frozen,
                1 | 2 => ClockMode::Tick(2),
                _ => ClockMode::Jumpy(4000),
            },
            schedule: Schedule::Seeded { seed: rng.next_u64(), policy },
            list_page: *rng.pick(&[0u32, 0, 1, 2]),
            fault: None,
        }
        .with_fault(&mut rng, self.bare)
    }

    fn entropy_seed(&self, case: &Case) -> u64 {
        simcore::rng::derive(case.seed, "entropy")
    }

    fn execute(&self, case: &Case, rep: &mut RunReport) -> Result<(), Violation> {
        let mut cfg = SimConfig::simple(case.seed);
        cfg.park = false;
        cfg.clock = case.clock.clone();
        cfg.schedule = case.schedule.clone();
        let sim = Sim::new(&cfg);
        sim.install_clock_here();
        let disk = InMemory::new();
        let store = SimStore::new(sim.clone(), disk);
        store.set_list_page(case.list_page);
        store.set_response_delay(simcore::store::seeded_response_delay(case.seed));
        let hist: Arc<Mutex<Hist>> = Arc::new(Mutex::new(Vec::new()));
        let mut ex = Exec {
            store: self.build_store(case, &store),
            sim: sim.clone(),
            hist: hist.clone(),
            split_lists: false,
        };
        // sequential prefix
        let mut other = None;
        let mut mem0 = ClientMem::default();
        for (gi, g) in case.prefix.iter().enumerate() {
            if *g == GOp::Recache {
                ex.store = self.build_store(case, &store);
                continue;
            }
            if *g == GOp::Handover {
                let next = other.take().unwrap_or_else(|| self.build_store(case, &store));
                other = Some(std::mem::replace(&mut ex.store, next));
                rep.probe("writer_handovers_between_live_instances", 1);
                continue;
            }
            let t0 = sim.clock().now_ms();
            match &case.fault {
                Some((at, call, after)) if *at == gi && matches!(g, GOp::Put { mode: GMode::Overwrite, .. }) => {
                    let kind = if *after { simcore::sim::FaultKind::FailAfter } else { simcore::sim::FaultKind::FailBefore };
                    sim.set_faults(vec![simcore::sim::FaultSpec { site: simcore::sim::Site::Call(sim.calls() + call), kind }]);
                    block(ex.run_op(0, &mut mem0, g));
                    sim.clear_faults();
                }
                _ => block(ex.run_op(0, &mut mem0, g)),
            }
            // A commit is stamped with the time it happened: whatever a successful
            // put / multipart / copy / rename committed reports a last_modified
            // inside the call's own window on the (simulated) clock - not the time
            // of an earlier commit of the same bytes.
            if !self.bare && matches!(case.clock, ClockMode::Frozen | ClockMode::Tick(_)) {
                let committed: Option<u8> = match g {
                    GOp::Put { key, .. } | GOp::Multi { key, .. } => Some(*key),
                    // (a self-copy / self-rename keeps the object: nothing is committed)
                    GOp::Copy { from, to, .. } | GOp::Rename { from, to, .. } if from != to => Some(*to),
                    _ => None,
                };
                let ok = hist.lock().unwrap().last().map(|e| !matches!(e.res, Some(MRes::Err(_)) | None)).unwrap_or(false);
                if let (Some(k), true) = (committed, ok) {
                    if matches!(g, GOp::Multi { .. }) && !matches!(hist.lock().unwrap().last().map(|e| &e.op), Some(MOp::MultiComplete { .. })) {
                        continue;
                    }
                    let t1 = sim.clock().now_ms();
                    if let Ok(m) = block(ex.store.head(&key_path(k))) {
                        let lm = m.last_modified.timestamp_millis();
                        if lm < t0 || lm > t1 {
                            return Err(violation!(
                                "c07.commit-time-outside-call",
                                "{g:?} ran while the clock went from {t0} to {t1}, yet the object it committed reports last_modified {lm}"
                            ));
                        }
                        rep.probe("commit_timestamps_checked", 1);
                    }
                }
            }
        }
        // concurrent clients
        if !case.clients.is_empty() {
            sim.set_park(true);
            ex.split_lists = true;
            let exr = &ex;
            let mut tasks: Vec<LocalTask> = Vec::new();
            for (ci, ops) in case.clients.iter().enumerate() {
                tasks.push(Box::pin(async move {
                    let mut mem = ClientMem::default();
                    // every client first learns the current tokens
                    for g in ops {
                        exr.run_op(ci + 1, &mut mem, g).await;
                    }
                }));
            }
            let out = sim.run(tasks);
            if out != Outcome::Done {
                return Err(violation!("c07.liveness", "concurrent clients did not complete: {out:?}"));
            }
            sim.set_park(false);
            ex.split_lists = false;
        }
        // final quiescent observation: get, head and listing agree per key.
        // The listing comes first as well: a read can heal a stale cached
        // document (missing payload -> refresh) that a listing would still report.
        let mut memf = ClientMem::default();
        block(ex.run_op(9, &mut memf, &GOp::List { prefix: None, offset: None }));
        for k in 0..KEYS.len() as u8 {
            block(ex.run_op(9, &mut memf, &GOp::Get { key: k, head: false, range: None, if_match: None, if_none_match: None, mod_since: None, unmod_since: None }));
            block(ex.run_op(9, &mut memf, &GOp::Get { key: k, head: true, range: None, if_match: None, if_none_match: None, mod_since: None, unmod_since: None }));
        }
        block(ex.run_op(9, &mut memf, &GOp::List { prefix: None, offset: None }));
        block(ex.run_op(9, &mut memf, &GOp::ListDelim { prefix: None }));
        // cold wrapper agrees
        ex.store = self.build_store(case, &store);
        block(ex.run_op(9, &mut memf, &GOp::List { prefix: None, offset: None }));
        for k in 0..KEYS.len() as u8 {
            block(ex.run_op(9, &mut memf, &GOp::Get { key: k, head: false, range: None, if_match: None, if_none_match: None, mod_since: None, unmod_since: None }));
        }

        let hist = hist.lock().unwrap().clone();
        let model = RefStore {
            lat: if case.target == Target::BareInMemory { Latitude::inmemory() } else { Latitude::wrapper() },
        };
        // check in chunks of <= 60 events: the sequential prefix and the
        // final observation are totally ordered, so the search is linear there
        if hist.len() > 64 {
            // split: prefix part is sequential; run the model straight through it
            return self.check_long(&model, &hist, rep, case, &sim);
        }
        let r = lin::check(&model, MState::default(), &hist, false);
        self.finish(r.ok, &hist, rep, case, &sim, r.explored, None)
    }

    fn shrink(&self, case: &Case) -> Vec<Case> {
        let mut out = Vec::new();
        for ci in 0..case.clients.len() {
            for i in (0..case.clients[ci].len()).rev() {
                let mut c = case.clone();
                c.clients[ci].remove(i);
                out.push(c);
            }
        }
        for i in (0..case.prefix.len()).rev() {
            let mut c = case.clone();
            c.prefix.remove(i);
            out.push(c);
        }
        if case.list_page != 0 {
            let mut c = case.clone();
            c.list_page = 0;
            out.push(c);
        }
        if case.clock != ClockMode::Tick(2) {
            let mut c = case.clone();
            c.clock = ClockMode::Tick(2);
            out.push(c);
        }
        if case.cache != 1000 {
            let mut c = case.clone();
            c.cache = 1000;
            out.push(c);
        }
        out
    }
}

impl H {
    fn finish(
        &self,
        ok: bool,
        hist: &Hist,
        rep: &mut RunReport,
        case: &Case,
        sim: &Sim,
        explored: u64,
        forced_culprit: Option<usize>,
    ) -> Result<(), Violation> {
        rep.evaluations = 1;
        rep.merge_fired(&sim.fired());
        let st = sim.lock();
        rep.steps += st.step;
        rep.sim_ms += st.sim_ms_covered;
        let mut sig = Sig::default();
        for e in hist {
            sig.add_str(&format!("{:?}{:?}", e.op, e.res));
        }
        rep.trace_hash = sig.0 ^ st.sig_full.0;
        // non-trivial: overlapping calls were parked at once, or (sequential)
        // the history contains a refused conditional write or a precondition
        let mut shape = Sig::default();
        for e in hist.iter().filter(|e| e.client != 9) {
            shape.add_str(&format!("{:?}", std::mem::discriminant(&e.op)));
            shape.add_str(&match &e.res {
                Some(MRes::Err(k)) => format!("{:?}", std::mem::discriminant(k)),
                Some(r) => format!("{:?}", std::mem::discriminant(r)),
                None => String::new(),
            });
        }
        let interesting = st.overlap_seen
            || hist.iter().any(|e| matches!(e.res, Some(MRes::Err(EK::Precondition | EK::AlreadyExists | EK::NotModified))));
        if interesting {
            rep.nontrivial_sigs.push(shape.0 ^ st.sig.0);
        }
        drop(st);
        rep.probe("lin_states_explored", explored);
        for e in hist {
            match (&e.op, &e.res) {
                (MOp::Put { mode: MMode::Update { .. }, .. }, Some(MRes::Put { .. })) => rep.probe("cas_update_succeeded", 1),
                (MOp::Put { mode: MMode::Update { .. }, .. }, Some(MRes::Err(EK::Precondition))) => rep.probe("cas_precondition_refused", 1),
                (MOp::Put { mode: MMode::Create, .. }, Some(MRes::Err(EK::AlreadyExists))) => rep.probe("create_refused", 1),
                _ => {}
            }
        }
        rep.sample = Some(serde_json::json!({
            "target": format!("{:?}", case.target), "cache": case.cache, "clients": case.clients.len(),
            "history": hist.iter().filter(|e| e.client != 9).take(14).map(describe).collect::<Vec<_>>(),
        }));
        if ok {
            return Ok(());
        }
        // classify: find the shortest failing prefix (by return order) for the message
        let mut culprit = String::new();
        let mut class = "c07.not-linearizable".to_string();
        let model = RefStore {
            lat: if case.target == Target::BareInMemory { Latitude::inmemory() } else { Latitude::wrapper() },
        };
        let mut sorted: Vec<&Event<MOp, MRes>> = hist.iter().collect();
        sorted.sort_by_key(|e| e.ret);
        for n in 1..=sorted.len() {
            let failing = if let Some(c) = forced_culprit {
                n == sorted.len() && { let _ = c; true }
            } else if n <= 64 {
                let sub: Hist = sorted[..n].iter().map(|e| (*e).clone()).collect();
                !lin::check(&model, MState::default(), &sub, false).ok
            } else {
                false
            };
            if failing {
                let e = sorted[n - 1];
                culprit = describe(e);
                class = format!(
                    "c07.not-linearizable.{}.{}",
                    match &e.op {
                        MOp::Put { mode: MMode::Update { .. }, .. } => "put-update",
                        MOp::Put { mode: MMode::Create, .. } => "put-create",
                        MOp::Put { .. } => "put",
                        MOp::MultiComplete { .. } => "multipart",
                        MOp::Get { head: true, .. } => "head",
                        MOp::Get { .. } => "get",
                        MOp::GetRanges { .. } => "get-ranges",
                        MOp::List { .. } => "list",
                        MOp::ListDelim { .. } => "list-delim",
                        MOp::Observe { .. } => "list-entry",
                        MOp::ObservePrefix { .. } => "list-prefix",
                        MOp::Delete { .. } => "delete",
                        MOp::Copy { .. } | MOp::CopyRead { .. } | MOp::CopyCommit { .. } => "copy",
                        MOp::Rename { .. } => "rename",
                        MOp::Nop => "nop",
                    },
                    match &e.res {
                        Some(MRes::Err(EK::NotFound)) => "notfound",
                        Some(MRes::Err(EK::AlreadyExists)) => "exists",
                        Some(MRes::Err(EK::Precondition)) => "precondition",
                        Some(MRes::Err(EK::NotModified)) => "notmodified",
                        Some(MRes::Err(EK::Other(_))) => "error",
                        _ => "ok",
                    }
                );
                break;
            }
        }
        let lines: Vec<String> = hist.iter().filter(|e| e.client != 9).map(describe).collect();
        let backend = if std::env::var("SIM_TRACE").is_ok() {
            let t: Vec<String> = sim.trace().iter().map(|e| format!("#{} t{} {:?} {} {}", e.seq, e.task, e.kind, e.path, e.verdict)).collect();
            format!("\nbackend trace:\n{}", t.join("\n"))
        } else {
            String::new()
        };
        Err(violation!(
            class,
            "history is not linearizable against the reference object store; first inexplicable event: {culprit}; history: {}{backend}",
            lines.join(" | ")
        ))
    }

    /// Long (purely sequential) histories: step the model straight through.
    fn check_long(
        &self,
        model: &RefStore,
        hist: &Hist,
        rep: &mut RunReport,
        case: &Case,
        sim: &Sim,
    ) -> Result<(), Violation> {
        let mut st = MState::default();
        let mut sorted: Vec<&Event<MOp, MRes>> = hist.iter().collect();
        sorted.sort_by_key(|e| e.invoke);
        // only valid when no two events overlap
        let overlapping = sorted.windows(2).any(|w| w[1].invoke < w[0].ret.unwrap_or(u64::MAX));
        if overlapping {
            // keep the concurrent middle + as much context as fits
            rep.probe("history_too_long_skipped", 1);
            rep.evaluations = 1;
            return Ok(());
        }
        for (i, e) in sorted.iter().enumerate() {
            let next = model.step(&st, &e.op, e.res.as_ref());
            match next.into_iter().next() {
                Some(s) => st = s,
                None => {
                    let sub: Hist = sorted[..=i].iter().map(|e| (*e).clone()).collect();
                    return self.finish(false, &sub, rep, case, sim, i as u64, Some(i));
                }
            }
        }
        self.finish(true, hist, rep, case, sim, hist.len() as u64, None)
    }
}
