fn main() {
    // The `getrandom` crate (and std) resolve `getrandom` with dlsym(); export
    // the binary's override so they find it.
    println!("cargo:rustc-link-arg-bins=-Wl,--export-dynamic-symbol=getrandom");
    println!("cargo:rustc-link-arg-bins=-Wl,--export-dynamic-symbol=clock_gettime");
    println!("cargo:rustc-check-cfg=cfg(tokio_unstable)");
}
