//! H-server: anda_db_server's router over the simulated disk (C14).
simcore::install_libc_seams!();

mod matrix;
mod reads;
mod world;

use serde::{Deserialize, Serialize};
use simcore::batch::{CheckSpec, Harness, PhaseSpec, RunReport, Tier, Violation, parse_args, standard_main};
use std::sync::Arc;

#[derive(Clone, Debug, Serialize, Deserialize)]
pub enum Case {
    Matrix(matrix::Case),
    Reads(reads::Case),
}

pub struct H {
    kind: &'static str,
}

impl Harness for H {
    type Case = Case;
    fn generate(&self, case_seed: u64, idx: u64, tier: Tier) -> Case {
        match self.kind {
            "reads" => Case::Reads(reads::generate(case_seed, idx, tier)),
            _ => Case::Matrix(matrix::generate(case_seed, idx, tier)),
        }
    }
    fn entropy_seed(&self, case: &Case) -> u64 {
        match case {
            Case::Matrix(c) => simcore::rng::derive(c.seed, "entropy"),
            Case::Reads(c) => simcore::rng::derive(c.seed, "entropy"),
        }
    }
    fn execute(&self, case: &Case, rep: &mut RunReport) -> Result<(), Violation> {
        match case {
            Case::Matrix(c) => matrix::execute(c, rep),
            Case::Reads(c) => reads::execute(c, rep),
        }
    }
    fn shrink(&self, case: &Case) -> Vec<Case> {
        match case {
            Case::Matrix(c) => matrix::shrink(c).into_iter().map(Case::Matrix).collect(),
            Case::Reads(c) => reads::shrink(c).into_iter().map(Case::Reads).collect(),
        }
    }
}

const REAL: &[&str] = &[
    "anda_db_server: build_router (axum routes, require_auth route layer, body limit, normalize_rejections, total_timeout), execute_rpc admission (read path / tracked mutation path), dispatch tables, AppState (key plane, registry, lifecycle, shutdown), auth::authorize",
    "anda_db databases, collections and indexes underneath; optionally anda_object_store::MetaStore (the `local` deployment's wrapper)",
    "tokio current-thread runtime (task queue, timers, semaphores, JoinHandles) with its clock paused",
];
const STUB: &[&str] = &[
    "HTTP transport: requests enter through tower::ServiceExt::oneshot on the Router (no sockets, no hyper connection handling)",
    "SimStore (InMemory behind parked calls, fault plans, disk forks, mutation log)",
    "wall clock / entropy (libc seams); monotonic time = tokio's paused clock",
];

fn main() {
    let opts = parse_args();
    let code = match opts.property.as_str() {
        "C14" => standard_main(
            &opts,
            &CheckSpec {
                harness_name: "h_server",
                level: "exploration",
                rule: "matrix phase: one evaluation = one request of the (route, method, principal, encoding, addressed name) matrix issued after a generated key-plane history (the tuples the reference model denies are enumerated completely per run; per-tenant sweeps run every database-scope method), including the reduced matrices on every crash point of the last key-plane operation; reads phase: one evaluation = one request of a method the admission probe shows on the cancellable read path, in one lifecycle state (or with its future dropped at one suspension point), with the backend mutation log compared around it; distinct = distinct (history outcome, key-plane state) signatures, crash-state signatures, and lifecycle-state sequences",
                real: REAL,
                stub: STUB,
                assumptions: &[
                    "a denied request must be answered exactly as a pristine server (no tenants, same options) answers the same request addressed to a missing database; for malformed path segments exactly as the pristine server answers the identical request",
                    "after an operation that failed under an injected fault, or a crash inside it, both the old and the new binding are possible and only tokens outside that set are required to be refused",
                    "a key deliberately bound to several databases reaches all of them; tenant sweeps use keys bound to one database",
                    "no simulated time passes inside a sweep, so background auto-flush tasks cannot be mistaken for the request's writes; they run in explicit time-advance steps",
                    "timing side channels (hash work equalisation) are not observable in simulated time and are not checked",
                ],
                required_probes: &[
                    "unauthorized_tuples_checked",
                    "tenant_sweeps_confined",
                    "differential_answers_compared",
                    "revoked_key_principals",
                    "crash_points_checked",
                    "post_ack_crash_checked",
                    "history_ops_with_fault",
                    "methods_classified_by_admission_probe",
                    "reads_on_cold_collection",
                    "cancelled_reads_checked",
                    "cancelled_reads_during_cold_open",
                ],
                required_faults: &["power_loss", "process_crash_restart", "cancellation"],
            },
            vec![
                (
                    PhaseSpec { label: "matrix", quick_runs: 160, thorough_runs: 20000, quick_budget_s: 45.0, thorough_budget_s: 1200.0 },
                    Arc::new(H { kind: "matrix" }),
                ),
                (
                    PhaseSpec { label: "reads", quick_runs: 320, thorough_runs: 40000, quick_budget_s: 45.0, thorough_budget_s: 1200.0 },
                    Arc::new(H { kind: "reads" }),
                ),
            ],
        ),
        other => {
            eprintln!("h_server: unknown property {other}");
            2
        }
    };
    std::process::exit(code);
}
