//! C14 (isolation clauses): generated key-plane histories, then
//!  (1) the complete unauthorized matrix: every (route, method, principal,
//!      encoding, addressed name) tuple the reference model denies must be
//!      rejected, identically across addressed names and identically to a
//!      pristine server that has never seen a tenant (the caller learns nothing);
//!  (2) the tenant sweep: a per-database key holder runs every database-scope
//!      method (valid and hostile parameters, both encodings); every backend
//!      mutation must lie under that database's prefix, the disk outside it and
//!      the admin's view of every other database and of the server must be
//!      unchanged, and every response must equal the response of a second world
//!      in which the other databases/primary differ (non-interference);
//!  (3) crash sweep: the last key-plane operation is crashed before each of its
//!      backend mutations; after restart no token outside {old, new} binding is
//!      accepted, and after the acknowledgement only the new one.
//! Faults: one history operation may fail before/after a backend call (unknown
//! outcome) - the model then carries both bindings as possible.

use crate::world::*;
use object_store::memory::InMemory;
use serde::{Deserialize, Serialize};
use serde_json::{Value, json};
use simcore::batch::{RunReport, Tier, Violation};
use simcore::rng::{Rng, Sig};
use simcore::sim::{FaultKind, FaultSpec, Site};
use simcore::violation;
use std::collections::BTreeMap;
use std::time::Duration;

#[derive(Clone, Debug, Serialize, Deserialize, PartialEq)]
pub enum HOp {
    Create { db: u8, key: Option<u8> },
    SetKey { db: u8, key: Option<u8> },
    RemoveKey { db: u8 },
    Close { db: u8 },
    Open { db: u8 },
    Connect { db: u8 },
    Populate { db: u8, flush: bool, by_tenant: bool },
    SetReadOnly { db: u8, ro: bool },
    /// admin: 0 same, 1 toggled, 2 attempt a start without any admin key first
    Restart { graceful: bool, admin: u8 },
    AdvanceTime { secs: u32 },
    /// second world only: an operation on another database that this world does not perform
    Nop,
}

impl HOp {
    pub fn db(&self) -> Option<u8> {
        match self {
            HOp::Create { db, .. } | HOp::SetKey { db, .. } | HOp::RemoveKey { db } | HOp::Close { db } | HOp::Open { db } | HOp::Connect { db } | HOp::Populate { db, .. } | HOp::SetReadOnly { db, .. } => Some(*db),
            _ => None,
        }
    }
    fn is_key_op(&self) -> bool {
        matches!(self, HOp::Create { key: Some(_), .. } | HOp::SetKey { .. } | HOp::RemoveKey { .. })
    }
}

#[derive(Clone, Debug, Serialize, Deserialize, PartialEq)]
pub struct Fault {
    pub op: usize,
    pub call: u64,
    pub after: bool,
}

#[derive(Clone, Debug, Serialize, Deserialize)]
pub struct Case {
    pub seed: u64,
    pub knobs: Knobs,
    pub history: Vec<HOp>,
    pub fault: Option<Fault>,
    /// crash the last history operation before each of its backend mutations
    pub crash_last: bool,
    /// which second world the differential uses: 0 others absent, 1 others differ, 2 + other primary name, 3 + extra database
    pub world2: u8,
    /// skip the (expensive) complete unauthorized matrix; used by shrinking only
    pub reduced: bool,
}

pub fn generate(case_seed: u64, idx: u64, tier: Tier) -> Case {
    let mut rng = Rng::stream(case_seed, "c14.matrix");
    let mut h = Vec::new();
    // opening: a few databases with and without keys
    let na = rng.range(1, 4) as u8;
    for db in 0..na {
        let key = if rng.chance(3, 4) { Some(key_for(db, &mut rng)) } else { None };
        h.push(HOp::Create { db, key });
        if rng.chance(2, 3) {
            h.push(HOp::Populate { db, flush: rng.bool(), by_tenant: rng.bool() });
        }
    }
    let n = rng.range(0, if tier == Tier::Thorough { 14 } else { 8 });
    for _ in 0..n {
        let db = rng.below(4) as u8;
        let op = match rng.below(20) {
            0..=3 => HOp::SetKey { db, key: if rng.chance(1, 5) { None } else { Some(key_for(db, &mut rng)) } },
            4..=5 => HOp::RemoveKey { db },
            6..=7 => HOp::Close { db },
            8 => HOp::Open { db },
            9 => HOp::Connect { db },
            10..=11 => HOp::Create { db, key: if rng.bool() { Some(key_for(db, &mut rng)) } else { None } },
            12..=13 => HOp::Populate { db, flush: rng.bool(), by_tenant: rng.bool() },
            14 => HOp::SetReadOnly { db, ro: rng.bool() },
            15..=17 => HOp::Restart { graceful: rng.bool(), admin: if rng.chance(1, 4) { rng.range(1, 2) as u8 } else { 0 } },
            _ => HOp::AdvanceTime { secs: rng.range(1, 200) as u32 },
        };
        h.push(op);
    }
    let crash_last = idx % 4 == 3;
    if crash_last {
        // end on a key-plane operation over a database that very likely exists
        let db = rng.below(na as u64) as u8;
        let op = match rng.below(4) {
            0 => HOp::RemoveKey { db },
            1 => HOp::Create { db: na.min(3), key: Some(key_for(na.min(3), &mut rng)) },
            _ => HOp::SetKey { db, key: Some(key_for(db, &mut rng)) },
        };
        h.push(op);
    }
    let fault = if idx % 4 == 2 && !h.is_empty() {
        let ops: Vec<usize> = (0..h.len()).filter(|i| h[*i].db().is_some()).collect();
        Some(Fault { op: *rng.pick(&ops), call: rng.below(6), after: rng.bool() })
    } else {
        None
    };
    let knobs = Knobs {
        meta_stack: rng.chance(1, 4),
        max_body: *rng.pick(&[2048usize, 4096, 65536]),
        flush_interval_s: *rng.pick(&[5u64, 60, 600]),
        primary: "primary".into(),
        max_mutations: *rng.pick(&[1usize, 2, 32]),
    };
    Case { seed: case_seed, knobs, history: h, fault, crash_last, world2: rng.below(4) as u8, reduced: false }
}

fn key_for(db: u8, rng: &mut Rng) -> u8 {
    // mostly the database's "own" keys, sometimes a shared or foreign one
    match rng.below(8) {
        0 => 4,
        1 => rng.below(KEYS.len() as u64) as u8,
        _ => match db {
            0 => rng.below(2) as u8,
            1 => 2,
            2 => 3,
            _ => 5,
        },
    }
}

pub struct World {
    pub srv: Srv,
    pub model: Model,
    pub generated: Vec<String>,
    pub open: Vec<String>,
    pub retired_muts: usize,
    pub fired: BTreeMap<String, u64>,
    pub log: Vec<String>,
}

impl World {
    pub async fn new(seed: u64, knobs: &Knobs) -> Result<World, Violation> {
        let sim = new_sim(seed, T0_MS, false, None);
        let srv = boot(&sim, InMemory::new(), knobs, Some(ADMIN0)).await.map_err(|e| violation!("harness.boot", "first boot failed: {e}"))?;
        let model = Model { admin: Some(ADMIN0.to_string()), ..Default::default() };
        Ok(World { srv, model, generated: vec![], open: vec![], retired_muts: 0, fired: BTreeMap::new(), log: vec![] })
    }

    fn absorb_fired(&mut self) {
        for (k, v) in self.srv.sim.fired() {
            if k.starts_with("clock_") {
                continue;
            }
            *self.fired.entry(k.to_string()).or_insert(0) += v;
        }
    }

    pub async fn refresh_open(&mut self) {
        let r = self.srv.admin_rpc("/", "db.list", json!({})).await;
        if let Some(Value::Array(a)) = r.result() {
            self.open = a.iter().filter_map(|v| v.as_str().map(|s| s.to_string())).collect();
        }
    }

    /// Applies one history operation. `faulted`: an injected fault may have
    /// fired inside it, so an error response leaves the outcome unknown.
    pub async fn apply(&mut self, i: usize, op: &HOp, fault: Option<&Fault>, rep: &mut RunReport) -> Result<(), Violation> {
        self.srv.sim.install_clock_here();
        self.srv.sim.clock().set_ms(T0_MS + 1000 * (i as i64 + 1));
        let before_fired: u64 = self.srv.sim.fired().iter().filter(|(k, _)| k.starts_with("fail_")).map(|(_, v)| *v).sum();
        if let Some(f) = fault {
            let kind = if f.after { FaultKind::FailAfter } else { FaultKind::FailBefore };
            self.srv.sim.set_faults(vec![FaultSpec { site: Site::Call(self.srv.sim.calls() + f.call), kind }]);
        }
        let name = |db: u8| DBS[db as usize % DBS.len()].to_string();
        let mut resp: Option<Resp> = None;
        match op {
            HOp::Create { db, key } => {
                let n = name(*db);
                let mut p = json!({"name": n});
                if let Some(k) = key {
                    p["api_key"] = json!(KEYS[*k as usize]);
                }
                resp = Some(self.srv.admin_rpc("/", "db.create", p).await);
            }
            HOp::SetKey { db, key } => {
                let n = name(*db);
                let mut p = json!({"name": n});
                if let Some(k) = key {
                    p["api_key"] = json!(KEYS[*k as usize]);
                }
                resp = Some(self.srv.admin_rpc("/", "db.set_api_key", p).await);
            }
            HOp::RemoveKey { db } => resp = Some(self.srv.admin_rpc("/", "db.remove_api_key", json!({"name": name(*db)})).await),
            HOp::Close { db } => resp = Some(self.srv.admin_rpc("/", "db.close", json!({"name": name(*db)})).await),
            HOp::Open { db } => resp = Some(self.srv.admin_rpc("/", "db.open", json!({"name": name(*db)})).await),
            HOp::Connect { db } => resp = Some(self.srv.admin_rpc("/", "db.connect", json!({"name": name(*db)})).await),
            HOp::SetReadOnly { db, ro } => resp = Some(self.srv.admin_rpc(&format!("/{}", name(*db)), "db.set_read_only", json!({"read_only": ro})).await),
            HOp::Populate { db, flush, by_tenant } => {
                let n = name(*db);
                let path = format!("/{n}");
                let tok = match (self.model.certain_key(&n), by_tenant) {
                    (Some(k), true) => k,
                    _ => self.model.admin.clone().unwrap_or_default(),
                };
                let r = self.srv.send(&Rq::rpc(&path, Some(&tok), Enc::Cbor, "collection.create", create_params("articles"))).await;
                if r.status == 200 {
                    for j in 0..3u64 {
                        let doc = json!({"title": format!("secret {n} title {j}"), "body": format!("secret body of {n} number {j}"), "score": 10 * j + *db as u64});
                        let _ = self.srv.send(&Rq::rpc(&path, Some(&tok), Enc::Json, "doc.add", json!({"collection": "articles", "doc": doc}))).await;
                    }
                    let _ = self.srv.send(&Rq::rpc(&path, Some(&tok), Enc::Json, "db.save_extension", json!({"key": "k1", "value": format!("ext of {n}")}))).await;
                    if *flush {
                        let _ = self.srv.send(&Rq::rpc(&path, Some(&tok), Enc::Json, "db.flush", json!({}))).await;
                    }
                }
                resp = Some(r);
            }
            HOp::AdvanceTime { secs } => {
                tokio::time::sleep(Duration::from_secs(*secs as u64)).await;
                quiesce().await;
            }
            HOp::Restart { graceful, admin } => {
                self.srv.sim.clear_faults();
                self.restart(*graceful, *admin, rep).await?;
            }
            HOp::Nop => {}
        }
        self.srv.sim.clear_faults();
        quiesce().await;
        let after_fired: u64 = self.srv.sim.fired().iter().filter(|(k, _)| k.starts_with("fail_")).map(|(_, v)| *v).sum();
        let faulted = after_fired > before_fired;
        if faulted {
            rep.probe("history_ops_with_fault", 1);
        }
        // model transition
        if let Some(r) = &resp {
            let ok = r.status == 200;
            self.log.push(format!("#{i} {op:?} -> {}{}", r.brief(), if faulted { " [fault fired]" } else { "" }));
            match op {
                HOp::Create { db, key } => {
                    if let Some(k) = key {
                        if ok {
                            self.model.set_binding(&name(*db), Some(KEYS[*k as usize].to_string()), true);
                        } else if faulted {
                            self.model.set_binding(&name(*db), Some(KEYS[*k as usize].to_string()), false);
                        }
                    }
                }
                HOp::SetKey { db, key } => {
                    let newkey = match key {
                        Some(k) => Some(KEYS[*k as usize].to_string()),
                        None => r.result().and_then(|v| v.get("api_key").and_then(|k| k.as_str().map(|s| s.to_string()))),
                    };
                    if ok {
                        if let Some(nk) = newkey {
                            if key.is_none() {
                                self.generated.push(nk.clone());
                                rep.probe("generated_keys", 1);
                            }
                            self.model.set_binding(&name(*db), Some(nk), true);
                        } else {
                            return Err(violation!("harness.setkey", "db.set_api_key succeeded without a key to track: {}", r.brief()));
                        }
                    } else if faulted {
                        if let Some(nk) = newkey {
                            self.model.set_binding(&name(*db), Some(nk), false);
                        } else {
                            // a generated key nobody ever saw: the binding is unknowable; keep old + "something else"
                            self.model.set_binding(&name(*db), Some("<unseen generated key>".into()), false);
                        }
                    }
                }
                HOp::RemoveKey { db } => {
                    if ok {
                        self.model.set_binding(&name(*db), None, true);
                    } else if faulted {
                        self.model.set_binding(&name(*db), None, false);
                    }
                }
                _ => {}
            }
        } else {
            self.log.push(format!("#{i} {op:?}"));
        }
        self.refresh_open().await;
        Ok(())
    }

    async fn restart(&mut self, graceful: bool, admin: u8, rep: &mut RunReport) -> Result<(), Violation> {
        let disk = if graceful {
            self.srv.state.shutdown().await;
            rep.probe("graceful_restarts", 1);
            self.srv.store.disk().fork()
        } else {
            rep.fire("process_crash_restart", 1);
            self.srv.store.disk().fork()
        };
        self.retired_muts += self.srv.muts();
        self.absorb_fired();
        let now = self.srv.sim.clock().now_ms();
        let cur = self.model.admin.clone().unwrap_or_else(|| ADMIN0.to_string());
        let next_admin = match admin {
            1 => {
                if cur == ADMIN0 {
                    ADMIN1.to_string()
                } else {
                    ADMIN0.to_string()
                }
            }
            _ => cur.clone(),
        };
        let knobs = self.srv.knobs.clone();
        if admin == 2 {
            // a start without any admin key while bindings exist would turn every
            // tenant key into no key at all
            let sim = new_sim(simcore::rng::derive(now as u64, "noadmin"), now, false, None);
            match boot(&sim, disk.fork(), &knobs, None).await {
                Ok(open_srv) => {
                    let bound: Vec<String> = self.model.bound.iter().filter(|(_, v)| v.len() == 1 && v[0].is_some()).map(|(k, _)| k.clone()).collect();
                    rep.probe("keyless_start_accepted", 1);
                    for n in bound {
                        let r = open_srv.send(&Rq::rpc(&format!("/{n}"), None, Enc::Json, "db.metadata", json!({}))).await;
                        if r.status == 200 {
                            return Err(violation!("c14.keyless-start-exposes-bound-db", "the server started without an admin key although {n} is bound to a key, and an unauthenticated caller read it: {}", r.brief()));
                        }
                    }
                    open_srv.state.shutdown().await;
                }
                Err(_) => rep.probe("keyless_start_refused", 1),
            }
        }
        let sim = new_sim(simcore::rng::derive(now as u64, "restart"), now, false, None);
        let srv = boot(&sim, disk, &knobs, Some(&next_admin)).await.map_err(|e| violation!("harness.reboot", "restart failed: {e}\nlog:\n{}", self.log.join("\n")))?;
        self.srv = srv;
        self.model.admin = Some(next_admin);
        Ok(())
    }
}

pub fn principals(w: &World) -> Vec<Option<String>> {
    let mut v: Vec<Option<String>> = vec![
        None,
        Some("Bearer garbage-zzz".into()),
        Some("Basic Zm9vOmJhcg==".into()),
        Some("Bearer ".into()),
        Some("Bearer".into()),
        Some(format!("Bearer {TIMING_DUMMY}")),
        Some(format!("Bearer {ADMIN0}")),
        Some(format!("Bearer {ADMIN1}")),
    ];
    for k in KEYS {
        v.push(Some(format!("Bearer {k}")));
    }
    for g in &w.generated {
        v.push(Some(format!("Bearer {g}")));
    }
    // pass-the-hash: the persisted digests of the certain bindings
    let mut hashes: Vec<String> = w.model.bound.values().filter(|b| b.len() == 1).filter_map(|b| b[0].clone()).map(|k| sha3_hex(&k)).collect();
    hashes.sort();
    hashes.dedup();
    for h in hashes.into_iter().take(3) {
        v.push(Some(format!("Bearer {h}")));
    }
    v
}

/// (path segment, well-formed database name?)
pub fn names(primary: &str) -> Vec<(String, bool)> {
    let mut v: Vec<(String, bool)> = DBS.iter().map(|d| (d.to_string(), true)).collect();
    v.push((primary.to_string(), true));
    v.push(("missing_db".into(), true));
    v.push(("tenant_a2".into(), true));
    v.push(("tenant".into(), true));
    v.push(("tenant%5Fa".into(), true)); // alias of tenant_a after percent-decoding
    for m in ["Bad-Name", "TENANT_A", "..", "%2e%2e", "tenant_a%20", "tenant_a%00", "%ff"] {
        v.push((m.to_string(), false));
    }
    v.push(("a".repeat(300), false));
    v
}

fn describe(rq: &Rq) -> String {
    let m = match &rq.body {
        BodyKind::Rpc { method, .. } => format!("method {method:?}"),
        b => format!("{b:?}"),
    };
    format!("{:?} {} auth={:?} enc={:?} {m}", rq.verb, if rq.path.len() > 40 { &rq.path[..40] } else { &rq.path }, rq.auth, rq.enc)
}

/// The complete unauthorized matrix at the current state.
pub async fn unauthorized_sweep(w: &World, pristine: &Srv, rng: &mut Rng, reduced: bool, rep: &mut RunReport, sig: &mut Sig) -> Result<u64, Violation> {
    let methods: Vec<&str> = if reduced { vec!["info", "db.metadata", "doc.count", "db.save_extension", "db.set_api_key"] } else { all_methods() };
    let names = names(&w.srv.knobs.primary);
    let prins = principals(w);
    let m0 = w.srv.muts();
    let p0 = pristine.muts();
    let mut evals = 0u64;
    let ctx = |rq: &Rq| format!("{}\nhistory:\n{}", describe(rq), w.log.join("\n"));
    for auth in &prins {
        let token = token_of(auth);
        // ---- POST / (root scope)
        let root_denied = w.model.expect(None, token) == Expect::Denied;
        // ---- which names are denied for this principal
        let mut denied: Vec<&(String, bool)> = Vec::new();
        for nm in &names {
            let dec = percent_decode(&nm.0);
            let e = match &dec {
                Some(d) => w.model.expect(Some(d), token),
                None => Expect::Denied,
            };
            match e {
                Expect::Denied => denied.push(nm),
                Expect::Tenant => rep.probe("tuples_model_allows_tenant", 1),
                Expect::Maybe => rep.probe("tuples_outcome_unknown_binding", 1),
                Expect::Admin => rep.probe("tuples_model_allows_admin", 1),
            }
        }
        if w.model.revoked.iter().any(|(_, k)| Some(k.as_str()) == token) {
            rep.probe("revoked_key_principals", 1);
        }
        for method in &methods {
            for enc in ENCS_ALL {
                let main = ENCS_MAIN.contains(&enc);
                if !main && !rng.chance(1, 6) {
                    continue;
                }
                let mut bodies = vec![0u8];
                if rng.chance(1, 5) {
                    bodies.push(rng.range(1, 3) as u8);
                }
                for bk in bodies {
                    let variant = if rng.chance(1, 4) { rng.range(1, 3) as u8 } else { 0 };
                    let body = match bk {
                        0 => BodyKind::Rpc { method: method.to_string(), params: params_for(method, "tenant_b", variant) },
                        1 => BodyKind::Empty,
                        2 => BodyKind::Garbage,
                        _ => BodyKind::Oversized,
                    };
                    // the reference answer: the same request to a name that does not exist, on a server with no tenants
                    let reference_rq = Rq { verb: Verb::Post, path: "/missing_db".into(), auth: auth.clone(), enc, body: body.clone() };
                    let reference = pristine.send(&reference_rq).await;
                    if root_denied {
                        let rq = Rq { verb: Verb::Post, path: "/".into(), auth: auth.clone(), enc, body: body.clone() };
                        let r = w.srv.send(&rq).await;
                        r.sig(sig);
                        evals += 1;
                        if (200..300).contains(&r.status) {
                            return Err(violation!("c14.root-reached", "a non-admin principal got {} from the root scope\n{}", r.brief(), ctx(&rq)));
                        }
                        let pr = pristine.send(&rq).await;
                        if r != pr {
                            return Err(violation!("c14.rejection-depends-on-state.root", "root-scope rejection differs from a pristine server's: {} vs {}\n{}", r.brief(), pr.brief(), ctx(&rq)));
                        }
                    }
                    for (seg, well_formed) in denied.iter().map(|x| (&x.0, x.1)) {
                        let rq = Rq { verb: Verb::Post, path: format!("/{seg}"), auth: auth.clone(), enc, body: body.clone() };
                        let r = w.srv.send(&rq).await;
                        r.sig(sig);
                        evals += 1;
                        if (200..300).contains(&r.status) {
                            return Err(violation!("c14.unauthorized-served", "a principal the model denies for /{seg} was served: {}\n{}", r.brief(), ctx(&rq)));
                        }
                        if well_formed {
                            if r != reference {
                                return Err(violation!(
                                    "c14.rejection-not-uniform",
                                    "rejection for /{seg} differs from the rejection for a missing database on a pristine server: {} vs {}\n{}",
                                    r.brief(),
                                    reference.brief(),
                                    ctx(&rq)
                                ));
                            }
                        } else {
                            // malformed names: whatever the answer, it must not depend on the server's state
                            let pr = pristine.send(&rq).await;
                            if r != pr {
                                return Err(violation!("c14.rejection-depends-on-state", "rejection for malformed /{seg} differs from a pristine server's: {} vs {}\n{}", r.brief(), pr.brief(), ctx(&rq)));
                            }
                        }
                    }
                }
            }
        }
        // other verbs: a pure function of the request
        if w.model.expect(None, token) != Expect::Admin {
            for verb in [Verb::Get, Verb::Put, Verb::Delete] {
                for seg in ["", "tenant_a", "tenant_b", "missing_db"] {
                    let rq = Rq { verb, path: format!("/{seg}"), auth: auth.clone(), enc: Enc::Json, body: BodyKind::Rpc { method: "db.metadata".into(), params: json!({}) } };
                    let r = w.srv.send(&rq).await;
                    let pr = pristine.send(&rq).await;
                    r.sig(sig);
                    evals += 1;
                    if r != pr {
                        return Err(violation!("c14.rejection-depends-on-state.verb", "{verb:?} /{seg} differs from a pristine server's: {} vs {}\n{}", r.brief(), pr.brief(), ctx(&rq)));
                    }
                }
            }
        }
    }
    drain().await;
    if w.srv.muts() != m0 || pristine.muts() != p0 {
        let l = w.srv.sim.mut_log_since(m0);
        return Err(violation!("c14.unauthorized-wrote", "rejected requests wrote to storage: {:?}\nhistory:\n{}", l.iter().map(|m| m.path.clone()).collect::<Vec<_>>(), w.log.join("\n")));
    }
    rep.probe("unauthorized_tuples_checked", evals);
    Ok(evals)
}

/// What the admin sees of everything except `focus`.
async fn admin_observation(w: &World, focus: &str) -> Vec<(String, String)> {
    let mut out = Vec::new();
    let r = w.srv.admin_rpc("/", "info", json!({})).await;
    out.push(("root info".into(), r.brief()));
    let r = w.srv.admin_rpc("/", "db.list", json!({})).await;
    out.push(("root db.list".into(), r.brief()));
    let mut dbs: Vec<String> = w.open.clone();
    dbs.sort();
    for d in dbs {
        if d == focus {
            continue;
        }
        let p = format!("/{d}");
        for (m, params) in [
            ("db.metadata", json!({})),
            ("collection.list", json!({})),
            ("db.get_extension", json!({"key": "k1"})),
            ("doc.count", json!({"collection": "articles"})),
            ("doc.get_many", json!({"collection": "articles", "_ids": [1, 2, 3, 4, 5]})),
            ("collection.metadata", json!({"collection": "articles"})),
        ] {
            let r = w.srv.admin_rpc(&p, m, params).await;
            let v = r.value().map(|v| strip_volatile(v).to_string()).unwrap_or_default();
            out.push((format!("{d} {m}"), format!("{} {v}", r.status)));
        }
    }
    // the key plane as tokens see it
    for d in DBS {
        for k in KEYS {
            let r = w.srv.send(&Rq::rpc(&format!("/{d}"), Some(k), Enc::Json, "info", json!({}))).await;
            out.push((format!("{d} with {k}"), r.status.to_string()));
        }
    }
    out
}

fn strip_volatile(mut v: Value) -> Value {
    fn walk(v: &mut Value) {
        match v {
            Value::Object(o) => {
                // statistics that reads legitimately bump
                for k in ["stats", "search_count", "get_count", "last_accessed", "query_count"] {
                    o.remove(k);
                }
                for (_, x) in o.iter_mut() {
                    walk(x);
                }
            }
            Value::Array(a) => a.iter_mut().for_each(walk),
            _ => {}
        }
    }
    walk(&mut v);
    v
}

fn sweep_order() -> Vec<&'static str> {
    let tail = ["collection.set_read_only", "db.set_read_only", "collection.delete"];
    let mut v: Vec<&'static str> = DB_METHODS.iter().copied().filter(|m| !tail.contains(m)).collect();
    v.extend(tail);
    // reads again, now against read-only / deleted state
    v.extend(["doc.get", "doc.count", "collection.list", "db.metadata", "info"]);
    v
}

/// Every database-scope method as the holder of `focus`'s key.
pub async fn tenant_sweep(w: &World, focus: &str, key: &str, variants: &[u8], check_confinement: bool, rep: &mut RunReport, sig: &mut Sig) -> Result<Vec<(String, Option<Value>, Resp)>, Violation> {
    let path = format!("/{focus}");
    w.srv.sim.install_clock_here();
    w.srv.sim.clock().set_ms(T0_MS + 3_600_000);
    let before_obs = if check_confinement { admin_observation(w, focus).await } else { vec![] };
    drain().await;
    let before_disk = w.srv.disk_dump_excluding(focus);
    let mut out = Vec::new();
    let pre = format!("{focus}/");
    let mut vi = 0usize;
    for method in sweep_order() {
        for enc in ENCS_MAIN {
            let variant = variants[vi % variants.len()];
            vi += 1;
            for var in [0u8, variant] {
                let rq = Rq::rpc(&path, Some(key), enc, method, params_for(method, "tenant_b", var));
                let mark = w.srv.muts();
                let r = w.srv.send(&rq).await;
                drain().await;
                r.sig(sig);
                if r.status != 401 {
                    rep.probe("tenant_requests_served", 1);
                }
                if check_confinement {
                    for m in w.srv.sim.mut_log_since(mark) {
                        let lp = w.srv.logical(&m.path);
                        if !lp.starts_with(&pre) {
                            return Err(violation!(
                                "c14.tenant-wrote-outside",
                                "holder of {focus}'s key: {method} ({enc:?}, params variant {var}) wrote {:?} {} outside {pre}\nhistory:\n{}",
                                m.kind,
                                m.path,
                                w.log.join("\n")
                            ));
                        }
                    }
                }
                out.push((format!("{method} {enc:?} v{var}"), r.value(), r));
                if var == variant {
                    break;
                }
            }
        }
    }
    // root scope with the tenant key: must be refused
    for method in ROOT_METHODS {
        let rq = Rq::rpc("/", Some(key), Enc::Json, method, params_for(method, focus, 0));
        let r = w.srv.send(&rq).await;
        r.sig(sig);
        if (200..300).contains(&r.status) && w.model.admin.as_deref() != Some(key) {
            return Err(violation!("c14.root-reached", "holder of {focus}'s key got {} from root method {method}\nhistory:\n{}", r.brief(), w.log.join("\n")));
        }
        out.push((format!("root {method}"), r.value(), r));
    }
    if check_confinement {
        drain().await;
        let after_disk = w.srv.disk_dump_excluding(focus);
        if before_disk != after_disk {
            let changed: Vec<String> = after_disk.iter().filter(|x| !before_disk.contains(x)).map(|x| x.0.clone()).chain(before_disk.iter().filter(|x| !after_disk.iter().any(|y| y.0 == x.0)).map(|x| format!("-{}", x.0))).collect();
            return Err(violation!("c14.tenant-changed-disk-outside", "objects outside {pre} changed during the sweep by {focus}'s key holder: {changed:?}\nhistory:\n{}", w.log.join("\n")));
        }
        let after_obs = admin_observation(w, focus).await;
        if before_obs != after_obs {
            let d: Vec<String> = before_obs.iter().zip(after_obs.iter()).filter(|(a, b)| a != b).map(|(a, b)| format!("{}: {} => {}", a.0, a.1, b.1)).collect();
            return Err(violation!("c14.tenant-changed-other-state", "the admin's view of other databases / the server changed during the sweep by {focus}'s key holder: {d:?}\nhistory:\n{}", w.log.join("\n")));
        }
        rep.probe("tenant_sweeps_confined", 1);
    }
    Ok(out)
}

/// History of the second world: everything about `focus` and the process
/// lifecycle is kept; everything else is dropped or changed.
fn second_history(h: &[HOp], focus: u8, variant: u8) -> Vec<(usize, HOp)> {
    let mut out = Vec::new();
    for (i, op) in h.iter().enumerate() {
        let op2 = match op.db() {
            Some(d) if d == focus => op.clone(),
            Some(_) => {
                // others are absent (variant 0) or exist but differ: different key, different population
                match op {
                    HOp::Create { db, .. } if variant >= 1 => HOp::Create { db: *db, key: Some(4) },
                    HOp::Populate { db, .. } if variant >= 2 => HOp::Populate { db: *db, flush: true, by_tenant: false },
                    _ => HOp::Nop,
                }
            }
            None => op.clone(),
        };
        out.push((i, op2));
    }
    out
}

pub fn execute(case: &Case, rep: &mut RunReport) -> Result<(), Violation> {
    let rt = runtime(case.seed);
    let r = rt.block_on(run(case, rep));
    drop(rt);
    r
}

async fn run(case: &Case, rep: &mut RunReport) -> Result<(), Violation> {
    let mut rng = Rng::stream(case.seed, "c14.matrix.exec");
    let mut sig = Sig::default();
    let mut w = World::new(case.seed, &case.knobs).await?;
    let n = case.history.len();
    let crash_op = if case.crash_last && n > 0 && case.history[n - 1].is_key_op() { Some(n - 1) } else { None };
    let mut pre_crash_model: Option<Model> = None;
    let mut forks = Vec::new();
    for (i, op) in case.history.iter().enumerate() {
        let f = case.fault.as_ref().filter(|f| f.op == i);
        if Some(i) == crash_op {
            pre_crash_model = Some(w.model.clone());
            w.srv.store.set_record_forks(true);
            w.apply(i, op, None, rep).await?;
            w.srv.store.set_record_forks(false);
            forks = w.srv.store.take_forks();
        } else {
            w.apply(i, op, f, rep).await?;
        }
    }
    rep.probe("history_ops", n as u64);
    let pristine_sim = new_sim(simcore::rng::derive(case.seed, "pristine"), T0_MS, false, None);
    let pristine = boot(&pristine_sim, InMemory::new(), &case.knobs, w.model.admin.as_deref()).await.map_err(|e| violation!("harness.boot", "pristine boot failed: {e}"))?;
    let mut evals = 0u64;

    // (3) crash sweep of the last key-plane operation
    if let (Some(before), true) = (&pre_crash_model, !forks.is_empty()) {
        let after = w.model.clone();
        let nf = forks.len();
        for (fi, f) in forks.iter().enumerate() {
            // possible bindings at this crash point: union of before and after
            let mut m = after.clone();
            for (k, v) in &before.bound {
                for b in v {
                    m.set_binding(k, b.clone(), false);
                }
            }
            for k in after.bound.keys() {
                if !before.bound.contains_key(k) {
                    m.set_binding(k, None, false);
                }
            }
            let sim = new_sim(simcore::rng::derive2(case.seed, "fork", fi as u64), f.clock_ms, false, None);
            let Ok(srv) = boot(&sim, f.disk.fork(), &case.knobs, after.admin.as_deref()).await else {
                rep.probe("crash_fork_boot_failed", 1);
                continue;
            };
            rep.fire("power_loss", 1);
            let fw = World { srv, model: m, generated: w.generated.clone(), open: vec![], retired_muts: 0, fired: BTreeMap::new(), log: { let mut l = w.log.clone(); l.push(format!("<crash before mutation {}/{nf} of the last operation: {:?} {}>", fi, f.next_kind, f.next_path)); l } };
            evals += unauthorized_sweep(&fw, &pristine, &mut rng, true, rep, &mut sig).await?;
            rep.probe("crash_points_checked", 1);
            let mut s = Sig::default();
            s.add(SimStoreSig::of(&fw.srv));
            rep.nontrivial_sigs.push(s.0);
            fw.srv.state.shutdown().await;
        }
        // after the acknowledgement: exactly the new state, also across a crash
        let sim = new_sim(simcore::rng::derive(case.seed, "postack"), w.srv.sim.clock().now_ms(), false, None);
        if let Ok(srv) = boot(&sim, w.srv.store.disk().fork(), &case.knobs, after.admin.as_deref()).await {
            rep.fire("process_crash_restart", 1);
            let fw = World { srv, model: after.clone(), generated: w.generated.clone(), open: vec![], retired_muts: 0, fired: BTreeMap::new(), log: { let mut l = w.log.clone(); l.push("<crash after the last operation returned>".into()); l } };
            evals += unauthorized_sweep(&fw, &pristine, &mut rng, true, rep, &mut sig).await?;
            rep.probe("post_ack_crash_checked", 1);
        }
    }

    // (1) complete unauthorized matrix
    evals += unauthorized_sweep(&w, &pristine, &mut rng, case.reduced, rep, &mut sig).await?;

    // (2) tenant sweeps + differential
    let tenants: Vec<(u8, String, String)> = (0..DBS.len() as u8)
        .filter_map(|d| {
            let n = DBS[d as usize].to_string();
            let k = w.model.certain_key(&n)?;
            if w.model.admin.as_deref() == Some(k.as_str()) || !w.open.contains(&n) {
                return None;
            }
            // a key bound to several databases legitimately reaches all of them
            let shared = w.model.bound.iter().filter(|(nn, b)| **nn != n && b.iter().any(|x| x.as_deref() == Some(k.as_str()))).count() > 0;
            if shared { None } else { Some((d, n, k)) }
        })
        .collect();
    if let Some((fd, focus, key)) = tenants.first().cloned() {
        let variants: Vec<u8> = (0..7).map(|_| rng.below(4) as u8).collect();
        let differential = case.fault.is_none();
        let first = tenant_sweep(&w, &focus, &key, &variants, true, rep, &mut sig).await?;
        evals += first.len() as u64;
        // The second world runs after the first one has shut down: the two share
        // the runtime's (paused) monotonic clock, and a world whose auto-flush
        // timers fire while the other's history advances time would differ in
        // its own statistics for reasons that have nothing to do with isolation.
        w.absorb_fired();
        w.srv.state.shutdown().await;
        let mut second: Option<Vec<(String, Option<Value>, Resp)>> = None;
        if differential {
            let mut k2 = case.knobs.clone();
            if case.world2 >= 2 {
                k2.primary = "prim2".into();
            }
            let mut w2 = World::new(simcore::rng::derive(case.seed, "world2"), &k2).await?;
            if case.world2 >= 3 {
                let _ = w2.srv.admin_rpc("/", "db.create", json!({"name": "tenant_e", "api_key": "ke-1"})).await;
            }
            let mut rep2 = RunReport::default();
            for (i, op) in second_history(&case.history, fd, case.world2) {
                w2.apply(i, &op, None, &mut rep2).await?;
            }
            if w2.model.certain_key(&focus).as_deref() == Some(key.as_str()) && w2.open.contains(&focus) {
                second = Some(tenant_sweep(&w2, &focus, &key, &variants, false, &mut rep2, &mut Sig::default()).await?);
            } else {
                rep.probe("second_world_diverged_skipped", 1);
            }
            w2.srv.state.shutdown().await;
        }
        if let Some(second) = second {
            for (a, b) in first.iter().zip(second.iter()) {
                let same = match (&a.1, &b.1) {
                    (Some(x), Some(y)) => x == y && a.2.status == b.2.status,
                    _ => a.2 == b.2,
                };
                if !same {
                    return Err(violation!(
                        "c14.tenant-observes-others",
                        "holder of {focus}'s key: the answer to [{}] depends on state outside {focus} (world2 variant {}): {} vs {}\nhistory:\n{}",
                        a.0,
                        case.world2,
                        a.2.brief(),
                        b.2.brief(),
                        w.log.join("\n")
                    ));
                }
            }
            rep.probe("differential_answers_compared", first.len() as u64);
        }
    } else {
        rep.probe("runs_without_certain_tenant", 1);
        w.absorb_fired();
        w.srv.state.shutdown().await;
    }
    for (k, v) in &w.fired {
        rep.fire(k, *v);
    }
    rep.evaluations = evals.max(1);
    // distinct = distinct (history outcome, key-plane state) pairs
    let mut s = Sig::default();
    for l in &w.log {
        s.add_str(l);
    }
    rep.nontrivial_sigs.push(s.0);
    rep.steps = (w.retired_muts + w.srv.muts()) as u64;
    rep.sim_ms = w.srv.sim.clock().now_ms() - T0_MS;
    sig.add(s.0);
    rep.trace_hash = sig.0;
    if rep.sample.is_none() {
        rep.sample = Some(json!({"mode": "matrix", "history": w.log, "fault": case.fault, "crash_last": case.crash_last, "knobs": case.knobs, "unauthorized_and_tenant_requests": evals}));
    }
    pristine.state.shutdown().await;
    Ok(())
}

struct SimStoreSig;
impl SimStoreSig {
    fn of(srv: &Srv) -> u64 {
        simcore::store::SimStore::disk_signature(srv.store.disk())
    }
}

pub fn shrink(c: &Case) -> Vec<Case> {
    let mut out = Vec::new();
    if !c.reduced {
        let mut d = c.clone();
        d.reduced = true;
        out.push(d);
    }
    if c.fault.is_some() {
        let mut d = c.clone();
        d.fault = None;
        out.push(d);
    }
    if c.crash_last {
        let mut d = c.clone();
        d.crash_last = false;
        out.push(d);
    }
    let last = if c.crash_last { c.history.len().saturating_sub(1) } else { c.history.len() };
    for i in (0..last).rev() {
        let mut d = c.clone();
        d.history.remove(i);
        if let Some(f) = &mut d.fault {
            if f.op == i {
                d.fault = None;
            } else if f.op > i {
                f.op -= 1;
            }
        }
        out.push(d);
    }
    if c.knobs.meta_stack {
        let mut d = c.clone();
        d.knobs.meta_stack = false;
        out.push(d);
    }
    out
}
