//! C14 (read clause): every method the service treats as cancellable read-only
//! performs no write to storage - in every lifecycle state, for every
//! encoding/principal, and also when its request future is dropped at any
//! suspension point.
//!
//! "Treats as cancellable read-only" is decided from the outside, not from
//! the private dispatch table: with a single mutation slot held by a request
//! parked at a backend write, a second request either gets past admission
//! (finishes, or parks a backend call of its own) - the cancellable read path -
//! or waits for the slot - the tracked mutation path.

use crate::world::*;
use object_store::memory::InMemory;
use serde::{Deserialize, Serialize};
use serde_json::{Value, json};
use simcore::batch::{RunReport, Tier, Violation};
use simcore::rng::{Rng, Sig};
use simcore::sim::{Policy, Schedule, Sim, cancel_at};
use simcore::violation;
use std::collections::{BTreeMap, BTreeSet};
use tower::ServiceExt;

const TENANT: &str = "tenant_a";
const TKEY: &str = "ka-1";
pub const KNOWN_COLD: &str = "c14.read-wrote.cold-open";

#[derive(Clone, Debug, Serialize, Deserialize, PartialEq)]
pub enum Tr {
    AddDocs { n: u8 },
    UpdateDoc,
    RemoveDoc,
    SaveExt,
    FlushDb,
    FlushColl,
    SecondCollection,
    RestartGraceful,
    RestartCrash,
    DbReadOnly { ro: bool },
    CollReadOnly { ro: bool },
    CloseDb,
    OpenDb,
    DeleteColl,
    AutoFlush,
}

#[derive(Clone, Debug, Serialize, Deserialize)]
pub struct Case {
    pub seed: u64,
    pub knobs: Knobs,
    pub transitions: Vec<Tr>,
    /// after which transitions (index+1; 0 = initial state) a cancellation sweep runs
    pub cancel_at_states: Vec<usize>,
    pub schedule: Schedule,
    pub classify: bool,
}

pub fn generate(case_seed: u64, _idx: u64, tier: Tier) -> Case {
    let mut rng = Rng::stream(case_seed, "c14.reads");
    let n = rng.range(2, if tier == Tier::Thorough { 12 } else { 7 }) as usize;
    let mut t = Vec::new();
    for _ in 0..n {
        let tr = match rng.below(24) {
            0..=3 => Tr::AddDocs { n: rng.range(1, 4) as u8 },
            4 => Tr::UpdateDoc,
            5 => Tr::RemoveDoc,
            6 => Tr::SaveExt,
            7 => Tr::FlushDb,
            8 => Tr::FlushColl,
            9 => Tr::SecondCollection,
            10..=11 => Tr::RestartGraceful,
            12..=15 => Tr::RestartCrash,
            16 => Tr::DbReadOnly { ro: rng.chance(2, 3) },
            17 => Tr::CollReadOnly { ro: rng.chance(2, 3) },
            18 => Tr::CloseDb,
            19..=20 => Tr::OpenDb,
            21 => Tr::DeleteColl,
            _ => Tr::AutoFlush,
        };
        t.push(tr);
    }
    let mut cancel_at_states = Vec::new();
    for i in 0..=n {
        if rng.chance(1, 4) {
            cancel_at_states.push(i);
        }
    }
    let sseed = rng.next_u64();
    let policy = match rng.below(3) {
        0 => Policy::Uniform,
        1 => Policy::Sticky(12),
        _ => Policy::Pct(3),
    };
    let knobs = Knobs { meta_stack: rng.chance(1, 4), max_body: 65536, flush_interval_s: 1_000_000, primary: "primary".into(), max_mutations: *rng.pick(&[1usize, 4, 32]) };
    Case { seed: case_seed, knobs, transitions: t, cancel_at_states, schedule: Schedule::Seeded { seed: sseed, policy }, classify: true }
}

struct W {
    srv: Srv,
    /// collections not opened since the database was last (re)opened in this process
    cold: BTreeSet<String>,
    /// the process last stopped without a shutdown while something was unflushed
    unclean: bool,
    dirty: bool,
    db_open: bool,
    colls: BTreeSet<String>,
    next_id: u64,
    log: Vec<String>,
    known_hit: Option<Violation>,
    retired_muts: usize,
    fired: BTreeMap<String, u64>,
    srv_schedule: Schedule,
    last_stop_graceful: bool,
}

async fn setup(sim: &Sim, knobs: &Knobs) -> Result<Srv, Violation> {
    let srv = boot(sim, InMemory::new(), knobs, Some(ADMIN0)).await.map_err(|e| violation!("harness.boot", "{e}"))?;
    let r = srv.admin_rpc("/", "db.create", json!({"name": TENANT, "api_key": TKEY})).await;
    if r.status != 200 {
        return Err(violation!("harness.setup", "db.create: {}", r.brief()));
    }
    let p = format!("/{TENANT}");
    let r = srv.send(&Rq::rpc(&p, Some(TKEY), Enc::Cbor, "collection.create", create_params("articles"))).await;
    if r.status != 200 {
        return Err(violation!("harness.setup", "collection.create: {}", r.brief()));
    }
    for j in 0..3 {
        let r = srv.send(&Rq::rpc(&p, Some(TKEY), Enc::Json, "doc.add", json!({"collection": "articles", "doc": {"title": format!("secret title {j}"), "body": format!("body number {j}"), "score": j}}))).await;
        if r.status != 200 {
            return Err(violation!("harness.setup", "doc.add: {}", r.brief()));
        }
    }
    let _ = srv.send(&Rq::rpc(&p, Some(TKEY), Enc::Json, "db.save_extension", json!({"key": "k1", "value": 1}))).await;
    let _ = srv.send(&Rq::rpc(&p, Some(TKEY), Enc::Json, "collection.save_extension", json!({"collection": "articles", "key": "k1", "value": 1}))).await;
    Ok(srv)
}

/// Drives a spawned request while backend calls are parked.
async fn drive<T>(sim: &Sim, jh: &mut tokio::task::JoinHandle<T>, what: &str) -> Result<T, Violation> {
    let mut idle = 0;
    for _ in 0..50_000 {
        quiesce().await;
        if jh.is_finished() {
            return jh.await.map_err(|e| violation!("harness.join", "{what}: {e}"));
        }
        if sim.grant_next() {
            idle = 0;
        } else {
            idle += 1;
            if idle > 400 {
                break;
            }
        }
    }
    Err(violation!("harness.stuck", "{what}: request did not finish under the driver"))
}

/// Grants every parked call until nothing is parked and nothing runs.
async fn settle(sim: &Sim) {
    for _ in 0..50_000 {
        quiesce().await;
        if !sim.grant_next() {
            break;
        }
    }
}

/// Which methods does the service run on the cancellable read path?
pub async fn classify(seed: u64, knobs: &Knobs, rep: &mut RunReport) -> Result<(Vec<String>, Vec<String>), Violation> {
    let mut k = knobs.clone();
    k.max_mutations = 1;
    let sim = new_sim(simcore::rng::derive(seed, "classify"), T0_MS, false, None);
    let srv = setup(&sim, &k).await?;
    let mut db_reads = Vec::new();
    let mut root_reads = Vec::new();
    let hold_path = format!("/{}", k.primary);
    let mut list: Vec<(bool, &str)> = ROOT_METHODS.iter().map(|m| (true, *m)).collect();
    // destructive database-scope methods last
    let tail = ["collection.set_read_only", "db.set_read_only", "collection.delete"];
    list.extend(DB_METHODS.iter().filter(|m| !tail.contains(m)).map(|m| (false, *m)));
    list.extend(tail.iter().map(|m| (false, *m)));
    for (root, method) in list {
        sim.set_park(true);
        // the holder: a mutation parked at its backend write, owning the only slot
        let hrq = Rq::rpc(&hold_path, Some(ADMIN0), Enc::Json, "db.save_extension", json!({"key": "hold", "value": 1}));
        let mut hj = tokio::spawn(srv.app.clone().oneshot(build_request(&hrq, k.max_body)));
        let mut parked = false;
        for _ in 0..200 {
            quiesce().await;
            if sim.pending_count() > 0 {
                parked = true;
                break;
            }
            if hj.is_finished() {
                break;
            }
        }
        if !parked {
            sim.set_park(false);
            return Err(violation!("harness.classify", "the slot holder never parked at a backend call"));
        }
        let base = sim.pending_count();
        let path = if root { "/".to_string() } else { format!("/{TENANT}") };
        let target = if root { "tenant_z" } else { TENANT };
        let xrq = Rq::rpc(&path, Some(ADMIN0), Enc::Json, method, params_for(method, target, 0));
        let mut xj = tokio::spawn(srv.app.clone().oneshot(build_request(&xrq, k.max_body)));
        quiesce().await;
        quiesce().await;
        let treated_as_read = xj.is_finished() || sim.pending_count() > base;
        if treated_as_read {
            if root { root_reads.push(method.to_string()) } else { db_reads.push(method.to_string()) }
        }
        let _ = drive(&sim, &mut hj, "slot holder").await?;
        let _ = drive(&sim, &mut xj, method).await?;
        settle(&sim).await;
        sim.set_park(false);
        rep.probe("methods_classified_by_admission_probe", 1);
    }
    srv.state.shutdown().await;
    Ok((db_reads, root_reads))
}

impl W {
    fn ctx(&self) -> String {
        format!("state history:\n{}", self.log.join("\n"))
    }

    async fn tenant(&self, method: &str, params: Value) -> Resp {
        self.srv.send(&Rq::rpc(&format!("/{TENANT}"), Some(TKEY), Enc::Json, method, params)).await
    }

    async fn restart(&mut self, graceful: bool, rep: &mut RunReport) -> Result<(), Violation> {
        self.last_stop_graceful = graceful;
        if graceful {
            self.srv.state.shutdown().await;
            self.unclean = false;
            rep.probe("graceful_restarts", 1);
        } else {
            self.unclean = self.dirty;
            rep.fire("process_crash_restart", 1);
        }
        self.dirty = false;
        let disk = self.srv.store.disk().fork();
        self.retired_muts += self.srv.muts();
        for (k, v) in self.srv.sim.fired() {
            if !k.starts_with("clock_") {
                *self.fired.entry(k.to_string()).or_insert(0) += v;
            }
        }
        let now = self.srv.sim.clock().now_ms() + 1000;
        let sim = new_sim(simcore::rng::derive(now as u64, "reads.restart"), now, false, Some(self.srv_schedule.clone()));
        let knobs = self.srv.knobs.clone();
        self.srv = boot(&sim, disk, &knobs, Some(ADMIN0)).await.map_err(|e| violation!("harness.reboot", "{e}\n{}", self.ctx()))?;
        self.cold = self.colls.clone();
        let l = self.srv.admin_rpc("/", "db.list", json!({})).await;
        self.db_open = l.result().map(|v| v.as_array().map(|a| a.iter().any(|x| x == TENANT)).unwrap_or(false)).unwrap_or(false);
        Ok(())
    }
}

pub fn execute(case: &Case, rep: &mut RunReport) -> Result<(), Violation> {
    let rt = runtime(case.seed);
    let r = rt.block_on(run(case, rep));
    drop(rt);
    r
}

async fn run(case: &Case, rep: &mut RunReport) -> Result<(), Violation> {
    let mut rng = Rng::stream(case.seed, "c14.reads.exec");
    let mut sig = Sig::default();
    let (db_reads, root_reads) = if case.classify {
        classify(case.seed, &case.knobs, rep).await?
    } else {
        (DOC_READS_DB.iter().map(|s| s.to_string()).collect(), DOC_READS_ROOT.iter().map(|s| s.to_string()).collect())
    };
    for m in &db_reads {
        sig.add_str(m);
        if !DOC_READS_DB.contains(&m.as_str()) {
            rep.probe("treated_as_read_beyond_documented_table", 1);
        }
    }
    for m in DOC_READS_DB {
        if !db_reads.iter().any(|x| x == m) {
            rep.probe("documented_read_not_on_read_path", 1);
        }
    }
    let sim = new_sim(simcore::rng::derive(case.seed, "reads"), T0_MS, false, Some(case.schedule.clone()));
    let srv = setup(&sim, &case.knobs).await?;
    let mut w = W {
        srv,
        cold: BTreeSet::new(),
        unclean: false,
        dirty: true,
        db_open: true,
        colls: ["articles".to_string()].into_iter().collect(),
        next_id: 4,
        log: vec!["setup: tenant_a + articles + 3 docs (unflushed)".into()],
        known_hit: None,
        retired_muts: 0,
        fired: BTreeMap::new(),
        srv_schedule: case.schedule.clone(),
        last_stop_graceful: true,
    };
    let mut evals = 0u64;
    let mut state_sigs = Sig::default();
    for si in 0..=case.transitions.len() {
        if si > 0 {
            let tr = &case.transitions[si - 1];
            apply(&mut w, tr, rep).await?;
            state_sigs.add_str(&format!("{tr:?}"));
        }
        // ---- the read battery in this state
        evals += battery(&mut w, &db_reads, &root_reads, &mut rng, rep, &mut sig).await?;
        // ---- cancellation sweep
        if case.cancel_at_states.contains(&si) {
            evals += cancel_sweep(&mut w, &db_reads, &mut rng, rep, &mut sig).await?;
        }
        state_sigs.add(w.cold.len() as u64);
        state_sigs.add(w.unclean as u64);
        rep.nontrivial_sigs.push(state_sigs.0);
    }
    for (k, v) in w.srv.sim.fired() {
        if !k.starts_with("clock_") {
            *w.fired.entry(k.to_string()).or_insert(0) += v;
        }
    }
    for (k, v) in &w.fired {
        rep.fire(k, *v);
    }
    rep.evaluations = evals.max(1);
    rep.steps = (w.retired_muts + w.srv.muts()) as u64;
    rep.sim_ms = w.srv.sim.clock().now_ms() - T0_MS;
    for l in &w.log {
        sig.add_str(l);
    }
    rep.trace_hash = sig.0;
    rep.sample = Some(json!({"mode": "reads", "treated_as_read": {"db": db_reads, "root": root_reads}, "states": w.log, "read_requests_checked": evals}));
    w.srv.state.shutdown().await;
    match w.known_hit.take() {
        Some(v) => Err(v),
        None => Ok(()),
    }
}

async fn apply(w: &mut W, tr: &Tr, rep: &mut RunReport) -> Result<(), Violation> {
    let now = w.srv.sim.clock().now_ms();
    w.srv.sim.clock().set_ms(now + 1000);
    let mut note = String::new();
    match tr {
        Tr::AddDocs { n } => {
            for _ in 0..*n {
                let r = w.tenant("doc.add", json!({"collection": "articles", "doc": {"title": format!("added {}", w.next_id), "body": "more secret text", "score": w.next_id}})).await;
                if r.status == 200 {
                    w.next_id += 1;
                    w.dirty = true;
                    w.cold.remove("articles");
                }
                note = r.status.to_string();
            }
        }
        Tr::UpdateDoc => {
            let r = w.tenant("doc.update", json!({"collection": "articles", "_id": 1, "fields": {"title": "updated title"}})).await;
            if r.status == 200 {
                w.dirty = true;
                w.cold.remove("articles");
            }
            note = r.status.to_string();
        }
        Tr::RemoveDoc => {
            let r = w.tenant("doc.remove", json!({"collection": "articles", "_id": 2})).await;
            if r.status == 200 {
                w.dirty = true;
                w.cold.remove("articles");
            }
            note = r.status.to_string();
        }
        Tr::SaveExt => {
            let r = w.tenant("collection.save_extension", json!({"collection": "articles", "key": "k2", "value": now})).await;
            if r.status == 200 {
                w.cold.remove("articles");
            }
            note = r.status.to_string();
        }
        Tr::FlushDb => {
            let r = w.tenant("db.flush", json!({})).await;
            if r.status == 200 {
                w.dirty = false;
            }
            note = r.status.to_string();
        }
        Tr::FlushColl => {
            let r = w.tenant("collection.flush", json!({"collection": "articles"})).await;
            if r.status == 200 {
                w.cold.remove("articles");
                if w.colls.len() == 1 {
                    w.dirty = false;
                }
            }
            note = r.status.to_string();
        }
        Tr::SecondCollection => {
            let r = w.tenant("collection.create", create_params("notes")).await;
            if r.status == 200 {
                w.colls.insert("notes".into());
                let _ = w.tenant("doc.add", json!({"collection": "notes", "doc": {"title": "note", "body": "note body", "score": 1}})).await;
                w.dirty = true;
            }
            note = r.status.to_string();
        }
        Tr::RestartGraceful => w.restart(true, rep).await?,
        Tr::RestartCrash => w.restart(false, rep).await?,
        Tr::DbReadOnly { ro } => {
            let r = w.tenant("db.set_read_only", json!({"read_only": ro})).await;
            note = r.status.to_string();
        }
        Tr::CollReadOnly { ro } => {
            let r = w.tenant("collection.set_read_only", json!({"collection": "articles", "read_only": ro})).await;
            if r.status == 200 {
                w.cold.remove("articles");
            }
            note = r.status.to_string();
        }
        Tr::CloseDb => {
            let r = w.srv.admin_rpc("/", "db.close", json!({"name": TENANT})).await;
            if r.status == 200 {
                w.db_open = false;
                w.dirty = false;
                w.unclean = false;
            }
            note = r.status.to_string();
        }
        Tr::OpenDb => {
            let r = w.srv.admin_rpc("/", "db.open", json!({"name": TENANT})).await;
            if r.status == 200 && !w.db_open {
                w.db_open = true;
                w.cold = w.colls.clone();
            }
            note = r.status.to_string();
        }
        Tr::DeleteColl => {
            let r = w.tenant("collection.delete", json!({"collection": "articles"})).await;
            if r.status == 200 {
                w.colls.remove("articles");
                w.cold.remove("articles");
            }
            note = r.status.to_string();
        }
        Tr::AutoFlush => {
            tokio::time::sleep(std::time::Duration::from_secs(w.srv.knobs.flush_interval_s + 1)).await;
            quiesce().await;
            rep.probe("auto_flush_elapsed", 1);
            // the background flush makes everything opened so far durable
            if w.cold.is_empty() {
                w.dirty = false;
            }
        }
    }
    drain().await;
    w.log.push(format!("{tr:?} -> {note} [cold={:?} unclean={} dirty={} open={}]", w.cold, w.unclean, w.dirty, w.db_open));
    Ok(())
}

fn coll_of(params: &Value) -> Option<String> {
    params.get("collection").and_then(|c| c.as_str()).map(|s| s.to_string())
}

/// Judges the backend mutations a read left behind.
fn judge(w: &mut W, method: &str, how: &str, coll: Option<&String>, was_cold: bool, muts: Vec<simcore::sim::MutRec>, rep: &mut RunReport) -> Result<(), Violation> {
    if muts.is_empty() {
        return Ok(());
    }
    let paths: Vec<String> = muts.iter().map(|m| format!("{:?} {}", m.kind, m.path)).collect();
    let under = coll.map(|c| format!("{TENANT}/{c}/"));
    let all_under = match &under {
        Some(u) => muts.iter().all(|m| w.srv.logical(&m.path).starts_with(u.as_str())),
        None => false,
    };
    if was_cold && all_under {
        // the documented cold open: AndaDB::open_collection finishes with
        // Collection::flush, which persists the replayed recovery state
        rep.probe(if w.last_stop_graceful { "cold_open_writes_after_graceful_stop" } else { "cold_open_writes_after_crash" }, 1);
        if w.known_hit.is_none() {
            w.known_hit = Some(violation!(
                KNOWN_COLD,
                "{method} ({how}) wrote to storage while opening a collection that was not yet open in this process: {} objects, e.g. {:?}\n{}",
                paths.len(),
                &paths[..paths.len().min(4)],
                w.ctx()
            ));
        }
        return Ok(());
    }
    Err(violation!("c14.read-wrote", "{method} ({how}) is on the cancellable read path and wrote to storage: {:?} (collection cold={was_cold}, unclean stop={})\n{}", paths, w.unclean, w.ctx()))
}

async fn battery(w: &mut W, db_reads: &[String], root_reads: &[String], rng: &mut Rng, rep: &mut RunReport, sig: &mut Sig) -> Result<u64, Violation> {
    let mut evals = 0u64;
    let path = format!("/{TENANT}");
    let mut order: Vec<&String> = db_reads.iter().collect();
    rng.shuffle(&mut order);
    for m in order {
        for pass in 0..2 {
            let variant = if pass == 0 { 0 } else { rng.range(1, 3) as u8 };
            if pass == 1 && !rng.chance(1, 3) {
                continue;
            }
            let mut params = params_for(m, TENANT, variant);
            if pass == 0 && w.colls.contains("notes") && rng.chance(1, 3) && params.get("collection").is_some() {
                params["collection"] = json!("notes");
            }
            let enc = *rng.pick(&ENCS_MAIN);
            let tok = if rng.bool() { TKEY } else { ADMIN0 };
            let rq = Rq::rpc(&path, Some(tok), enc, m, params.clone());
            let coll = coll_of(&params);
            let was_cold = coll.as_ref().map(|c| w.cold.contains(c)).unwrap_or(false);
            let mark = w.srv.muts();
            let r = w.srv.send(&rq).await;
            drain().await;
            r.sig(sig);
            evals += 1;
            let muts = w.srv.sim.mut_log_since(mark);
            rep.probe(if r.status == 200 { "reads_served" } else { "reads_refused" }, 1);
            if was_cold {
                rep.probe("reads_on_cold_collection", 1);
                if w.unclean {
                    rep.probe("reads_on_cold_collection_after_unclean_stop", 1);
                }
            }
            judge(w, m, &format!("{enc:?}, params variant {variant}, status {}", r.status), coll.as_ref(), was_cold, muts, rep)?;
            if r.status == 200 {
                if let Some(c) = &coll {
                    w.cold.remove(c);
                }
            }
        }
    }
    for m in root_reads {
        let rq = Rq::rpc("/", Some(ADMIN0), *rng.pick(&ENCS_MAIN), m, params_for(m, TENANT, 0));
        let mark = w.srv.muts();
        let r = w.srv.send(&rq).await;
        drain().await;
        r.sig(sig);
        evals += 1;
        let muts = w.srv.sim.mut_log_since(mark);
        judge(w, &format!("root {m}"), &format!("status {}", r.status), None, false, muts, rep)?;
    }
    // the unauthenticated health endpoint is a read too
    let rq = Rq { verb: Verb::Get, path: "/".into(), auth: None, enc: Enc::Json, body: BodyKind::Empty };
    let mark = w.srv.muts();
    let r = w.srv.send(&rq).await;
    drain().await;
    r.sig(sig);
    let muts = w.srv.sim.mut_log_since(mark);
    judge(w, "GET /", &format!("status {}", r.status), None, false, muts, rep)?;
    Ok(evals + 1)
}

/// Drops the request future of a few read methods at every suspension point.
async fn cancel_sweep(w: &mut W, db_reads: &[String], rng: &mut Rng, rep: &mut RunReport, sig: &mut Sig) -> Result<u64, Violation> {
    let mut evals = 0u64;
    if db_reads.is_empty() {
        return Ok(0);
    }
    let path = format!("/{TENANT}");
    // 0 = as the state is, 1 = cold after a graceful restart before every cancelled
    // request, 2 = cold after a mutation + crash before every cancelled request
    let can_cold = w.db_open && w.colls.contains("articles");
    let picks: Vec<String> = {
        let coll_reads: Vec<&String> = db_reads.iter().filter(|m| m.starts_with("doc.") || m.starts_with("collection.")).collect();
        let mut v = Vec::new();
        for _ in 0..2 {
            if !coll_reads.is_empty() {
                v.push((*rng.pick(&coll_reads)).clone());
            }
        }
        v
    };
    for m in picks {
        let params = params_for(&m, TENANT, 0);
        let coll = coll_of(&params);
        let enc = *rng.pick(&ENCS_MAIN);
        let mode = if can_cold { rng.below(3) } else { 0 };
        let mut k = 0u64;
        loop {
            if k > 120 {
                break;
            }
            match mode {
                1 => w.restart(true, rep).await?,
                2 => {
                    let r = w.tenant("doc.add", json!({"collection": "articles", "doc": {"title": format!("again {}", w.next_id), "body": "x", "score": 1}})).await;
                    if r.status == 200 {
                        w.next_id += 1;
                        w.dirty = true;
                    }
                    w.restart(false, rep).await?;
                }
                _ => {}
            }
            let was_cold = coll.as_ref().map(|c| w.cold.contains(c)).unwrap_or(false);
            let rq = Rq::rpc(&path, Some(TKEY), enc, &m, params.clone());
            let mark = w.srv.muts();
            w.srv.sim.install_clock_here();
            w.srv.sim.set_park(true);
            let app = w.srv.app.clone();
            let req = build_request(&rq, w.srv.knobs.max_body);
            let mut jh = tokio::spawn(cancel_at(async move { collect(app.oneshot(req).await.expect("infallible")).await }, k));
            let out = drive(&w.srv.sim, &mut jh, &m).await;
            settle(&w.srv.sim).await;
            w.srv.sim.set_park(false);
            let out = out?;
            evals += 1;
            let muts = w.srv.sim.mut_log_since(mark);
            let cancelled = out.is_err();
            if cancelled {
                rep.fire("cancellation", 1);
                rep.probe("cancelled_reads_checked", 1);
                if was_cold {
                    rep.probe("cancelled_reads_during_cold_open", 1);
                }
            }
            if let Ok(r) = &out {
                r.sig(sig);
            }
            sig.add(k);
            judge(w, &m, &format!("{enc:?}, request future dropped at suspension point {k}: {}", if cancelled { "cancelled" } else { "completed first" }), coll.as_ref(), was_cold, muts, rep)?;
            // the collection is open now (the detached open runs to completion)
            if let Some(c) = &coll {
                w.cold.remove(c);
            }
            if !cancelled {
                break;
            }
            k += 1;
        }
    }
    w.log.push(format!("<cancellation sweep: {evals} requests>"));
    Ok(evals)
}

pub fn shrink(c: &Case) -> Vec<Case> {
    let mut out = Vec::new();
    if c.classify {
        let mut d = c.clone();
        d.classify = false;
        out.push(d);
    }
    if !c.cancel_at_states.is_empty() {
        let mut d = c.clone();
        d.cancel_at_states.clear();
        out.push(d);
        for i in 0..c.cancel_at_states.len() {
            let mut d = c.clone();
            d.cancel_at_states.remove(i);
            out.push(d);
        }
    }
    for i in (0..c.transitions.len()).rev() {
        let mut d = c.clone();
        d.transitions.remove(i);
        d.cancel_at_states = d.cancel_at_states.iter().filter(|s| **s != i + 1).map(|s| if *s > i + 1 { *s - 1 } else { *s }).collect();
        out.push(d);
    }
    if c.knobs.meta_stack {
        let mut d = c.clone();
        d.knobs.meta_stack = false;
        out.push(d);
    }
    out
}
