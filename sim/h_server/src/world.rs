//! The simulated service: `build_router(AppState)` over a SimStore, driven with
//! `tower::ServiceExt::oneshot` inside a paused current-thread tokio runtime.
//!
//! Two clocks, both simulated: the wall clock (libc seam, `SimClock`) and
//! tokio's paused monotonic clock. `quiesce()` is a 1 µs sleep: with the clock
//! paused it returns only when every other task is idle, which is the
//! simulator's quiescence detection.

use anda_db_server::{AppState, ServerOptions, build_router};
use anda_object_store::MetaStoreBuilder;
use axum::Router;
use axum::body::Body;
use axum::http::{Request, header};
use http_body_util::BodyExt;
use object_store::ObjectStore;
use object_store::memory::InMemory;
use serde::{Deserialize, Serialize};
use serde_json::{Value, json};
use simcore::rng::Sig;
use simcore::sim::{ClockMode, Policy, Schedule, Sim, SimConfig};
use simcore::store::SimStore;
use std::collections::BTreeMap;
use std::sync::Arc;
use std::time::Duration;
use tower::ServiceExt;

pub const ADMIN0: &str = "admin-key-0";
pub const ADMIN1: &str = "admin-key-1";
pub const DBS: [&str; 4] = ["tenant_a", "tenant_b", "tenant_c", "tenant_d"];
pub const KEYS: [&str; 6] = ["ka-1", "ka-2", "kb-1", "kc-1", "shared-1", "kd-1"];
pub const TIMING_DUMMY: &str = "anda-db-server-timing-equalization-dummy";
pub const T0_MS: i64 = 1_760_000_000_000;

pub const ROOT_METHODS: [&str; 8] = ["info", "db.list", "db.create", "db.open", "db.connect", "db.close", "db.set_api_key", "db.remove_api_key"];
pub const DB_METHODS: [&str; 31] = [
    "info",
    "db.metadata",
    "db.stats",
    "db.flush",
    "db.set_read_only",
    "db.get_extension",
    "db.save_extension",
    "db.remove_extension",
    "collection.list",
    "collection.create",
    "collection.ensure",
    "collection.metadata",
    "collection.stats",
    "collection.delete",
    "collection.flush",
    "collection.set_read_only",
    "collection.get_extension",
    "collection.save_extension",
    "collection.remove_extension",
    "doc.add",
    "doc.add_many",
    "doc.get",
    "doc.get_many",
    "doc.update",
    "doc.remove",
    "doc.exists",
    "doc.count",
    "doc.search",
    "doc.search_ids",
    "doc.query_ids",
    "doc.query_last_ids",
];
pub const UNKNOWN_METHODS: [&str; 4] = ["doc.purge", "", "DB.LIST", "db.list "];
/// What the pinned tree documents as read-only (api/mod.rs parse tables).
pub const DOC_READS_DB: [&str; 16] = [
    "info",
    "db.metadata",
    "db.stats",
    "db.get_extension",
    "collection.list",
    "collection.metadata",
    "collection.stats",
    "collection.get_extension",
    "doc.get",
    "doc.get_many",
    "doc.exists",
    "doc.count",
    "doc.search",
    "doc.search_ids",
    "doc.query_ids",
    "doc.query_last_ids",
];
pub const DOC_READS_ROOT: [&str; 2] = ["info", "db.list"];

pub fn all_methods() -> Vec<&'static str> {
    let mut v: Vec<&'static str> = ROOT_METHODS.to_vec();
    for m in DB_METHODS {
        if !v.contains(&m) {
            v.push(m);
        }
    }
    v.extend(UNKNOWN_METHODS);
    v
}

#[derive(Clone, Copy, Debug, Serialize, Deserialize, PartialEq, Eq, Hash, PartialOrd, Ord)]
pub enum Enc {
    Cbor,
    Json,
    /// JSON body, `Accept: application/cbor`
    JsonAcceptCbor,
    /// CBOR body, `Accept: application/json`
    CborAcceptJson,
    /// no Content-Type at all (JSON bytes)
    NoContentType,
}
pub const ENCS_MAIN: [Enc; 2] = [Enc::Cbor, Enc::Json];
pub const ENCS_ALL: [Enc; 5] = [Enc::Cbor, Enc::Json, Enc::JsonAcceptCbor, Enc::CborAcceptJson, Enc::NoContentType];

#[derive(Clone, Copy, Debug, Serialize, Deserialize, PartialEq, Eq, Hash, PartialOrd, Ord)]
pub enum Verb {
    Post,
    Get,
    Put,
    Delete,
}

#[derive(Clone, Debug, Serialize, Deserialize, PartialEq)]
pub enum BodyKind {
    Rpc { method: String, params: Value },
    Empty,
    Garbage,
    /// larger than the configured max_body_size
    Oversized,
}

#[derive(Clone, Debug, Serialize, Deserialize, PartialEq)]
pub struct Rq {
    pub verb: Verb,
    pub path: String,
    /// whole Authorization header value
    pub auth: Option<String>,
    pub enc: Enc,
    pub body: BodyKind,
}

impl Rq {
    pub fn rpc(path: &str, auth: Option<&str>, enc: Enc, method: &str, params: Value) -> Rq {
        Rq { verb: Verb::Post, path: path.to_string(), auth: auth.map(|a| format!("Bearer {a}")), enc, body: BodyKind::Rpc { method: method.to_string(), params } }
    }
}

#[derive(Clone, Debug, PartialEq, Eq)]
pub struct Resp {
    pub status: u16,
    pub headers: Vec<(String, Vec<u8>)>,
    pub body: Vec<u8>,
}

impl Resp {
    /// Body decoded to JSON (CBOR bodies are transcoded); None when undecodable.
    pub fn value(&self) -> Option<Value> {
        let ct = self.headers.iter().find(|(k, _)| k == "content-type").map(|(_, v)| v.clone()).unwrap_or_default();
        if ct.starts_with(b"application/cbor") {
            cbor2::de::from_reader::<Value, _>(&self.body[..]).ok()
        } else {
            serde_json::from_slice(&self.body).ok()
        }
    }
    pub fn result(&self) -> Option<Value> {
        self.value().and_then(|v| v.get("result").cloned())
    }
    pub fn err_code(&self) -> String {
        self.value().and_then(|v| v.get("error").and_then(|e| e.get("code")).and_then(|c| c.as_str().map(|s| s.to_string()))).unwrap_or_default()
    }
    pub fn brief(&self) -> String {
        let v = self.value().map(|v| v.to_string()).unwrap_or_else(|| format!("<{} raw bytes>", self.body.len()));
        let v = if v.len() > 300 { format!("{}…", &v[..300]) } else { v };
        format!("{} {}", self.status, v)
    }
    pub fn sig(&self, s: &mut Sig) {
        s.add(self.status as u64);
        for (k, v) in &self.headers {
            s.add_str(k);
            s.add_bytes(v);
        }
        s.add_bytes(&self.body);
    }
}

pub fn build_request(rq: &Rq, max_body: usize) -> Request<Body> {
    let mut b = match rq.verb {
        Verb::Post => Request::post(&rq.path),
        Verb::Get => Request::get(&rq.path),
        Verb::Put => Request::put(&rq.path),
        Verb::Delete => Request::delete(&rq.path),
    };
    let (ct, accept, cbor) = match rq.enc {
        Enc::Cbor => (Some("application/cbor"), None, true),
        Enc::Json => (Some("application/json"), None, false),
        Enc::JsonAcceptCbor => (Some("application/json"), Some("application/cbor"), false),
        Enc::CborAcceptJson => (Some("application/cbor"), Some("application/json"), true),
        Enc::NoContentType => (None, None, false),
    };
    if let Some(ct) = ct {
        b = b.header(header::CONTENT_TYPE, ct);
    }
    if let Some(a) = accept {
        b = b.header(header::ACCEPT, a);
    }
    if let Some(a) = &rq.auth {
        b = b.header(header::AUTHORIZATION, a.as_str());
    }
    let body: Vec<u8> = match &rq.body {
        BodyKind::Rpc { method, params } => {
            let req = if params.is_null() { json!({"method": method}) } else { json!({"method": method, "params": params}) };
            if cbor {
                let mut v = Vec::new();
                cbor2::ser::to_writer(&req, &mut v).expect("cbor encode");
                v
            } else {
                serde_json::to_vec(&req).expect("json encode")
            }
        }
        BodyKind::Empty => Vec::new(),
        BodyKind::Garbage => vec![0xff, 0x00, 0x7b, 0x9f, 0x41],
        BodyKind::Oversized => vec![b' '; max_body + 1024],
    };
    b.body(Body::from(body)).expect("request")
}

pub async fn send(app: &Router, rq: &Rq, max_body: usize) -> Resp {
    let req = build_request(rq, max_body);
    let resp = app.clone().oneshot(req).await.expect("infallible");
    collect(resp).await
}

pub async fn collect(resp: axum::response::Response) -> Resp {
    let status = resp.status().as_u16();
    let mut headers: Vec<(String, Vec<u8>)> = resp.headers().iter().map(|(k, v)| (k.as_str().to_string(), v.as_bytes().to_vec())).collect();
    headers.sort();
    let body = resp.into_body().collect().await.map(|b| b.to_bytes().to_vec()).unwrap_or_default();
    Resp { status, headers, body }
}

/// Returns only when every other task of the runtime is idle. With the clock
/// paused the runtime auto-advances to this timer only when nothing else can
/// run; the timer wheel rounds it to 1 ms of simulated monotonic time.
pub async fn quiesce() {
    tokio::time::sleep(Duration::from_micros(1)).await;
}

/// Lets every runnable task run WITHOUT advancing simulated time (so no
/// auto-flush timer can fire): detached work a request left behind completes
/// here when backend calls are not parked.
pub async fn drain() {
    for _ in 0..64 {
        tokio::task::yield_now().await;
    }
}

#[derive(Clone, Debug, Serialize, Deserialize, PartialEq)]
pub struct Knobs {
    /// MetaStore (the `local` deployment's wrapper) between the service and the disk
    pub meta_stack: bool,
    pub max_body: usize,
    pub flush_interval_s: u64,
    pub primary: String,
    pub max_mutations: usize,
}

impl Default for Knobs {
    fn default() -> Self {
        Knobs { meta_stack: false, max_body: 4096, flush_interval_s: 60, primary: "primary".into(), max_mutations: 32 }
    }
}

pub fn options(k: &Knobs, admin: Option<&str>) -> ServerOptions {
    ServerOptions {
        name: "sim".into(),
        version: "0.0.0".into(),
        primary_db: k.primary.clone(),
        description: "simulated".into(),
        api_key: admin.map(|s| s.to_string()),
        flush_interval: Duration::from_secs(k.flush_interval_s),
        max_body_size: k.max_body,
        max_concurrent_mutations: k.max_mutations,
        ..Default::default()
    }
}

pub fn new_sim(seed: u64, start_ms: i64, park: bool, schedule: Option<Schedule>) -> Sim {
    let mut cfg = SimConfig::simple(seed);
    cfg.park = park;
    cfg.clock = ClockMode::Frozen;
    cfg.start_ms = start_ms;
    cfg.step_cap = 200_000;
    cfg.schedule = schedule.unwrap_or(Schedule::Seeded { seed, policy: Policy::Uniform });
    Sim::new(&cfg)
}

pub struct Srv {
    pub sim: Sim,
    pub store: SimStore,
    pub state: AppState,
    pub app: Router,
    pub knobs: Knobs,
    pub admin: Option<String>,
}

pub async fn boot(sim: &Sim, disk: InMemory, knobs: &Knobs, admin: Option<&str>) -> Result<Srv, String> {
    let store = SimStore::new(sim.clone(), disk);
    boot_on(sim, store, knobs, admin).await
}

pub async fn boot_on(sim: &Sim, store: SimStore, knobs: &Knobs, admin: Option<&str>) -> Result<Srv, String> {
    sim.install_clock_here();
    let os: Arc<dyn ObjectStore> = if knobs.meta_stack { Arc::new(MetaStoreBuilder::new(store.clone(), 10_000).build()) } else { Arc::new(store.clone()) };
    let state = AppState::connect(os, options(knobs, admin)).await.map_err(|e| format!("{} {}: {}", e.status, e.code, e.message))?;
    let app = build_router(state.clone());
    Ok(Srv { sim: sim.clone(), store, state, app, knobs: knobs.clone(), admin: admin.map(|s| s.to_string()) })
}

impl Srv {
    pub async fn send(&self, rq: &Rq) -> Resp {
        self.sim.install_clock_here();
        send(&self.app, rq, self.knobs.max_body).await
    }
    pub async fn admin_rpc(&self, path: &str, method: &str, params: Value) -> Resp {
        self.send(&Rq::rpc(path, self.admin.as_deref(), Enc::Json, method, params)).await
    }
    pub fn muts(&self) -> usize {
        self.sim.mut_log_len()
    }
    /// The logical path of a backend object (MetaStore prefixes stripped).
    pub fn logical(&self, p: &str) -> String {
        if self.knobs.meta_stack {
            for pre in ["meta/", "gen/", "data/"] {
                if let Some(r) = p.strip_prefix(pre) {
                    return r.to_string();
                }
            }
        }
        p.to_string()
    }
    pub fn disk_dump_excluding(&self, db: &str) -> Vec<(String, u64)> {
        let pre = format!("{db}/");
        SimStore::dump(self.store.disk())
            .into_iter()
            .filter(|(p, _)| !self.logical(p).starts_with(&pre))
            .map(|(p, b)| {
                let mut s = Sig::default();
                s.add_bytes(&b);
                (p, s.0)
            })
            .collect()
    }
}

pub fn articles_schema() -> Value {
    json!({"fields": [
        {"name": "_id", "description": "", "type": "U64", "unique": true, "index": 0},
        {"name": "title", "description": "t", "type": "Text", "unique": false, "index": 1},
        {"name": "body", "description": "b", "type": "Text", "unique": false, "index": 2},
        {"name": "score", "description": "s", "type": {"Option": "U64"}, "unique": false, "index": 3}
    ]})
}

pub fn create_params(coll: &str) -> Value {
    json!({
        "config": {"name": coll, "description": "sim collection"},
        "schema": articles_schema(),
        "btree_indexes": [["score"]],
        "bm25_indexes": ["title", "body"]
    })
}

/// Valid params for every method of either scope; `tgt` is the database name
/// root-scope params address, `variant` selects hostile alternatives.
pub fn params_for(method: &str, tgt: &str, variant: u8) -> Value {
    let coll = match variant {
        1 => "../tenant_b/articles",
        2 => "tenant_b/articles",
        3 => "%2e%2e",
        _ => "articles",
    };
    let extkey = match variant {
        1 => "_db_api_keys",
        2 => "_db_registry",
        3 => "db_api_keys",
        _ => "k1",
    };
    let mut v = match method {
        "info" | "db.list" | "db.metadata" | "db.stats" | "db.flush" | "collection.list" => json!({}),
        "db.create" => json!({"name": tgt, "api_key": "attacker-key"}),
        "db.open" | "db.connect" | "db.close" => json!({"name": tgt}),
        "db.set_api_key" => json!({"name": tgt, "api_key": "attacker-key"}),
        "db.remove_api_key" => json!({"name": tgt}),
        "db.set_read_only" => json!({"read_only": true}),
        "db.get_extension" | "db.remove_extension" => json!({"key": extkey}),
        "db.save_extension" => json!({"key": extkey, "value": 5}),
        "collection.create" => create_params(if variant == 0 { "extra" } else { coll }),
        "collection.ensure" => create_params(coll),
        "collection.metadata" | "collection.stats" | "collection.delete" | "collection.flush" | "doc.count" => json!({"collection": coll}),
        "collection.set_read_only" => json!({"collection": coll, "read_only": true}),
        "collection.get_extension" | "collection.remove_extension" => json!({"collection": coll, "key": extkey}),
        "collection.save_extension" => json!({"collection": coll, "key": extkey, "value": "x"}),
        "doc.add" => json!({"collection": coll, "doc": {"title": "added by sweep", "body": "sweep body", "score": 9}}),
        "doc.add_many" => json!({"collection": coll, "docs": [{"title": "m1", "body": "many one", "score": 1}, {"title": "m2", "body": "many two"}]}),
        "doc.get" | "doc.exists" | "doc.remove" => json!({"collection": coll, "_id": 1}),
        "doc.get_many" => json!({"collection": coll, "_ids": [1, 2, 99]}),
        "doc.update" => json!({"collection": coll, "_id": 2, "fields": {"title": "updated by sweep"}}),
        "doc.search" | "doc.search_ids" => json!({"collection": coll, "query": {"search": {"text": "secret"}, "limit": 10}}),
        "doc.query_ids" | "doc.query_last_ids" => json!({"collection": coll, "filter": {"Field": ["score", {"Ge": 0}]}, "limit": 10}),
        _ => json!({}),
    };
    if variant != 0
        && let Some(o) = v.as_object_mut()
    {
        // parameter smuggling: names a handler might (wrongly) honour
        o.insert("db".into(), json!("tenant_b"));
        o.insert("db_name".into(), json!("tenant_b"));
        o.insert("database".into(), json!("tenant_b"));
        if !o.contains_key("name") {
            o.insert("name".into(), json!("tenant_b"));
        }
    }
    v
}

/// Reference model of the key plane.
#[derive(Clone, Debug, Default)]
pub struct Model {
    pub admin: Option<String>,
    /// databases that exist on disk
    pub exists: BTreeMap<String, DbM>,
    /// possible bindings per name (singleton unless an operation's outcome is unknown)
    pub bound: BTreeMap<String, Vec<Option<String>>>,
    /// keys whose revocation was acknowledged (reach accounting only)
    pub revoked: Vec<(String, String)>,
}

#[derive(Clone, Debug, Default)]
pub struct DbM {
    pub open: bool,
    pub populated: bool,
    pub read_only: bool,
}

#[derive(Clone, Copy, Debug, PartialEq, Eq)]
pub enum Expect {
    Admin,
    Tenant,
    Maybe,
    Denied,
}

pub fn percent_decode(s: &str) -> Option<String> {
    let b = s.as_bytes();
    let mut out = Vec::new();
    let mut i = 0;
    while i < b.len() {
        if b[i] == b'%' {
            if i + 3 > b.len() {
                return None;
            }
            let h = std::str::from_utf8(&b[i + 1..i + 3]).ok()?;
            out.push(u8::from_str_radix(h, 16).ok()?);
            i += 3;
        } else {
            out.push(b[i]);
            i += 1;
        }
    }
    String::from_utf8(out).ok()
}

impl Model {
    pub fn bindings(&self, name: &str) -> Vec<Option<String>> {
        self.bound.get(name).cloned().unwrap_or_else(|| vec![None])
    }
    pub fn certain_key(&self, name: &str) -> Option<String> {
        let b = self.bindings(name);
        if b.len() == 1 { b[0].clone() } else { None }
    }
    /// `token` is the bearer token the server would extract (None when the
    /// header is absent or not `Bearer `), `name` the decoded path segment
    /// (None for the root route).
    pub fn expect(&self, name: Option<&str>, token: Option<&str>) -> Expect {
        let Some(admin) = &self.admin else { return Expect::Admin };
        if token == Some(admin.as_str()) {
            return Expect::Admin;
        }
        let (Some(name), Some(token)) = (name, token) else { return Expect::Denied };
        let b = self.bindings(name);
        let hit = b.iter().any(|k| k.as_deref() == Some(token));
        if !hit {
            Expect::Denied
        } else if b.len() == 1 {
            Expect::Tenant
        } else {
            Expect::Maybe
        }
    }
    pub fn set_binding(&mut self, name: &str, new: Option<String>, certain: bool) {
        let old = self.bindings(name);
        if certain {
            for o in old.into_iter().flatten() {
                if Some(&o) != new.as_ref() {
                    self.revoked.push((name.to_string(), o));
                }
            }
            self.revoked.retain(|(n, k)| !(n == name && Some(k) == new.as_ref()));
            self.bound.insert(name.to_string(), vec![new]);
        } else {
            let mut v = old;
            if !v.contains(&new) {
                v.push(new);
            }
            self.bound.insert(name.to_string(), v);
        }
    }
}

pub fn token_of(auth: &Option<String>) -> Option<&str> {
    auth.as_deref().and_then(|a| a.strip_prefix("Bearer "))
}

pub fn sha3_hex(key: &str) -> String {
    use sha3::Digest;
    let mut h = sha3::Sha3_256::new();
    h.update(key.as_bytes());
    hex::encode(h.finalize())
}

pub fn runtime(seed: u64) -> tokio::runtime::Runtime {
    let mut b = tokio::runtime::Builder::new_current_thread();
    b.enable_time().start_paused(true);
    #[cfg(tokio_unstable)]
    {
        b.rng_seed(tokio::runtime::RngSeed::from_bytes(&seed.to_le_bytes()));
    }
    let _ = seed;
    b.build().expect("tokio runtime")
}
