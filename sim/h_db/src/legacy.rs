//! C01 over databases written by RELEASED versions: the repository's committed
//! format fixtures (`rs/anda_db/tests/fixtures/v0_8` - manifest-less index
//! buckets, no allocation watermark - and `v0_11`) are loaded onto the simulated
//! disk; a short workload runs on top, crossing the first, layout-upgrading open
//! and flush; the disk is forked before EVERY backend mutation (those of the
//! first open included) and every fork is reopened and verified.

use anda_db::collection::{Collection, CollectionConfig};
use anda_db::database::{AndaDB, DBConfig};
use anda_db::error::DBError;
use anda_db::index::HnswConfig;
use anda_db::query::{Filter, Query, RangeQuery, Search};
use anda_db::schema::{AndaDBSchema, Fv, Vector, bf16};
use anda_db::storage::StorageConfig;
use bytes::Bytes;
use object_store::memory::InMemory;
use object_store::path::Path as ObjPath;
use object_store::{ObjectStore, ObjectStoreExt};
use serde::{Deserialize, Serialize};
use simcore::batch::{RunReport, Tier, Violation};
use simcore::rng::Rng;
use simcore::{ClockMode, Sim, SimConfig, SimStore, violation};
use std::collections::BTreeMap;
use std::sync::Arc;

use crate::seq::block;

const FIXTURES_ROOT: &str = concat!(env!("CARGO_MANIFEST_DIR"), "/../../../repo/rs/anda_db/tests/fixtures");

/// The document type of the fixtures (`rs/anda_db/tests/format_compat.rs`).
#[derive(Debug, Clone, Serialize, Deserialize, PartialEq, AndaDBSchema)]
pub struct FixtureDoc {
    _id: u64,
    name: String,
    body: String,
    age: u64,
    active: bool,
    rating: f64,
    note: Option<String>,
    tags: Vec<String>,
    attrs: BTreeMap<String, u64>,
    embedding: Vector,
}

fn embed(values: [f32; 4]) -> Vector {
    values.into_iter().map(bf16::from_f32).collect()
}

/// What every fixture holds (append-only in the repository).
fn fixture_docs() -> BTreeMap<u64, FixtureDoc> {
    let v = vec![
        FixtureDoc { _id: 1, name: "alpha".into(), body: "alpha stores knowledge for agents".into(), age: 10, active: true, rating: 1.5, note: Some("first".into()), tags: vec!["rust".into(), "db".into()], attrs: BTreeMap::from([("k1".to_string(), 1)]), embedding: embed([1.0, 0.0, 0.0, 0.0]) },
        FixtureDoc { _id: 2, name: "beta".into(), body: "beta searches vectors quickly".into(), age: 20, active: false, rating: -2.25, note: None, tags: vec!["vector".into()], attrs: BTreeMap::from([("k2".to_string(), 2)]), embedding: embed([0.0, 1.0, 0.0, 0.0]) },
        FixtureDoc { _id: 3, name: "gamma".into(), body: "gamma ranks text with bm25".into(), age: 30, active: true, rating: 0.0, note: Some("unicode 标注 ✓".into()), tags: vec![], attrs: BTreeMap::new(), embedding: embed([0.0, 0.0, 1.0, 0.0]) },
    ];
    v.into_iter().map(|d| (d._id, d)).collect()
}

#[derive(Clone, Debug, Serialize, Deserialize, PartialEq)]
pub enum LOp {
    Add { k: u8 },
    SetAge { id: u64, age: u8 },
    Remove { id: u64 },
    Flush,
    /// db.close + connect + open (clean)
    Reconnect,
}

#[derive(Clone, Debug, Serialize, Deserialize)]
pub struct LegacyCase {
    pub seed: u64,
    pub fixture: String,
    pub ops: Vec<LOp>,
    pub clock: ClockMode,
    pub only_fork: Option<usize>,
}

pub fn generate(case_seed: u64, _idx: u64, _tier: Tier) -> LegacyCase {
    let mut rng = Rng::stream(case_seed, "legacy");
    let n = rng.range(2, 7);
    let mut next = 4u64;
    let mut ops = Vec::new();
    for _ in 0..n {
        let id = rng.range(1, next);
        ops.push(match rng.weighted(&[30, 25, 15, 22, 8]) {
            0 => {
                next += 1;
                LOp::Add { k: rng.below(4) as u8 }
            }
            1 => LOp::SetAge { id, age: *rng.pick(&[10u8, 20, 30, 40]) },
            2 => LOp::Remove { id },
            3 => LOp::Flush,
            _ => LOp::Reconnect,
        });
    }
    if !ops.contains(&LOp::Flush) {
        let at = rng.range(1, ops.len() as u64) as usize;
        ops.insert(at, LOp::Flush);
    }
    LegacyCase {
        seed: case_seed,
        fixture: if rng.chance(2, 3) { "v0_8".into() } else { "v0_11".into() },
        ops,
        clock: match rng.below(3) {
            0 => ClockMode::Frozen,
            1 => ClockMode::Tick(2),
            _ => ClockMode::Jumpy(5000),
        },
        only_fork: None,
    }
}

fn collect_files(dir: &std::path::Path, base: &std::path::Path, out: &mut Vec<(String, Vec<u8>)>) -> std::io::Result<()> {
    let mut entries: Vec<_> = std::fs::read_dir(dir)?.collect::<Result<_, _>>()?;
    entries.sort_by_key(|e| e.path());
    for entry in entries {
        let path = entry.path();
        if path.is_dir() {
            collect_files(&path, base, out)?;
        } else {
            let rel = path.strip_prefix(base).unwrap().components().map(|c| c.as_os_str().to_string_lossy()).collect::<Vec<_>>().join("/");
            out.push((rel, std::fs::read(&path)?));
        }
    }
    Ok(())
}

fn load_fixture(name: &str) -> Result<InMemory, Violation> {
    let dir = std::path::PathBuf::from(FIXTURES_ROOT).join(name);
    let mut files = Vec::new();
    collect_files(&dir, &dir, &mut files).map_err(|e| violation!("harness.fixture", "cannot read fixture {}: {e}", dir.display()))?;
    if files.is_empty() {
        return Err(violation!("harness.fixture", "fixture {} is empty", dir.display()));
    }
    let disk = InMemory::new();
    for (p, b) in files {
        block(disk.put(&ObjPath::from(p), Bytes::from(b).into())).map_err(|e| violation!("harness.fixture", "seeding failed: {e}"))?;
    }
    Ok(disk)
}

fn db_config() -> DBConfig {
    DBConfig { name: "fixturedb".to_string(), description: "format compatibility fixture".to_string(), storage: StorageConfig::default(), lock: None }
}

async fn open_docs(db: &AndaDB) -> Result<Arc<Collection>, DBError> {
    db.open_or_create_collection(
        FixtureDoc::schema()?,
        CollectionConfig { name: "docs".to_string(), description: "format compatibility docs".to_string() },
        async |c| {
            c.create_btree_index_nx(&["age"]).await?;
            c.create_bm25_index_nx(&["body"]).await?;
            c.create_hnsw_index_nx("embedding", HnswConfig { dimension: 4, ..Default::default() }).await?;
            Ok(())
        },
    )
    .await
}

async fn boot(store: &SimStore) -> Result<(AndaDB, Arc<Collection>), DBError> {
    let db = AndaDB::connect(Arc::new(store.clone()) as Arc<dyn ObjectStore>, db_config()).await?;
    let c = open_docs(&db).await?;
    Ok((db, c))
}

fn new_doc(k: u8, serial: u64) -> FixtureDoc {
    let words = ["delta joins the crowd", "epsilon writes after the upgrade", "zeta is small", "eta remembers"];
    FixtureDoc {
        _id: 0,
        name: format!("new{serial}"),
        body: words[k as usize % words.len()].to_string(),
        age: 40 + k as u64,
        active: k % 2 == 0,
        rating: k as f64,
        note: None,
        tags: vec!["new".into()],
        attrs: BTreeMap::new(),
        embedding: embed([0.0, 0.0, 0.0, 1.0 + k as f32]),
    }
}

type Docs = BTreeMap<u64, FixtureDoc>;

/// Full verification of an opened collection against one of the allowed states.
async fn verify(db: &AndaDB, c: &Collection, allowed: &[&Docs], ctx: &str) -> Result<usize, Violation> {
    let mut got: Docs = BTreeMap::new();
    let max_id = allowed.iter().flat_map(|m| m.keys().copied()).max().unwrap_or(3) + 2;
    for id in 1..=max_id {
        match c.get_as::<FixtureDoc>(id).await {
            Ok(d) => {
                got.insert(id, d);
            }
            Err(DBError::NotFound { .. }) => {}
            Err(e) => return Err(violation!("c01.undecodable-document", "{ctx}: document {id} cannot be read: {e:?}")),
        }
    }
    let Some(which) = allowed.iter().position(|m| **m == got) else {
        return Err(violation!(
            "c01.acked-lost",
            "{ctx}: stored documents {:?} match neither the state before the interrupted call nor after it ({:?})",
            got.iter().map(|(k, d)| (*k, d.age, d.name.clone())).collect::<Vec<_>>(),
            allowed.iter().map(|m| m.iter().map(|(k, d)| (*k, d.age, d.name.clone())).collect::<Vec<_>>()).collect::<Vec<_>>()
        ));
    };
    let want = allowed[which];
    if c.len() != want.len() {
        return Err(violation!("c02.len-mismatch", "{ctx}: len() = {}, stored documents = {}", c.len(), want.len()));
    }
    // B-tree
    for age in [10u64, 20, 30, 40, 41, 42, 43] {
        let ids = c.search_ids(Query { filter: Some(Filter::Field(("age".to_string(), RangeQuery::Eq(Fv::U64(age))))), ..Default::default() }).await.map_err(|e| violation!("c02.query-error", "{ctx}: age query failed: {e:?}"))?;
        let mut ids = ids;
        ids.sort();
        let exp: Vec<u64> = want.values().filter(|d| d.age == age).map(|d| d._id).collect();
        if ids != exp {
            return Err(violation!("c02.btree-mismatch", "{ctx}: age == {age} returns {ids:?}, the stored documents say {exp:?}"));
        }
    }
    // BM25
    for w in ["bm25", "alpha", "vectors", "upgrade", "crowd", "small", "remembers"] {
        let mut ids = c.search_ids(Query { search: Some(Search { text: Some(w.to_string()), ..Default::default() }), ..Default::default() }).await.map_err(|e| violation!("c02.query-error", "{ctx}: text query failed: {e:?}"))?;
        ids.sort();
        let exp: Vec<u64> = want.values().filter(|d| d.body.split(' ').any(|x| x == w)).map(|d| d._id).collect();
        if ids != exp {
            return Err(violation!("c02.bm25-mismatch", "{ctx}: search({w}) returns {ids:?}, the stored documents say {exp:?}"));
        }
    }
    // HNSW: only live ids, all of them for a large k
    let ids = c.search_ids(Query { search: Some(Search { vector: Some(vec![0.1, 0.9, 0.1, 0.3]), ..Default::default() }), limit: Some(want.len() + 3), ..Default::default() }).await.map_err(|e| violation!("c02.query-error", "{ctx}: vector query failed: {e:?}"))?;
    let mut sorted = ids.clone();
    sorted.sort();
    sorted.dedup();
    if sorted.len() != ids.len() || ids.iter().any(|id| !want.contains_key(id)) || ids.len() != want.len() {
        return Err(violation!("c02.hnsw-mismatch", "{ctx}: vector search returns {ids:?}, live documents are {:?}", want.keys().collect::<Vec<_>>()));
    }
    // extensions written by the old version survive
    if c.get_extension("format_marker") != Some(Fv::Text("anda-db-fixture".to_string())) {
        return Err(violation!("c01.extension-lost", "{ctx}: the collection extension written by the old version is {:?}", c.get_extension("format_marker")));
    }
    if db.get_extension("format_marker") != Some(Fv::U64(1)) {
        return Err(violation!("c01.extension-lost", "{ctx}: the database extension written by the old version is {:?}", db.get_extension("format_marker")));
    }
    Ok(which)
}

pub fn run(case: &LegacyCase, rep: &mut RunReport) -> Result<(), Violation> {
    let mut cfg = SimConfig::simple(case.seed);
    cfg.park = false;
    cfg.clock = case.clock.clone();
    cfg.record_trace = false;
    // the fixtures were written in the past
    cfg.start_ms = 1_790_000_000_000;
    let sim = Sim::new(&cfg);
    sim.install_clock_here();
    let store = SimStore::new(sim.clone(), load_fixture(&case.fixture)?);
    store.set_record_forks(true);
    store.set_marker(0);
    let (mut db, mut c) = block(boot(&store)).map_err(|e| violation!("c01.reopen-failed", "the {} fixture no longer opens: {e:?}", case.fixture))?;
    let mut model = fixture_docs();
    block(verify(&db, &c, &[&model], "right after the first open of the fixture"))?;
    // states[i] = documents after i completed operations; floor[i] = highest id handed out so far
    let mut states: Vec<Docs> = vec![model.clone()];
    let mut serial = 0u64;
    // flushed[i] = ids a successful flush (the old version's included) had
    // acknowledged after i completed operations
    let mut flushed_now: std::collections::BTreeSet<u64> = [1u64, 2, 3].into_iter().collect();
    let mut flushed: Vec<std::collections::BTreeSet<u64>> = vec![flushed_now.clone()];
    for (i, op) in case.ops.iter().enumerate() {
        store.set_marker(i as u64 + 1);
        let ctx = format!("op#{i} {op:?} on the {} fixture", case.fixture);
        match op {
            LOp::Add { k } => {
                serial += 1;
                let mut d = new_doc(*k, serial);
                let id = block(c.add_from(&d)).map_err(|e| violation!("seq.unexpected-error", "{ctx}: add failed: {e:?}"))?;
                if model.contains_key(&id) || flushed_now.contains(&id) {
                    return Err(violation!("c01.id-reuse", "{ctx}: add returned id {id}, which is live or was acknowledged by a flush for another document"));
                }
                d._id = id;
                model.insert(id, d);
            }
            LOp::SetAge { id, age } => {
                let r = block(c.update(*id, BTreeMap::from([("age".to_string(), Fv::U64(*age as u64))])));
                match (model.get_mut(id), r) {
                    (Some(d), Ok(_)) => d.age = *age as u64,
                    (None, Err(_)) => {}
                    (m, r) => return Err(violation!("seq.unexpected-result", "{ctx}: present={}, update returned {:?}", m.is_some(), r.map(|_| ()))),
                }
            }
            LOp::Remove { id } => {
                let r = block(c.remove(*id));
                match (model.remove(id), r) {
                    (Some(_), Ok(Some(_))) | (None, Ok(None)) | (None, Err(DBError::NotFound { .. })) => {}
                    (m, r) => return Err(violation!("seq.unexpected-result", "{ctx}: present={}, remove returned {:?}", m.is_some(), r.map(|d| d.is_some()))),
                }
            }
            LOp::Flush => {
                block(c.flush(anda_db::unix_ms())).map_err(|e| violation!("seq.unexpected-error", "{ctx}: flush failed: {e:?}"))?;
                flushed_now.extend(model.keys().copied());
                rep.probe("flushes_over_an_old_layout", 1);
            }
            LOp::Reconnect => {
                block(db.close()).map_err(|e| violation!("seq.unexpected-error", "{ctx}: close failed: {e:?}"))?;
                drop(c);
                drop(db);
                let (d2, c2) = block(boot(&store)).map_err(|e| violation!("c01.reopen-failed", "{ctx}: reconnect failed: {e:?}"))?;
                db = d2;
                c = c2;
            }
        }
        flushed.push(flushed_now.clone());
        states.push(model.clone());
        block(verify(&db, &c, &[&model], &format!("after {ctx}")))?;
    }
    store.set_record_forks(false);
    let forks = store.take_forks();
    let end_clock = sim.clock().now_ms();
    rep.merge_fired(&sim.fired());
    rep.steps += sim.calls();
    let mut evals = 1u64;
    let mut sigs = Vec::new();
    let mut check_fork = |disk: InMemory, clock_ms: i64, k: usize, in_flight: bool, ctx: &str, rep: &mut RunReport| -> Result<(), Violation> {
        let mut cfg2 = SimConfig::simple(case.seed ^ 0x1E6);
        cfg2.park = false;
        cfg2.record_trace = false;
        cfg2.start_ms = clock_ms + 5;
        let sim2 = Sim::new(&cfg2);
        sim2.install_clock_here();
        let st2 = SimStore::new(sim2, disk);
        let (db2, c2) = block(boot(&st2)).map_err(|e| violation!("c01.reopen-failed", "{ctx}: reopen failed: {e:?}"))?;
        let mut allowed: Vec<&Docs> = vec![&states[k]];
        if in_flight && k + 1 < states.len() {
            allowed.push(&states[k + 1]);
        }
        let which = block(verify(&db2, &c2, &allowed, ctx))?;
        // the reopened database accepts and persists new writes, with a fresh id
        let id = block(c2.add_from(&new_doc(3, 900))).map_err(|e| violation!("c01.no-new-writes", "{ctx}: add after recovery failed: {e:?}"))?;
        if allowed[which].contains_key(&id) || flushed[k].contains(&id) {
            return Err(violation!("c01.id-reuse", "{ctx}: the first add after recovery received id {id} (live ids {:?}, ids acknowledged by a flush {:?})", allowed[which].keys().collect::<Vec<_>>(), flushed[k]));
        }
        block(c2.flush(anda_db::unix_ms())).map_err(|e| violation!("c01.no-new-writes", "{ctx}: flush after recovery failed: {e:?}"))?;
        // ...and a second clean restart sees the same documents plus the new one
        block(db2.close()).map_err(|e| violation!("c01.no-new-writes", "{ctx}: close after recovery failed: {e:?}"))?;
        drop(c2);
        drop(db2);
        let (db3, c3) = block(boot(&st2)).map_err(|e| violation!("c01.reopen-failed", "{ctx}: second reopen failed: {e:?}"))?;
        let mut with_new = allowed[which].clone();
        let mut nd = new_doc(3, 900);
        nd._id = id;
        with_new.insert(id, nd);
        block(verify(&db3, &c3, &[&with_new], &format!("{ctx}; after one more add, flush and a clean restart")))?;
        rep.probe("recovered_states_verified", 1);
        rep.fire("power_loss", 1);
        Ok(())
    };
    for (fi, f) in forks.into_iter().enumerate() {
        if let Some(only) = case.only_fork {
            if only != fi {
                continue;
            }
        }
        let k = (f.marker as usize).saturating_sub(1);
        let ctx = format!(
            "{} fixture, crash before backend mutation #{} ({} {}) {}",
            case.fixture,
            f.mutations_before,
            f.next_kind.short(),
            f.next_path,
            if f.marker == 0 { "inside the first open".to_string() } else { format!("inside op#{k} {:?}", case.ops[k]) }
        );
        if f.marker == 0 {
            rep.probe("crash_inside_first_open_of_old_layout", 1);
        }
        sigs.push(SimStore::disk_signature(&f.disk) ^ simcore::rng::mix(k as u64));
        check_fork(f.disk, f.clock_ms, k, f.marker != 0, &ctx, rep)?;
        evals += 1;
    }
    if case.only_fork.is_none() {
        check_fork(store.disk().fork(), end_clock, case.ops.len(), false, &format!("{} fixture, crash after the last backend mutation", case.fixture), rep)?;
        evals += 1;
    }
    sim.install_clock_here();
    rep.evaluations = evals;
    rep.nontrivial_sigs = sigs;
    rep.trace_hash = sim.full_signature();
    rep.probe(&format!("fixture_{}", case.fixture), 1);
    rep.sample = Some(serde_json::json!({"fixture": case.fixture, "ops": case.ops.iter().map(|o| format!("{o:?}")).collect::<Vec<_>>(), "evaluations": evals}));
    Ok(())
}

pub fn shrink(case: &LegacyCase) -> Vec<LegacyCase> {
    let mut out = Vec::new();
    for i in (0..case.ops.len()).rev() {
        let mut c = case.clone();
        c.ops.remove(i);
        out.push(c);
    }
    out
}
