//! The simulated world of H-db: document type, knobs, the backend stack, boot,
//! client operations, the sequential reference model and the full observation
//! used by the C02 cross-invariant.

use anda_db::collection::{Collection, CollectionConfig};
use anda_db::database::{AndaDB, DBConfig};
use anda_db::error::DBError;
use anda_db::index::HnswConfig;
use anda_db::query::{Filter, RangeQuery};
use anda_db::schema::{AndaDBSchema, Fv, Vector, bf16};
use anda_db::storage::StorageConfig;
use anda_object_store::{EncryptedStoreBuilder, MetaStoreBuilder};
use object_store::ObjectStore;
use serde::{Deserialize, Serialize};
use simcore::batch::Violation;
use simcore::rng::Rng;
use simcore::{SimStore, violation};
use std::collections::{BTreeMap, BTreeSet};
use std::sync::Arc;

pub const DB_NAME: &str = "simdb";
pub const COLL: &str = "docs";
pub const SECRET: [u8; 32] = [7u8; 32];

#[derive(Debug, Clone, Serialize, Deserialize, PartialEq, AndaDBSchema)]
pub struct SimDoc {
    pub _id: u64,
    #[unique]
    pub name: String,
    pub age: u64,
    pub score: Option<i64>,
    pub tags: Vec<String>,
    /// unique ARRAY field: no two live documents share an element
    #[unique]
    pub codes: Vec<String>,
    pub body: String,
    pub embedding: Vector,
}

pub const WORDS: [&str; 14] = [
    "zulu", "kilo", "lima", "tango", "delta", "bravo", "alpha", "sigma", "omega", "gamma", "radar", "pixel", "lotus", "mango",
];
pub const TAGS: [&str; 3] = ["red", "green", "blue"];

#[derive(Clone, Copy, Debug, PartialEq, Eq, Serialize, Deserialize)]
pub enum StackKind {
    Bare,
    Meta,
    Enc(u64),
}

/// Which indexes exist (bitmask).
pub const IX_NAME: u8 = 1; // unique scalar
pub const IX_AGE: u8 = 2;
pub const IX_SCORE: u8 = 4; // optional i64
pub const IX_TAGS: u8 = 8; // array
pub const IX_AGE_SCORE: u8 = 16; // composite, unique
pub const IX_BODY: u8 = 32; // bm25
pub const IX_VEC: u8 = 64; // hnsw
pub const IX_CODES: u8 = 128; // array, unique
pub const IX_ALL: u8 = 255;

#[derive(Clone, Debug, Serialize, Deserialize, PartialEq)]
pub struct Knobs {
    pub stack: StackKind,
    pub indexes: u8,
    pub cache: u64,
    pub compress: i32,
    pub bucket: usize,
    pub small_object: usize,
}

impl Knobs {
    pub fn generate(rng: &mut Rng) -> Knobs {
        Knobs {
            stack: match rng.below(4) {
                0 | 1 => StackKind::Bare,
                2 => StackKind::Meta,
                _ => StackKind::Enc(*rng.pick(&[16u64, 64, 65536])),
            },
            indexes: if rng.chance(1, 2) { IX_ALL } else { (rng.below(256) as u8) | IX_NAME },
            cache: if rng.chance(1, 3) { 0 } else { 10000 },
            compress: if rng.bool() { 0 } else { 3 },
            bucket: *rng.pick(&[64usize, 256, 1024, 1024 * 1024]),
            small_object: 2000 * 1024,
        }
    }
    pub fn simple() -> Knobs {
        Knobs { stack: StackKind::Bare, indexes: IX_ALL, cache: 10000, compress: 0, bucket: 1024 * 1024, small_object: 2000 * 1024 }
    }
    pub fn db_config(&self) -> DBConfig {
        DBConfig {
            name: DB_NAME.to_string(),
            description: "andasim".to_string(),
            storage: StorageConfig {
                cache_max_capacity: self.cache,
                compress_level: self.compress,
                bucket_overload_size: self.bucket,
                max_small_object_size: self.small_object,
                ..Default::default()
            },
            lock: None,
        }
    }
}

pub fn build_stack(kind: StackKind, store: &SimStore) -> Arc<dyn ObjectStore> {
    match kind {
        StackKind::Bare => Arc::new(store.clone()),
        StackKind::Meta => Arc::new(MetaStoreBuilder::new(store.clone(), 10000).build()),
        StackKind::Enc(chunk) => Arc::new(
            EncryptedStoreBuilder::with_secret(store.clone(), 10000, SECRET)
                .with_chunk_size(chunk)
                .build(),
        ),
    }
}

pub async fn open_collection(db: &AndaDB, indexes: u8) -> Result<Arc<Collection>, DBError> {
    db.open_or_create_collection(
        SimDoc::schema()?,
        CollectionConfig { name: COLL.to_string(), description: "sim docs".to_string() },
        async |c| install_indexes(c, indexes).await,
    )
    .await
}

pub async fn install_indexes(c: &mut Collection, indexes: u8) -> Result<(), DBError> {
    if indexes & IX_NAME != 0 {
        c.create_btree_index_nx(&["name"]).await?;
    }
    if indexes & IX_AGE != 0 {
        c.create_btree_index_nx(&["age"]).await?;
    }
    if indexes & IX_SCORE != 0 {
        c.create_btree_index_nx(&["score"]).await?;
    }
    if indexes & IX_TAGS != 0 {
        c.create_btree_index_nx(&["tags"]).await?;
    }
    if indexes & IX_AGE_SCORE != 0 {
        c.create_btree_index_nx(&["age", "score"]).await?;
    }
    if indexes & IX_CODES != 0 {
        c.create_btree_index_nx(&["codes"]).await?;
    }
    if indexes & IX_BODY != 0 {
        c.create_bm25_index_nx(&["body"]).await?;
    }
    if indexes & IX_VEC != 0 {
        c.create_hnsw_index_nx("embedding", HnswConfig { dimension: 4, ..Default::default() }).await?;
    }
    Ok(())
}

pub async fn boot(store: &SimStore, knobs: &Knobs) -> Result<(AndaDB, Arc<Collection>), DBError> {
    let stack = build_stack(knobs.stack, store);
    let db = AndaDB::connect(stack, knobs.db_config()).await?;
    let c = open_collection(&db, knobs.indexes).await?;
    Ok((db, c))
}

// ---------------------------------------------------------------------------
// client operations

#[derive(Clone, Debug, Serialize, Deserialize, PartialEq)]
pub struct DocSpec {
    pub name: u8,
    pub age: u8,
    pub score: Option<i8>,
    pub tags: Vec<u8>,
    pub body: Vec<u8>,
    pub vec: [i8; 4],
    /// elements of the unique array field (distinct within one document)
    #[serde(default)]
    pub codes: Vec<u8>,
}

pub const CODES: u64 = 6;

pub fn gen_codes(rng: &mut Rng) -> Vec<u8> {
    let mut v: Vec<u8> = (0..rng.weighted(&[50, 30, 20])).map(|_| rng.below(CODES) as u8).collect();
    v.sort();
    v.dedup();
    v
}

pub fn codes_text(codes: &[u8]) -> Vec<String> {
    codes.iter().map(|c| format!("c{c}")).collect()
}

impl DocSpec {
    pub fn generate(rng: &mut Rng) -> DocSpec {
        DocSpec {
            name: rng.below(7) as u8,
            age: rng.below(4) as u8,
            score: if rng.chance(1, 4) { None } else { Some(rng.below(4) as i8 - 1) },
            tags: (0..rng.below(3)).map(|_| rng.below(TAGS.len() as u64) as u8).collect(),
            body: (0..rng.range(1, 4)).map(|_| rng.below(10) as u8).collect(),
            vec: [rng.below(9) as i8 - 4, rng.below(9) as i8 - 4, rng.below(9) as i8 - 4, rng.below(5) as i8],
            codes: gen_codes(rng),
        }
    }
    pub fn to_doc(&self, vocab: &[String]) -> SimDoc {
        SimDoc {
            _id: 0,
            name: format!("n{}", self.name),
            age: self.age as u64,
            score: self.score.map(|s| s as i64),
            tags: self.tags.iter().map(|t| TAGS[*t as usize % TAGS.len()].to_string()).collect(),
            codes: codes_text(&self.codes),
            body: body_text(&self.body, vocab),
            embedding: vec_of(&self.vec),
        }
    }
}

pub fn body_text(words: &[u8], vocab: &[String]) -> String {
    words.iter().map(|w| vocab[*w as usize % vocab.len()].as_str()).collect::<Vec<_>>().join(" ")
}
pub fn vec_of(v: &[i8; 4]) -> Vector {
    v.iter().map(|x| bf16::from_f32(*x as f32)).collect()
}

#[derive(Clone, Debug, Serialize, Deserialize, PartialEq)]
pub enum FieldUpd {
    Name(u8),
    Age(u8),
    Score(Option<i8>),
    Tags(Vec<u8>),
    Body(Vec<u8>),
    Vec([i8; 4]),
    Codes(Vec<u8>),
    /// schema violations
    UnknownField,
    WrongType,
}

#[derive(Clone, Debug, Serialize, Deserialize, PartialEq)]
pub enum DOp {
    Add(DocSpec),
    Update { id: u64, fields: Vec<FieldUpd> },
    Remove { id: u64 },
    Get { id: u64 },
    Flush,
    SaveExt { key: u8, val: u8 },
    RemoveExt { key: u8 },
    CompactBtree,
    CompactBm25,
    Reconcile,
    /// close_collection + open again (clean)
    Reopen,
    /// db.close + connect + open (clean)
    Reconnect,
    /// the synchronous, in-memory `set_extension` (persisted by the next flush);
    /// generated by the concurrent phases only
    SetExt { key: u8, val: u8 },
    /// close_collection, then open with a different index set: indexes leaving
    /// the set are removed, indexes entering it are created and backfilled
    /// (generated by the sequential phases only)
    Reindex { set: u8 },
}

/// The index set in effect after `op`, given the set before it. The name index
/// always stays; the unique composite index is never *added* over existing
/// documents (creating a unique index over duplicates legitimately fails).
pub fn indexes_after(cur: u8, op: &DOp) -> u8 {
    match op {
        DOp::Reindex { set } => (*set | IX_NAME) & !((IX_AGE_SCORE | IX_CODES) & !cur),
        _ => cur,
    }
}

/// The index set in effect once the first `upto` operations have run.
pub fn indexes_at(initial: u8, ops: &[DOp], upto: usize) -> u8 {
    ops.iter().take(upto).fold(initial, indexes_after)
}

pub async fn remove_indexes(c: &mut Collection, mask: u8) -> Result<(), DBError> {
    if mask & IX_AGE != 0 {
        c.remove_btree_index(&["age"]).await?;
    }
    if mask & IX_SCORE != 0 {
        c.remove_btree_index(&["score"]).await?;
    }
    if mask & IX_TAGS != 0 {
        c.remove_btree_index(&["tags"]).await?;
    }
    if mask & IX_AGE_SCORE != 0 {
        c.remove_btree_index(&["age", "score"]).await?;
    }
    if mask & IX_CODES != 0 {
        c.remove_btree_index(&["codes"]).await?;
    }
    if mask & IX_BODY != 0 {
        c.remove_bm25_index(&["body"]).await?;
    }
    if mask & IX_VEC != 0 {
        c.remove_hnsw_index("embedding").await?;
    }
    Ok(())
}

impl DOp {
    pub fn generate(rng: &mut Rng, max_id: u64) -> DOp {
        let id = |rng: &mut Rng| rng.range(1, max_id.max(1) + 1);
        match rng.weighted(&[30, 22, 10, 6, 12, 3, 2, 3, 2, 2, 4, 2]) {
            0 => DOp::Add(DocSpec::generate(rng)),
            1 => {
                let n = rng.range(1, 2);
                let fields = (0..n)
                    .map(|_| match rng.weighted(&[20, 20, 20, 12, 14, 10, 2, 2, 14]) {
                        0 => FieldUpd::Name(rng.below(7) as u8),
                        1 => FieldUpd::Age(rng.below(4) as u8),
                        2 => FieldUpd::Score(if rng.chance(1, 4) { None } else { Some(rng.below(4) as i8 - 1) }),
                        3 => FieldUpd::Tags((0..rng.below(3)).map(|_| rng.below(3) as u8).collect()),
                        4 => FieldUpd::Body((0..rng.range(1, 4)).map(|_| rng.below(10) as u8).collect()),
                        5 => FieldUpd::Vec([rng.below(9) as i8 - 4, rng.below(9) as i8 - 4, rng.below(9) as i8 - 4, rng.below(5) as i8]),
                        6 => FieldUpd::UnknownField,
                        7 => FieldUpd::WrongType,
                        _ => FieldUpd::Codes(gen_codes(rng)),
                    })
                    .collect();
                DOp::Update { id: id(rng), fields }
            }
            2 => DOp::Remove { id: id(rng) },
            3 => DOp::Get { id: id(rng) },
            4 => DOp::Flush,
            5 => DOp::SaveExt { key: rng.below(2) as u8, val: rng.below(200) as u8 },
            6 => DOp::RemoveExt { key: rng.below(2) as u8 },
            7 => DOp::CompactBtree,
            8 => DOp::CompactBm25,
            9 => DOp::Reconcile,
            10 => DOp::Reopen,
            _ => DOp::Reconnect,
        }
    }
    pub fn is_mutation_of_docs(&self) -> bool {
        matches!(self, DOp::Add(_) | DOp::Update { .. } | DOp::Remove { .. })
    }
}

// ---------------------------------------------------------------------------
// the sequential reference model

#[derive(Clone, Debug, PartialEq, Default)]
pub struct DocModel {
    pub docs: BTreeMap<u64, SimDoc>,
    pub ext: BTreeMap<String, u64>,
}

#[derive(Clone, Debug, PartialEq)]
pub enum Expect {
    /// add accepted (the id is the implementation's choice)
    AddOk(SimDoc),
    UpdateOk(SimDoc),
    RemoveOk(Option<SimDoc>),
    GetOk(SimDoc),
    Ok,
    Reject(&'static str),
}

pub fn composite_key(d: &SimDoc) -> (u64, Option<i64>) {
    (d.age, d.score)
}

impl DocModel {
    fn unique_conflict(&self, indexes: u8, d: &SimDoc, except: Option<u64>) -> Option<&'static str> {
        for (id, o) in &self.docs {
            if Some(*id) == except {
                continue;
            }
            if indexes & IX_NAME != 0 && o.name == d.name {
                return Some("unique-name");
            }
            if indexes & IX_AGE_SCORE != 0 && composite_key(o) == composite_key(d) {
                return Some("unique-composite");
            }
            if indexes & IX_CODES != 0 && d.codes.iter().any(|c| o.codes.contains(c)) {
                return Some("unique-codes");
            }
        }
        None
    }

    /// What the sequential semantics say `op` does in this state.
    pub fn expect(&self, op: &DOp, indexes: u8, vocab: &[String]) -> Expect {
        match op {
            DOp::Add(spec) => {
                let d = spec.to_doc(vocab);
                match self.unique_conflict(indexes, &d, None) {
                    Some(r) => Expect::Reject(r),
                    None => Expect::AddOk(d),
                }
            }
            DOp::Update { id, fields } => {
                let Some(cur) = self.docs.get(id) else { return Expect::Reject("missing-document") };
                if fields.is_empty() {
                    return Expect::Reject("no-fields");
                }
                let mut d = cur.clone();
                // the call takes a map: a later entry for the same field wins
                let mut last: BTreeMap<&'static str, &FieldUpd> = BTreeMap::new();
                for f in fields {
                    let k = match f {
                        FieldUpd::Name(_) => "name",
                        FieldUpd::Age(_) | FieldUpd::WrongType => "age",
                        FieldUpd::Score(_) => "score",
                        FieldUpd::Tags(_) => "tags",
                        FieldUpd::Body(_) => "body",
                        FieldUpd::Vec(_) => "embedding",
                        FieldUpd::Codes(_) => "codes",
                        FieldUpd::UnknownField => "no_such_field",
                    };
                    last.insert(k, f);
                }
                for f in last.values() {
                    match f {
                        FieldUpd::Name(n) => d.name = format!("n{n}"),
                        FieldUpd::Age(a) => d.age = *a as u64,
                        FieldUpd::Score(s) => d.score = s.map(|s| s as i64),
                        FieldUpd::Tags(t) => d.tags = t.iter().map(|t| TAGS[*t as usize % TAGS.len()].to_string()).collect(),
                        FieldUpd::Body(b) => d.body = body_text(b, vocab),
                        FieldUpd::Vec(v) => d.embedding = vec_of(v),
                        FieldUpd::Codes(c) => d.codes = codes_text(c),
                        FieldUpd::UnknownField => return Expect::Reject("unknown-field"),
                        FieldUpd::WrongType => return Expect::Reject("schema-violation"),
                    }
                }
                match self.unique_conflict(indexes, &d, Some(*id)) {
                    Some(r) => Expect::Reject(r),
                    None => Expect::UpdateOk(d),
                }
            }
            DOp::Remove { id } => Expect::RemoveOk(self.docs.get(id).cloned()),
            DOp::Get { id } => match self.docs.get(id) {
                Some(d) => Expect::GetOk(d.clone()),
                None => Expect::Reject("missing-document"),
            },
            _ => Expect::Ok,
        }
    }

    pub fn apply(&mut self, op: &DOp, expect: &Expect, new_id: Option<u64>) {
        match (op, expect) {
            (DOp::Add(_), Expect::AddOk(d)) => {
                let id = new_id.expect("add id");
                let mut d = d.clone();
                d._id = id;
                self.docs.insert(id, d);
            }
            (DOp::Update { id, .. }, Expect::UpdateOk(d)) => {
                self.docs.insert(*id, d.clone());
            }
            (DOp::Remove { id }, Expect::RemoveOk(_)) => {
                self.docs.remove(id);
            }
            (DOp::SaveExt { key, val }, Expect::Ok) | (DOp::SetExt { key, val }, Expect::Ok) => {
                self.ext.insert(format!("k{key}"), *val as u64);
            }
            (DOp::RemoveExt { key }, Expect::Ok) => {
                self.ext.remove(&format!("k{key}"));
            }
            _ => {}
        }
    }
}

pub fn update_fields(fields: &[FieldUpd], vocab: &[String]) -> BTreeMap<String, Fv> {
    let mut m = BTreeMap::new();
    for f in fields {
        match f {
            FieldUpd::Name(n) => {
                m.insert("name".to_string(), Fv::Text(format!("n{n}")));
            }
            FieldUpd::Age(a) => {
                m.insert("age".to_string(), Fv::U64(*a as u64));
            }
            FieldUpd::Score(s) => {
                m.insert("score".to_string(), match s { Some(s) => Fv::I64(*s as i64), None => Fv::Null });
            }
            FieldUpd::Tags(t) => {
                m.insert("tags".to_string(), Fv::Array(t.iter().map(|t| Fv::Text(TAGS[*t as usize % TAGS.len()].to_string())).collect()));
            }
            FieldUpd::Body(b) => {
                m.insert("body".to_string(), Fv::Text(body_text(b, vocab)));
            }
            FieldUpd::Vec(v) => {
                m.insert("embedding".to_string(), Fv::Vector(vec_of(v)));
            }
            FieldUpd::Codes(c) => {
                m.insert("codes".to_string(), Fv::Array(codes_text(c).into_iter().map(Fv::Text).collect()));
            }
            FieldUpd::UnknownField => {
                m.insert("no_such_field".to_string(), Fv::U64(1));
            }
            FieldUpd::WrongType => {
                m.insert("age".to_string(), Fv::Text("not a number".to_string()));
            }
        }
    }
    m
}

// ---------------------------------------------------------------------------
// observation (C02)

#[derive(Clone, Debug, PartialEq, Default)]
pub struct Obs {
    pub ids: Vec<u64>,
    pub len: usize,
    pub docs: BTreeMap<u64, SimDoc>,
    /// index name -> key (debug string) -> ids
    pub btree: BTreeMap<String, BTreeMap<String, Vec<u64>>>,
    pub bm25: BTreeMap<String, Vec<u64>>,
    pub hnsw_elems: Option<u64>,
    pub hnsw_hits: Vec<Vec<u64>>,
    pub ext: BTreeMap<String, u64>,
}

pub fn vocab_of(c: &Collection) -> Vec<String> {
    WORDS.iter().filter(|w| c.tokenize(w) == vec![w.to_string()]).map(|w| w.to_string()).collect()
}

fn fv_age(a: u64) -> Fv {
    Fv::U64(a)
}

/// Takes the complete observation of a collection and checks the C02
/// cross-invariant on it: ids == fetchable documents == len; every index
/// answers exactly from the stored documents.
pub async fn observe(c: &Collection, indexes: u8, vocab: &[String], probe_ids_upto: u64) -> Result<Obs, Violation> {
    let mut o = Obs::default();
    o.ids = c.ids();
    o.len = c.len();
    let idset: BTreeSet<u64> = o.ids.iter().copied().collect();
    if idset.len() != o.ids.len() {
        return Err(violation!("c02.ids-duplicate", "ids() contains duplicates: {:?}", o.ids));
    }
    if o.len != o.ids.len() {
        return Err(violation!("c02.len-mismatch", "len()={} but ids() has {} entries", o.len, o.ids.len()));
    }
    let upto = probe_ids_upto.max(o.ids.iter().copied().max().unwrap_or(0)) + 2;
    for id in 1..=upto {
        let listed = idset.contains(&id);
        if c.contains(id) != listed {
            return Err(violation!("c02.contains-mismatch", "contains({id})={} but ids() says {}", c.contains(id), listed));
        }
        match c.get_as::<SimDoc>(id).await {
            Ok(d) => {
                if !listed {
                    return Err(violation!("c02.fetchable-unlisted", "document {id} can be fetched but ids() does not report it"));
                }
                if d._id != id {
                    return Err(violation!("c02.doc-id", "get({id}) returned a document whose _id is {}", d._id));
                }
                o.docs.insert(id, d);
            }
            Err(DBError::NotFound { .. }) => {
                if listed {
                    return Err(violation!("c02.listed-unfetchable", "ids() reports {id} but get({id}) is NotFound"));
                }
            }
            Err(e) => {
                return Err(violation!("c02.get-error", "get({id}) failed: {e:?}"));
            }
        }
    }
    let stats = c.stats();
    if stats.num_documents != o.len as u64 {
        return Err(violation!("c02.count-mismatch", "stats().num_documents={} but len()={}", stats.num_documents, o.len));
    }
    // B-tree indexes
    let q = |name: &str, rq: RangeQuery<Fv>| {
        let f = Filter::Field((name.to_string(), rq));
        async move { c.query_all_ids(f).await }
    };
    let mut check_btree = |name: &str, key_dbg: String, got: Vec<u64>, want: Vec<u64>| -> Result<(), Violation> {
        let mut g = got.clone();
        g.sort();
        if g != got {
            return Err(violation!("c02.btree-order", "index {name} query {key_dbg} returned unsorted or duplicated ids {got:?}"));
        }
        if got != want {
            return Err(violation!(
                "c02.btree-mismatch",
                "index {name} query {key_dbg} returned {got:?} but the stored documents say {want:?}"
            ));
        }
        o.btree.entry(name.to_string()).or_default().insert(key_dbg, got);
        Ok(())
    };
    let docs = o.docs.clone();
    let ids_where = |p: &dyn Fn(&SimDoc) -> bool| -> Vec<u64> { docs.values().filter(|d| p(d)).map(|d| d._id).collect() };
    if indexes & IX_NAME != 0 {
        for n in 0..8u8 {
            let key = format!("n{n}");
            let got = q("name", RangeQuery::Eq(Fv::Text(key.clone()))).await.map_err(|e| violation!("c02.query-error", "name Eq failed: {e:?}"))?;
            check_btree("name", format!("Eq({key})"), got, ids_where(&|d| d.name == key))?;
        }
        let got = q("name", RangeQuery::Ge(Fv::Text("n3".into()))).await.map_err(|e| violation!("c02.query-error", "name Ge failed: {e:?}"))?;
        check_btree("name", "Ge(n3)".into(), got, ids_where(&|d| d.name.as_str() >= "n3"))?;
    }
    if indexes & IX_AGE != 0 {
        for a in 0..5u64 {
            let got = q("age", RangeQuery::Eq(fv_age(a))).await.map_err(|e| violation!("c02.query-error", "age Eq failed: {e:?}"))?;
            check_btree("age", format!("Eq({a})"), got, ids_where(&|d| d.age == a))?;
        }
        let got = q("age", RangeQuery::Between(fv_age(1), fv_age(2))).await.map_err(|e| violation!("c02.query-error", "age Between failed: {e:?}"))?;
        check_btree("age", "Between(1,2)".into(), got, ids_where(&|d| d.age >= 1 && d.age <= 2))?;
        let got = q("age", RangeQuery::Lt(fv_age(2))).await.map_err(|e| violation!("c02.query-error", "age Lt failed: {e:?}"))?;
        check_btree("age", "Lt(2)".into(), got, ids_where(&|d| d.age < 2))?;
        let got = q("age", RangeQuery::Not(Box::new(RangeQuery::Include(vec![])))).await.map_err(|e| violation!("c02.query-error", "age Not(Include[]) failed: {e:?}"))?;
        check_btree("age", "Not(Include[])".into(), got, ids_where(&|_| true))?;
    }
    if indexes & IX_SCORE != 0 {
        for s in -2..4i64 {
            let got = q("score", RangeQuery::Eq(Fv::I64(s))).await.map_err(|e| violation!("c02.query-error", "score Eq failed: {e:?}"))?;
            check_btree("score", format!("Eq({s})"), got, ids_where(&|d| d.score == Some(s)))?;
        }
        let got = q("score", RangeQuery::Ge(Fv::I64(0))).await.map_err(|e| violation!("c02.query-error", "score Ge failed: {e:?}"))?;
        check_btree("score", "Ge(0)".into(), got, ids_where(&|d| d.score.map(|s| s >= 0).unwrap_or(false)))?;
    }
    if indexes & IX_TAGS != 0 {
        for t in TAGS {
            let got = q("tags", RangeQuery::Eq(Fv::Text(t.to_string()))).await.map_err(|e| violation!("c02.query-error", "tags Eq failed: {e:?}"))?;
            check_btree("tags", format!("Eq({t})"), got, ids_where(&|d| d.tags.iter().any(|x| x == t)))?;
        }
    }
    if indexes & IX_AGE_SCORE != 0 {
        for a in 0..4u64 {
            for s in [None, Some(-1i64), Some(0), Some(1), Some(2)] {
                let sv = s.map(Fv::I64);
                let av = Fv::U64(a);
                let key = anda_db::index::virtual_field_value(&[Some(&av), sv.as_ref()]).unwrap();
                let got = q("age-score", RangeQuery::Eq(key)).await.map_err(|e| violation!("c02.query-error", "age-score Eq failed: {e:?}"))?;
                let want = ids_where(&|d| d.age == a && d.score == s);
                if want.len() > 1 {
                    return Err(violation!("c04.unique-composite-broken", "documents {want:?} share the composite key (age={a}, score={s:?})"));
                }
                check_btree("age-score", format!("Eq({a},{s:?})"), got, want)?;
            }
        }
    }
    if indexes & IX_CODES != 0 {
        for n in 0..CODES {
            let key = format!("c{n}");
            let got = q("codes", RangeQuery::Eq(Fv::Text(key.clone()))).await.map_err(|e| violation!("c02.query-error", "codes Eq failed: {e:?}"))?;
            let want = ids_where(&|d| d.codes.iter().any(|x| *x == key));
            if want.len() > 1 {
                return Err(violation!("c04.unique-codes-broken", "documents {want:?} all hold the element {key} of the unique array field"));
            }
            check_btree("codes", format!("Eq({key})"), got, want)?;
        }
    }
    // uniqueness over the stored documents themselves
    if indexes & IX_NAME != 0 {
        let mut seen: BTreeMap<&str, u64> = BTreeMap::new();
        for d in docs.values() {
            if let Some(prev) = seen.insert(d.name.as_str(), d._id) {
                return Err(violation!("c04.unique-name-broken", "documents {prev} and {} both hold the unique name {:?}", d._id, d.name));
            }
        }
    }
    // BM25
    if indexes & IX_BODY != 0 {
        let ix = c.get_bm25_index(&["body"]).map_err(|e| violation!("c02.index-missing", "bm25 index missing: {e:?}"))?;
        for w in vocab.iter().chain(["absentword".to_string(), "qqqq".to_string()].iter()) {
            let hits = ix.search(w, o.len + 8, None);
            let mut got: Vec<u64> = hits.iter().map(|(id, _)| *id).collect();
            let n = got.len();
            got.sort();
            got.dedup();
            if got.len() != n {
                return Err(violation!("c02.bm25-duplicate", "bm25 search({w}) returned duplicate ids"));
            }
            for (_, s) in &hits {
                if !s.is_finite() || *s < 0.0 {
                    return Err(violation!("c02.bm25-score", "bm25 search({w}) returned a non-finite or negative score"));
                }
            }
            let want = ids_where(&|d| d.body.split(' ').any(|x| x == w));
            if got != want {
                return Err(violation!("c02.bm25-mismatch", "bm25 search({w}) returned {got:?} but the stored documents containing it are {want:?}"));
            }
            o.bm25.insert(w.clone(), got);
        }
        let st = ix.stats();
        let _ = st;
    }
    // HNSW
    if indexes & IX_VEC != 0 {
        let ix = c.get_hnsw_index("embedding").map_err(|e| violation!("c02.index-missing", "hnsw index missing: {e:?}"))?;
        let n = ix.stats().num_elements;
        o.hnsw_elems = Some(n);
        if n != o.len as u64 {
            return Err(violation!("c02.hnsw-count", "hnsw index holds {n} entries but {} live documents carry a vector", o.len));
        }
        let mut queries: Vec<Vec<f32>> = vec![vec![0.0, 0.0, 0.0, 1.0], vec![4.0, -4.0, 2.0, 0.0]];
        for d in docs.values().take(3) {
            queries.push(d.embedding.iter().map(|x| x.to_f32()).collect());
        }
        for qv in queries {
            let hits = ix.search(&qv, o.len + 8);
            let mut got: Vec<u64> = hits.iter().map(|(id, _)| *id).collect();
            let n = got.len();
            let mut s = got.clone();
            s.sort();
            s.dedup();
            if s.len() != n {
                return Err(violation!("c02.hnsw-duplicate", "hnsw search returned duplicate ids {got:?}"));
            }
            for id in &got {
                if !docs.contains_key(id) {
                    return Err(violation!("c02.hnsw-phantom", "hnsw search returned id {id} which is not a live document"));
                }
            }
            got.sort();
            o.hnsw_hits.push(got);
        }
    }
    for k in 0..2 {
        if let Some(Fv::U64(v)) = c.get_extension(&format!("k{k}")) {
            o.ext.insert(format!("k{k}"), v);
        }
    }
    Ok(o)
}

/// Comparable projection of an observation for the "rejected write leaves no
/// trace" oracle (statistics counters and max id excluded).
pub fn obs_fingerprint(o: &Obs) -> String {
    format!("{:?}|{:?}|{:?}|{:?}|{:?}|{:?}|{:?}", o.ids, o.docs, o.btree, o.bm25, o.hnsw_elems, o.hnsw_hits, o.ext)
}
