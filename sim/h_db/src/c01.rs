//! Sequential H-db runs: crash-point sweeps (C01), single-fault runs with
//! unknown outcome (C01), the C02 cross-invariant at every quiescent point and
//! after every recovery, and the C04 "rejected write leaves no trace" oracle.

use serde::{Deserialize, Serialize};
use simcore::batch::{RunReport, Tier, Violation};
use simcore::rng::{Rng, Sig};
use simcore::{ClockMode, FaultKind, FaultSpec, Sim, SimConfig, SimStore, Site, violation};
use object_store::memory::InMemory;

use crate::seq::*;
use crate::world::*;

#[derive(Clone, Debug, Serialize, Deserialize, PartialEq)]
pub enum Recover {
    /// after an injected error the process restarts (handles dropped, fresh boot)
    Restart,
    /// keep going: reopen through the database only if the handle is poisoned
    Reopen,
}

#[derive(Clone, Debug, Serialize, Deserialize, PartialEq)]
pub enum SeqMode {
    /// fork the disk before every backend mutation and verify every fork;
    /// `nested_stride` n>0: also sweep the recovery of every n-th fork
    Sweep { nested_stride: u32 },
    /// one injected fault, then recovery and continuation
    Fault { fault: FaultSpec, recover: Recover },
    /// no fault at all (pure sequential conformance + invariants)
    Plain,
}

#[derive(Clone, Debug, Serialize, Deserialize)]
pub struct SeqCase {
    pub seed: u64,
    pub knobs: Knobs,
    pub ops: Vec<DOp>,
    pub clock: ClockMode,
    pub mode: SeqMode,
    pub reboot_delta: i64,
    /// take the full observation (C02) after every client operation
    pub observe_each: bool,
    /// restrict a sweep to one fork index (replay/shrinking aid)
    pub only_fork: Option<usize>,
    /// sweep only crash points inside operations with this index or later
    /// (long histories: the early part only builds the population)
    #[serde(default)]
    pub sweep_from: usize,
}

/// A long run of successful adds that carries the id allocator up to and just
/// across a multiple of its durable-watermark stride (64), then a short tail;
/// only the part around the boundary is crash-swept.
fn gen_ops_watermark(rng: &mut Rng) -> (Vec<DOp>, usize) {
    let m = if rng.chance(1, 4) { 2 } else { 1 };
    let k = (64 * m + m + rng.range(0, 5) - 3) as usize; // 62..=67 / 127..=132
    let mut ops = Vec::with_capacity(k + 4);
    for i in 0..k {
        let mut spec = DocSpec::generate(rng);
        spec.name = 10 + i as u8; // distinct: every add succeeds and owns its id
        spec.codes = vec![];
        ops.push(DOp::Add(spec));
    }
    if rng.bool() {
        let at = rng.range(1, k as u64 - 1) as usize;
        ops.insert(at, DOp::Flush);
    }
    let from = ops.len().saturating_sub(5);
    for _ in 0..rng.below(3) {
        ops.push(match rng.below(4) {
            0 => DOp::Flush,
            1 => DOp::Remove { id: k as u64 - rng.below(2) },
            2 => DOp::Reopen,
            _ => {
                let mut spec = DocSpec::generate(rng);
                spec.name = 200 + rng.below(20) as u8;
                spec.codes = vec![];
                DOp::Add(spec)
            }
        });
    }
    (ops, from)
}

pub fn gen_ops(rng: &mut Rng, n: usize, conflict_bias: bool) -> Vec<DOp> {
    let mut ops = Vec::new();
    let mut adds = 0u64;
    for _ in 0..n {
        let mut op = DOp::generate(rng, adds + 1);
        if conflict_bias {
            // narrow the value space so unique conflicts and hand-overs are frequent
            if let DOp::Add(spec) = &mut op {
                spec.name %= 3;
                spec.age %= 2;
            }
            if let DOp::Update { fields, .. } = &mut op {
                for f in fields.iter_mut() {
                    if let FieldUpd::Name(n) = f {
                        *n %= 3;
                    }
                }
            }
        }
        if matches!(op, DOp::Add(_)) {
            adds += 1;
        }
        ops.push(op);
    }
    if adds == 0 {
        ops.insert(0, DOp::Add(DocSpec::generate(rng)));
    }
    ops
}

/// `gen_ops` plus index-set changes over the populated collection.
pub fn gen_ops_reindex(rng: &mut Rng, n: usize, conflict_bias: bool) -> Vec<DOp> {
    let mut ops = gen_ops(rng, n, conflict_bias);
    if rng.chance(1, 4) {
        // flush-heavy regime: most mutations meet a fully checkpointed collection,
        // so watermark / dirty-tracking decisions of the *next* flush are exercised
        // one mutation at a time
        let mut v = Vec::with_capacity(ops.len() * 2);
        for op in ops {
            let mutation = matches!(op, DOp::Add(_) | DOp::Update { .. } | DOp::Remove { .. } | DOp::SaveExt { .. } | DOp::RemoveExt { .. });
            v.push(op);
            if mutation && rng.chance(2, 3) {
                v.push(DOp::Flush);
            }
        }
        ops = v;
    }
    // index create (+ backfill) / remove over a populated collection
    if rng.chance(2, 5) {
        let at = rng.range(1, ops.len() as u64) as usize;
        ops.insert(at, DOp::Reindex { set: rng.below(128) as u8 });
        if rng.chance(1, 3) {
            let at = rng.range(1, ops.len() as u64) as usize;
            ops.insert(at, DOp::Reindex { set: rng.below(128) as u8 });
        }
    }
    ops
}

pub fn generate_seq(case_seed: u64, idx: u64, tier: Tier, flavor: &str) -> SeqCase {
    let mut rng = Rng::stream(case_seed, "seq");
    let mut knobs = Knobs::generate(&mut rng);
    let n = match flavor {
        "c04" => rng.range(4, 14) as usize,
        _ => rng.range(3, if tier == Tier::Thorough { 14 } else { 10 }) as usize,
    };
    if flavor == "c04" {
        knobs.indexes |= IX_NAME | IX_AGE_SCORE | IX_TAGS | IX_CODES;
    }
    let bias = flavor == "c04" || rng.chance(1, 3);
    let ops = gen_ops_reindex(&mut rng, n, bias);
    let clock = match rng.below(4) {
        0 => ClockMode::Frozen,
        1 | 2 => ClockMode::Tick(2),
        _ => ClockMode::Jumpy(5000),
    };
    let mode = match (flavor, idx % 4) {
        ("c01", 0) | ("c01", 1) | ("c02", 0) | ("c04", 0) => SeqMode::Sweep { nested_stride: if idx % 8 == 0 { 3 } else { 0 } },
        ("c01", _) => {
            let site = match rng.below(5) {
                0 | 1 => Site::Mutation(rng.below(6 * n as u64 + 8)),
                2 | 3 => Site::Call(rng.below(12 * n as u64 + 20)),
                // aimed at one kind of object: the rarely written ones are hardly ever hit by position
                _ => Site::MutationOf { suffix: rng.pick(&["alloc_watermark.cbor", "ids.cbor", "meta.cbor", "storage_meta.cbor", "db_meta.cbor"]).to_string(), nth: rng.below(3) },
            };
            let kind = if rng.chance(2, 3) { FaultKind::FailAfter } else { FaultKind::FailBefore };
            SeqMode::Fault { fault: FaultSpec { site, kind }, recover: if rng.bool() { Recover::Restart } else { Recover::Reopen } }
        }
        _ => SeqMode::Plain,
    };
    let reboot_delta = *rng.pick(&[0i64, 1, 1000, -1000, 100_000]);
    let observe_each = flavor != "c01" || rng.chance(1, 4);
    if flavor == "c01" && matches!(mode, SeqMode::Sweep { .. }) && rng.chance(1, 12) {
        let (ops, sweep_from) = gen_ops_watermark(&mut rng);
        return SeqCase { seed: case_seed, knobs, ops, clock, mode: SeqMode::Sweep { nested_stride: 0 }, reboot_delta, observe_each: false, only_fork: None, sweep_from };
    }
    SeqCase { seed: case_seed, knobs, ops, clock, mode, reboot_delta, observe_each, only_fork: None, sweep_from: 0 }
}

/// Harness-owned observation: the fault plan is suspended while it runs.
fn observe_quiet(sim: &Sim, world: &World, knobs: &Knobs, max_id: u64) -> Result<Obs, Violation> {
    let saved = sim.take_faults();
    let _ = knobs;
    let r = block(observe(&world.coll, world.knobs.indexes, &world.vocab, max_id));
    sim.set_faults(saved);
    r
}

fn real_faults(sim: &Sim) -> u64 {
    sim.fired().iter().filter(|(k, _)| !k.starts_with("clock")).map(|(_, v)| *v).sum()
}

pub fn run_seq(case: &SeqCase, rep: &mut RunReport) -> Result<(), Violation> {
    let mut cfg = SimConfig::simple(case.seed);
    cfg.park = false;
    cfg.clock = case.clock.clone();
    cfg.record_trace = std::env::var("SIM_TRACE").is_ok();
    if let SeqMode::Fault { fault, .. } = &case.mode {
        cfg.faults = vec![fault.clone()];
    }
    let sim = Sim::new(&cfg);
    sim.install_clock_here();
    simcore::logprobe::begin();
    let disk = InMemory::new();
    let store = SimStore::new(sim.clone(), disk);
    let sweeping = matches!(case.mode, SeqMode::Sweep { .. });
    store.set_record_forks(sweeping);
    store.set_marker(0);
    let knobs = &case.knobs;

    // creation
    let mut world = match World::boot(&store, knobs) {
        Ok(w) => w,
        Err(e) => {
            if real_faults(&sim) > 0 {
                // the injected fault hit creation: a restart must get through,
                // possibly by the documented delete-and-recreate
                sim.clear_faults();
                let cc = CrashCheck { knobs, ledger: &new_ledger(), ops: &[], seed: case.seed, reboot_delta: 0 };
                let b = cc.boot_fork(store.disk().fork(), sim.clock().now_ms(), false, false, "restart after a fault inside creation")?;
                rep.merge_fired(&sim.fired());
                rep.evaluations = 1;
                rep.nontrivial_sigs.push(sim.signature());
                drop(b);
                merge_log_probes(rep);
                return Ok(());
            }
            return Err(violation!("seq.boot-failed", "fault-free creation failed: {e:?}"));
        }
    };
    if world.vocab.len() < 10 {
        return Err(violation!("harness.vocab", "tokenizer fixpoint vocabulary too small: {:?}", world.vocab));
    }
    let creation_mutations = store.applied_mutations();

    let mut model = DocModel::default();
    let mut ledger = new_ledger();
    let mut trace = Sig::default();
    let mut max_id = 0u64;
    // After an injected fault the run may keep using a handle that did not
    // poison itself (e.g. a failed save_extension): its version watermarks may
    // lag the backend, and the code's documented answer is that the next
    // checkpoint fails and poisons it. Until the handle is replaced, a failing
    // operation is judged like the faulted one (before-or-after, then recover),
    // not as a rejection of a valid call.
    let mut suspect = false;
    // ids handed out since the handle was last (re)loaded from storage
    let mut handed_this_boot: std::collections::BTreeSet<u64> = Default::default();
    // Extension keys whose DURABLE value differs from what the live handle
    // reports: a failed (unacknowledged) save/remove_extension changes the
    // handle's memory before it persists and neither rolls back nor poisons, so
    // until the next successful metadata write a reload from storage may
    // legitimately show the old value. Maps key -> durable value.
    let mut unsettled_ext: std::collections::BTreeMap<String, Option<u64>> = Default::default();
    // the index set in effect (DOp::Reindex changes it)
    let mut cur_ix = knobs.indexes;
    let with_ix = |ix: u8| {
        let mut k = knobs.clone();
        k.indexes = ix;
        k
    };
    for (i, op) in case.ops.iter().enumerate() {
        store.set_marker(i as u64 + 1);
        let exp = model.expect(op, cur_ix, &world.vocab);
        let before_obs = if case.observe_each && matches!(exp, Expect::Reject(_)) {
            Some(observe_quiet(&sim, &world, knobs, max_id).map_err(|mut v| {
                v.message = format!("before op#{i}: {}", v.message);
                v
            })?)
        } else {
            None
        };
        let f0 = real_faults(&sim);
        let mlog0 = sim.mut_log_len();
        if sweeping && case.sweep_from > 0 {
            store.set_record_forks(i >= case.sweep_from);
        }
        let out = block(world.exec(op));
        let faulted = real_faults(&sim) > f0;
        trace.add_str(&format!("{out:?}"));
        let mut new_id = None;
        let mut ok = !matches!(out, Outcome::Err { .. });
        let deferred = suspect && !ok && !faulted && !matches!(exp, Expect::Reject(_));
        if std::env::var("SIM_TRACE").is_ok() {
            eprintln!("op#{i} {op:?} -> {out:?} faulted={faulted} deferred={deferred} suspect={suspect} poisoned={} model.ext={:?}", world.coll.is_poisoned(), model.ext);
        }
        if deferred {
            rep.probe("deferred_failure_on_suspect_handle", 1);
        }
        if (faulted && !ok) || deferred {
            // the injected fault failed this op: recover, observe, collapse
            if faulted {
                rep.probe("op_failed_by_injected_fault", 1);
            }
            let SeqMode::Fault { recover, .. } = &case.mode else { unreachable!() };
            let poisoned = world.coll.is_poisoned();
            if poisoned {
                rep.probe("handle_poisoned_after_fault", 1);
            }
            sim.clear_faults();
            let need_restart = *recover == Recover::Restart || matches!(op, DOp::Reconnect) || (matches!(op, DOp::Reopen | DOp::Reindex { .. }) && !poisoned);
            suspect = !need_restart && !poisoned;
            if need_restart || poisoned {
                handed_this_boot.clear();
            }
            if need_restart {
                let s2 = world.store.clone();
                drop(world);
                world = World::boot(&s2, &with_ix(cur_ix)).map_err(|e| violation!("c01.reopen-failed", "restart after faulted op#{i} {op:?} failed: {e:?}"))?;
            } else if poisoned {
                let ix = cur_ix;
                let c = block(world.db.open_collection(COLL.to_string(), async |c| install_indexes(c, ix).await))
                    .map_err(|e| violation!("c01.reopen-failed", "open_collection after poisoned handle (op#{i} {op:?}) failed: {e:?}"))?;
                if c.is_poisoned() {
                    return Err(violation!("c06.poisoned-handle-returned", "open_collection returned a poisoned handle after op#{i}"));
                }
                world.coll = c;
            }
            let obs = observe_quiet(&sim, &world, knobs, max_id + 1).map_err(|mut v| {
                v.message = format!("after faulted op#{i} {op:?} ({}): {}", if need_restart { "restart" } else if poisoned { "reopen" } else { "same handle" }, v.message);
                v
            })?;
            if need_restart || poisoned {
                // loaded from storage: an unsettled key may show its durable value
                for (k, dv) in std::mem::take(&mut unsettled_ext) {
                    if obs.ext.get(&k) == dv.as_ref() {
                        match dv {
                            Some(v) => {
                                model.ext.insert(k, v);
                            }
                            None => {
                                model.ext.remove(&k);
                            }
                        }
                        rep.probe("unsettled_extension_showed_durable_value", 1);
                    }
                }
            }
            // possible worlds: before or after
            let mut after = model.clone();
            if let Expect::AddOk(_) = &exp {
                // the id the add would have received is whatever extra id shows up
                let extra: Vec<u64> = obs.docs.keys().filter(|k| !model.docs.contains_key(k)).copied().collect();
                if extra.len() > 1 {
                    return Err(violation!("c01.phantom-document", "after faulted op#{i} {op:?}: several unexpected documents {extra:?}"));
                }
                after.apply(op, &exp, Some(extra.first().copied().unwrap_or(u64::MAX)));
            } else {
                after.apply(op, &exp, None);
            }
            let tmp = Ledger { states: vec![model.clone(), after.clone()], flushed: vec![Default::default(); 2], handed: vec![Default::default(); 2] };
            let one = [op.clone()];
            let cc = CrashCheck { knobs, ledger: &tmp, ops: &one, seed: case.seed, reboot_delta: 0 };
            cc.check_ledger(&obs, 0, &format!("after faulted op#{i} {op:?} -> {out:?}")).map_err(|mut v| {
                if std::env::var("SIM_TRACE").is_ok() {
                    let t: Vec<String> = sim.trace().iter().map(|e| format!("#{} {:?} {} {}", e.seq, e.kind, e.path, e.verdict)).collect();
                    v.message = format!("{}\nbackend trace:\n{}", v.message, t.join("\n"));
                }
                v
            })?;
            // collapse
            if obs.docs == after.docs && obs.docs != model.docs {
                rep.probe("unknown_outcome_was_applied", 1);
            }
            model.docs = obs.docs.clone();
            model.ext = obs.ext.clone();
            max_id = max_id.max(obs.docs.keys().copied().max().unwrap_or(0));
            ok = false;
            if !need_restart && !poisoned {
                // same live handle: what does storage say? (throwaway process image on a fork)
                let tmp2 = Ledger { states: vec![model.clone()], flushed: vec![Default::default()], handed: vec![Default::default()] };
                let kx = with_ix(cur_ix);
                let cc2 = CrashCheck { knobs: &kx, ledger: &tmp2, ops: &[], seed: case.seed, reboot_delta: 0 };
                if let Ok(b) = cc2.boot_fork(store.disk().fork(), sim.clock().now_ms(), true, false, "durable view after a failed call on a live handle") {
                    if let Ok(d) = block(observe(&b.world.coll, b.world.knobs.indexes, &b.world.vocab, max_id + 1)) {
                        let keys: std::collections::BTreeSet<String> = d.ext.keys().chain(obs.ext.keys()).cloned().collect();
                        for k in keys {
                            if d.ext.get(&k) != obs.ext.get(&k) {
                                unsettled_ext.insert(k.clone(), d.ext.get(&k).copied());
                                rep.probe("live_handle_ahead_of_storage", 1);
                            }
                        }
                    }
                }
                sim.install_clock_here();
            }
            if matches!(op, DOp::Reindex { .. }) {
                // the application retries the interrupted index change; it must get through
                world.knobs.indexes = cur_ix;
                let out2 = block(world.exec(op));
                if matches!(out2, Outcome::Err { .. }) {
                    return Err(violation!("c01.reindex-retry-failed", "after faulted op#{i} {op:?} and recovery, the retried index change failed: {out2:?}"));
                }
                cur_ix = indexes_after(cur_ix, op);
                handed_this_boot.clear();
                suspect = false;
                rep.probe("faulted_reindex_retried", 1);
            }
        } else {
            check_outcome(i, op, &exp, &out)?;
            if let Outcome::AddOk(id) = &out {
                // distinct among the adds of one handle lifetime; never a live
                // document's id; never an id a successful flush acknowledged
                // (ids that no flush ever acknowledged may be reused after a restart)
                if handed_this_boot.contains(id) || model.docs.contains_key(id) {
                    return Err(violation!("c05.id-not-fresh", "op#{i}: add returned id {id} which this handle already handed out or which is live"));
                }
                if ledger.flushed.last().unwrap().contains(id) {
                    return Err(violation!("c01.id-reuse", "op#{i}: add returned id {id}, which a successful flush had acknowledged for another document"));
                }
                handed_this_boot.insert(*id);
                new_id = Some(*id);
                max_id = max_id.max(*id);
            }
            if ok && !unsettled_ext.is_empty() && sim.mut_log_since(mlog0).iter().any(|m| m.applied && m.path.ends_with(&format!("{COLL}/meta.cbor"))) {
                // a successful metadata write persists the handle's whole extension map
                unsettled_ext.clear();
            }
            if ok {
                model.apply(op, &exp, new_id);
                if matches!(op, DOp::Reopen | DOp::Reconnect | DOp::Reindex { .. }) {
                    handed_this_boot.clear();
                    suspect = false;
                }
                if matches!(op, DOp::Reindex { .. }) {
                    let new = indexes_after(cur_ix, op);
                    rep.probe("index_set_changes", 1);
                    if new & !cur_ix != 0 {
                        rep.probe("indexes_created_over_documents", (new & !cur_ix).count_ones() as u64);
                    }
                    if cur_ix & !new != 0 {
                        rep.probe("indexes_removed", (cur_ix & !new).count_ones() as u64);
                    }
                    cur_ix = new;
                }
            }
            if let Some(b) = before_obs {
                let after = observe_quiet(&sim, &world, knobs, max_id).map_err(|mut v| {
                    v.message = format!("after rejected op#{i} {op:?}: {}", v.message);
                    v
                })?;
                if obs_fingerprint(&after) != obs_fingerprint(&b) {
                    return Err(violation!(
                        "c04.rejected-write-left-trace",
                        "op#{i} {op:?} was rejected ({out:?}) but the observable state changed: before ids={:?} after ids={:?}",
                        b.ids,
                        after.ids
                    ));
                }
                rep.probe("rejected_write_no_trace_checked", 1);
            }
        }
        if case.observe_each {
            let obs = observe_quiet(&sim, &world, knobs, max_id).map_err(|mut v| {
                v.message = format!("after op#{i} {op:?}: {}", v.message);
                v
            })?;
            if obs.docs != model.docs {
                return Err(violation!("seq.state-mismatch", "after op#{i} {op:?}: stored documents {:?} differ from the sequential model {:?}", obs.docs, model.docs));
            }
            if obs.ext != model.ext {
                return Err(violation!("seq.ext-mismatch", "after op#{i} {op:?}: extensions {:?} differ from the model {:?}", obs.ext, model.ext));
            }
            rep.probe("quiescent_points_observed", 1);
        }
        ledger_push(&mut ledger, &model, op, ok, new_id);
    }
    // final quiescent observation
    sim.clear_faults();
    {
        let obs = observe_quiet(&sim, &world, knobs, max_id).map_err(|mut v| {
            v.message = format!("final: {}", v.message);
            v
        })?;
        if obs.docs != model.docs {
            return Err(violation!("seq.state-mismatch", "final: stored documents {:?} differ from the sequential model {:?}", obs.docs, model.docs));
        }
    }
    store.set_record_forks(false);
    let forks = store.take_forks();
    rep.merge_fired(&sim.fired());
    rep.steps += sim.calls();
    rep.sim_ms += sim.lock().sim_ms_covered;
    let end_clock = sim.clock().now_ms();
    rep.trace_hash = trace.0 ^ sim.full_signature();
    let mut evals = 1u64;
    let mut sigs: Vec<u64> = Vec::new();
    if let SeqMode::Sweep { nested_stride } = &case.mode {
        let nforks = forks.len();
        for (fi, f) in forks.into_iter().enumerate() {
            // the application reopens with the index set it wants once the
            // operation in flight (if it is an index change) is through
            let kf = with_ix(indexes_at(knobs.indexes, &case.ops, f.marker as usize));
            let cc = CrashCheck { knobs: &kf, ledger: &ledger, ops: &case.ops, seed: case.seed, reboot_delta: case.reboot_delta };
            if let Some(only) = case.only_fork {
                if only != fi {
                    continue;
                }
            }
            if case.sweep_from > 0 && (f.marker as usize) < case.sweep_from + 1 {
                continue;
            }
            let (k, creation_acked) = if f.marker == 0 { (0usize, false) } else { (f.marker as usize - 1, true) };
            let ctx = format!(
                "crash before backend mutation #{} ({} {}) {}",
                f.mutations_before,
                f.next_kind.short(),
                f.next_path,
                if f.marker == 0 { "inside creation".to_string() } else { format!("inside op#{k} {:?}", case.ops[k]) }
            );
            let nested = *nested_stride > 0 && fi % (*nested_stride as usize) == 0;
            sigs.push(SimStore::disk_signature(&f.disk) ^ simcore::rng::mix(k as u64));
            let mut b = cc.boot_fork(f.disk, f.clock_ms, creation_acked, nested, &ctx)?;
            rep.fire("power_loss", 1);
            classify_crash_point(&f.next_path, rep);
            let rf = std::mem::take(&mut b.recovery_forks);
            // power loss right after recovery completed, before anything else
            // is written: whatever recovery decided must itself be durable
            let post_recovery = if fi % 3 == 1 && !b.recreated { Some((b.world.store.disk().fork(), b.sim.clock().now_ms())) } else { None };
            let obs = cc.verify(&mut b, k, &ctx, rep)?;
            evals += 1;
            if let Some((disk, clock_ms)) = post_recovery {
                let pctx = format!("{ctx}; then crash again right after recovery completed");
                sigs.push(SimStore::disk_signature(&disk) ^ simcore::rng::mix(k as u64 + 2000));
                let mut b3 = cc.boot_fork(disk, clock_ms, creation_acked, false, &pctx)?;
                cc.verify(&mut b3, k, &pctx, rep)?;
                rep.fire("power_loss_after_recovery", 1);
                evals += 1;
            }
            if !b.recreated && fi % 3 == 0 {
                cc.verify_convergence(b, &obs, &ctx)?;
                rep.probe("convergence_checked", 1);
            }
            for (ni, nf) in rf.into_iter().enumerate() {
                let nctx = format!("{ctx}; then crash again before recovery mutation #{ni} ({} {})", nf.next_kind.short(), nf.next_path);
                sigs.push(SimStore::disk_signature(&nf.disk) ^ simcore::rng::mix(k as u64 + 1000));
                let mut b2 = cc.boot_fork(nf.disk, nf.clock_ms, creation_acked, false, &nctx)?;
                cc.verify(&mut b2, k, &nctx, rep)?;
                rep.fire("power_loss_during_recovery", 1);
                evals += 1;
            }
        }
        // crash after the last mutation (nothing in flight)
        if case.only_fork.is_none() {
            let kf = with_ix(cur_ix);
            let cc = CrashCheck { knobs: &kf, ledger: &ledger, ops: &case.ops, seed: case.seed, reboot_delta: case.reboot_delta };
            let ctx = "crash after the last backend mutation".to_string();
            let mut b = cc.boot_fork(store.disk().fork(), end_clock, true, false, &ctx)?;
            let obs = cc.verify(&mut b, case.ops.len(), &ctx, rep)?;
            cc.verify_convergence(b, &obs, &ctx)?;
            rep.fire("power_loss", 1);
            evals += 1;
        }
        let _ = nforks;
    } else {
        sigs.push(sim.signature() ^ trace.0);
        // power loss at the end of a single-fault run: everything acknowledged
        // since the fault - on a handle that stayed in service - must survive
        // like anything else (skipped while an unacknowledged extension write
        // may legitimately differ between handle and storage)
        if matches!(case.mode, SeqMode::Fault { .. }) && unsettled_ext.is_empty() && real_faults(&sim) > 0 {
            let kf = with_ix(cur_ix);
            let cc = CrashCheck { knobs: &kf, ledger: &ledger, ops: &case.ops, seed: case.seed, reboot_delta: case.reboot_delta };
            let ctx = "power loss at the end of a run that had met one injected fault".to_string();
            let mut b = cc.boot_fork(store.disk().fork(), end_clock, true, false, &ctx)?;
            cc.verify(&mut b, case.ops.len(), &ctx, rep)?;
            rep.fire("power_loss_after_fault_run", 1);
            evals += 1;
            sim.install_clock_here();
        }
    }
    let _ = creation_mutations;
    rep.evaluations = evals;
    rep.nontrivial_sigs = sigs;
    if case.sweep_from > 0 {
        rep.probe("allocation_watermark_boundary_histories", 1);
    }
    merge_log_probes(rep);
    rep.sample = Some(serde_json::json!({
        "knobs": format!("{:?}", case.knobs), "mode": format!("{:?}", case.mode), "clock": format!("{:?}", case.clock),
        "ops": case.ops.iter().map(|o| format!("{o:?}")).collect::<Vec<_>>(),
        "evaluations": evals,
    }));
    Ok(())
}

fn classify_crash_point(path: &str, rep: &mut RunReport) {
    let p = if path.contains("mutation_intents/") {
        "crash_at_mutation_intent"
    } else if path.ends_with("/meta.cbor") && path.contains(COLL) {
        "crash_at_collection_meta"
    } else if path.ends_with("ids.cbor") {
        "crash_at_ids"
    } else if path.ends_with("storage_meta.cbor") || path.contains("storage_meta") {
        "crash_at_storage_checkpoint"
    } else if path.contains("alloc_watermark") {
        "crash_at_alloc_watermark"
    } else if path.contains("/data/") {
        "crash_at_document_object"
    } else if path.contains("btree") || path.contains("bm25") || path.contains("hnsw") {
        "crash_at_index_object"
    } else if path.contains("db_meta") {
        "crash_at_db_meta"
    } else {
        "crash_at_other"
    };
    rep.probe(p, 1);
}

pub fn merge_log_probes(rep: &mut RunReport) {
    for (k, v) in simcore::logprobe::end() {
        let name = if k.contains("replay_mutation_intents|Replayed") {
            Some("log_intents_replayed")
        } else if k.contains("auto_repair_indexes|Auto-repaired") {
            Some("log_documents_auto_repaired")
        } else if k.contains("cancelled mid-flight") || k.contains("Mutating operation was cancelled") {
            Some("log_handle_poisoned_by_cancellation")
        } else if k.starts_with("error|") {
            Some("log_error_records")
        } else {
            None
        };
        if let Some(n) = name {
            rep.probe(n, v);
        }
    }
}

pub fn shrink_seq(case: &SeqCase) -> Vec<SeqCase> {
    let mut out = Vec::new();
    for i in (0..case.ops.len()).rev() {
        let mut c = case.clone();
        c.ops.remove(i);
        c.only_fork = None;
        out.push(c);
    }
    if case.knobs.indexes != IX_ALL && case.knobs.indexes != IX_NAME {
        let mut c = case.clone();
        c.knobs.indexes = IX_ALL;
        out.push(c);
    }
    for bit in [IX_VEC, IX_BODY, IX_CODES, IX_AGE_SCORE, IX_TAGS, IX_SCORE, IX_AGE] {
        if case.knobs.indexes & bit != 0 {
            let mut c = case.clone();
            c.knobs.indexes &= !bit;
            out.push(c);
        }
    }
    if case.knobs.stack != StackKind::Bare {
        let mut c = case.clone();
        c.knobs.stack = StackKind::Bare;
        out.push(c);
    }
    if case.knobs.bucket != 1024 * 1024 {
        let mut c = case.clone();
        c.knobs.bucket = 1024 * 1024;
        out.push(c);
    }
    if case.knobs.compress != 0 {
        let mut c = case.clone();
        c.knobs.compress = 0;
        out.push(c);
    }
    if case.clock != ClockMode::Tick(2) {
        let mut c = case.clone();
        c.clock = ClockMode::Tick(2);
        out.push(c);
    }
    if case.reboot_delta != 0 {
        let mut c = case.clone();
        c.reboot_delta = 0;
        out.push(c);
    }
    if let SeqMode::Sweep { nested_stride } = &case.mode {
        if *nested_stride != 0 {
            let mut c = case.clone();
            c.mode = SeqMode::Sweep { nested_stride: 0 };
            out.push(c);
        }
    }
    out
}
