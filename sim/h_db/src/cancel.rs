//! C06(b,c): cancellation sweep. For a generated prefix and a target mutating
//! API, the target's future is dropped at EVERY suspension point k (each
//! backend call and each lock wait is one). Oracle: the handle is poisoned
//! (then every call fails and writes nothing, and a reopen satisfies the
//! C01 ledger and the C02 invariant) or the observable state equals the state
//! before the call or after it. Lifecycle targets are judged by what the
//! statement can mean for them (see DESIGN.md C06).

use anda_db::database::AndaDB;
use anda_db::error::DBError;
use object_store::memory::InMemory;
use serde::{Deserialize, Serialize};
use simcore::batch::{RunReport, Tier, Violation};
use simcore::rng::{Rng, Sig};
use simcore::sim::cancel_at;
use simcore::{ClockMode, Sim, SimConfig, SimStore, violation};

use crate::c01::{gen_ops, merge_log_probes};
use crate::seq::*;
use crate::world::*;

#[derive(Clone, Debug, Serialize, Deserialize, PartialEq)]
pub enum Target {
    Doc(DOp),
    CollectionClose,
    CloseCollection,
    DeleteCollection,
    DbClose,
    /// clean close_collection, then open with this index set (index create/remove + backfill)
    OpenWithIndexes(u8),
}

/// A second task that runs while the target is cancelled: it starts after
/// `delay` scheduling points, so it is typically queued behind the in-flight
/// target (exclusive operations) when the cancellation poisons the handle.
#[derive(Clone, Debug, Serialize, Deserialize, PartialEq)]
pub struct Companion {
    pub what: CompanionOp,
    pub delay: u32,
}

#[derive(Clone, Debug, Serialize, Deserialize, PartialEq)]
pub enum CompanionOp {
    Flush,
    CollectionClose,
    CloseCollection,
    DbClose,
    /// a sibling add in flight on the same handle, and a third task that
    /// reopens the collection as soon as the cancellation has poisoned it
    SiblingAddReopen,
}

#[derive(Clone, Debug, Serialize, Deserialize)]
pub struct CancelCase {
    pub seed: u64,
    pub knobs: Knobs,
    pub prefix: Vec<DOp>,
    pub target: Target,
    /// None = sweep every k; Some(k) = only that suspension point
    pub k: Option<u64>,
    pub clock: ClockMode,
    /// only with `Target::Doc`
    #[serde(default)]
    pub companion: Option<Companion>,
}

pub fn generate_cancel(case_seed: u64, idx: u64, _tier: Tier) -> CancelCase {
    let mut rng = Rng::stream(case_seed, "cancel");
    let mut knobs = Knobs::generate(&mut rng);
    let n = rng.range(2, 6) as usize;
    let mut prefix = gen_ops(&mut rng, n, false);
    prefix.retain(|o| !matches!(o, DOp::Reconnect));
    let adds = prefix.iter().filter(|o| matches!(o, DOp::Add(_))).count() as u64;
    let id = rng.range(1, adds.max(1));
    let target = match idx % 14 {
        0 => Target::Doc(DOp::Add(DocSpec::generate(&mut rng))),
        1 | 2 => Target::Doc(DOp::Update {
            id,
            fields: vec![match rng.below(4) {
                0 => FieldUpd::Name(rng.below(7) as u8),
                1 => FieldUpd::Body(vec![rng.below(10) as u8, rng.below(10) as u8]),
                2 => FieldUpd::Tags(vec![rng.below(3) as u8]),
                _ => FieldUpd::Age(rng.below(4) as u8),
            }],
        }),
        3 => Target::Doc(DOp::Remove { id }),
        4 | 5 => Target::Doc(DOp::Flush),
        6 => Target::Doc(DOp::SaveExt { key: 0, val: rng.below(200) as u8 }),
        7 => Target::Doc(if rng.bool() { DOp::CompactBtree } else { DOp::CompactBm25 }),
        8 => Target::Doc(DOp::Reconcile),
        9 => Target::CollectionClose,
        10 => Target::CloseCollection,
        11 => Target::DeleteCollection,
        12 => Target::DbClose,
        _ => {
            let new_set = (rng.below(256) as u8) | IX_NAME;
            knobs.indexes = (rng.below(256) as u8) | IX_NAME;
            Target::OpenWithIndexes(new_set)
        }
    };
    if matches!(target, Target::Doc(DOp::RemoveExt { .. })) {
        prefix.push(DOp::SaveExt { key: 0, val: 1 });
    }
    let companion = if matches!(target, Target::Doc(DOp::Add(_) | DOp::Update { .. } | DOp::Remove { .. } | DOp::SaveExt { .. })) && rng.chance(1, 2) {
        Some(Companion {
            what: match rng.below(6) {
                0 => CompanionOp::Flush,
                1 => CompanionOp::CollectionClose,
                2 => CompanionOp::CloseCollection,
                3 => CompanionOp::DbClose,
                _ => CompanionOp::SiblingAddReopen,
            },
            delay: rng.range(1, 8) as u32,
        })
    } else {
        None
    };
    CancelCase {
        seed: case_seed,
        knobs,
        prefix,
        target,
        k: None,
        clock: match rng.below(3) {
            0 => ClockMode::Frozen,
            _ => ClockMode::Tick(2),
        },
        companion,
    }
}

struct Setup {
    sim: Sim,
    store: SimStore,
    world: World,
    model: DocModel,
    max_id: u64,
}

fn setup(case: &CancelCase) -> Result<Setup, Violation> {
    let mut cfg = SimConfig::simple(case.seed);
    cfg.park = false;
    cfg.clock = case.clock.clone();
    cfg.record_trace = false;
    if matches!(&case.companion, Some(c) if c.what == CompanionOp::SiblingAddReopen) && simcore::rng::derive(case.seed, "starve-sibling") % 2 == 0 {
        // keep the sibling (task 1) parked for as long as anybody else can move:
        // it is then still in flight when the reopen decides whether to wait for it
        cfg.schedule = simcore::Schedule::Seeded { seed: case.seed, policy: simcore::Policy::Starve(1) };
    }
    let sim = Sim::new(&cfg);
    sim.install_clock_here();
    let store = SimStore::new(sim.clone(), InMemory::new());
    store.set_response_delay(simcore::store::seeded_response_delay(case.seed));
    let mut world = World::boot(&store, &case.knobs).map_err(|e| violation!("cancel.boot-failed", "creation failed: {e:?}"))?;
    let mut model = DocModel::default();
    let mut max_id = 0;
    for (i, op) in case.prefix.iter().enumerate() {
        let exp = model.expect(op, case.knobs.indexes, &world.vocab);
        let out = block(world.exec(op));
        check_outcome(i, op, &exp, &out)?;
        let new_id = if let Outcome::AddOk(id) = &out { Some(*id) } else { None };
        if let Some(id) = new_id {
            max_id = max_id.max(id);
        }
        if !matches!(out, Outcome::Err { .. }) {
            model.apply(op, &exp, new_id);
        }
    }
    Ok(Setup { sim, store, world, model, max_id })
}

fn prefix_writes(sim: &Sim, mark: usize) -> Vec<String> {
    let p = format!("{DB_NAME}/{COLL}/");
    sim.mut_log_since(mark).into_iter().filter(|m| m.applied && m.path.contains(&p)).map(|m| format!("{} {}", m.kind.short(), m.path)).collect()
}

/// Every API on a poisoned / retired handle fails and writes nothing.
fn check_dead_handle(s: &Setup, why: &str, ctx: &str) -> Result<(), Violation> {
    let c = s.world.coll.clone();
    let mark = s.sim.mut_log_len();
    c.set_read_only(false);
    let spec = DocSpec { name: 6, age: 3, score: Some(2), tags: vec![], body: vec![2], vec: [0, 1, 0, 1], codes: vec![] };
    let r1 = block(c.add_from(&spec.to_doc(&s.world.vocab)));
    let r2 = block(c.flush(anda_db::unix_ms()));
    let r3 = block(c.save_extension("k1".into(), anda_db::schema::Fv::U64(9)));
    let r4 = block(c.remove(1));
    let r5 = block(c.update(1, update_fields(&[FieldUpd::Age(1)], &s.world.vocab)));
    if r1.is_ok() || r2.is_ok() || r3.is_ok() || r4.is_ok() || r5.is_ok() {
        return Err(violation!(
            "c06.dead-handle-accepted",
            "{ctx}: the handle is {why} yet a call succeeded (add={:?} flush={:?} save_extension={:?} remove={:?} update={:?})",
            r1.is_ok(), r2.is_ok(), r3.is_ok(), r4.is_ok(), r5.is_ok()
        ));
    }
    let w = prefix_writes(&s.sim, mark);
    if !w.is_empty() {
        return Err(violation!("c06.dead-handle-wrote", "{ctx}: the handle is {why} yet calls on it wrote {:?}", w));
    }
    Ok(())
}

fn ledger_of(before: &DocModel, after: &DocModel) -> Ledger {
    Ledger { states: vec![before.clone(), after.clone()], flushed: vec![Default::default(); 2], handed: vec![Default::default(); 2] }
}

/// One cancellation at suspension point k. Ok(true) = the target completed
/// before reaching k (sweep finished).
fn run_one(case: &CancelCase, k: u64, rep: &mut RunReport, sig: &mut Sig) -> Result<bool, Violation> {
    let mut s = setup(case)?;
    let knobs = case.knobs.clone();
    let vocab = s.world.vocab.clone();
    let before = s.model.clone();
    let ctx = format!("{:?} cancelled at suspension point {k}", case.target);
    s.sim.set_park(true);
    let log_mark = s.sim.mut_log_len();
    match &case.target {
        Target::Doc(op) => {
            let exp = before.expect(op, knobs.indexes, &vocab);
            let coll = s.world.coll.clone();
            let mut w2 = World { store: s.store.clone(), knobs: knobs.clone(), db: s.world.db.clone(), coll: coll.clone(), vocab: vocab.clone() };
            // (cancel instant, companion [first-call lower bound, returned ok])
            let cancel_seq: std::cell::Cell<Option<u64>> = std::cell::Cell::new(None);
            let comp_result: std::cell::RefCell<Option<(u64, Result<(), String>)>> = std::cell::RefCell::new(None);
            let r = match &case.companion {
                None => s.sim.run1(cancel_at(async { w2.exec(op).await }, k)).map_err(|o| violation!("c06.liveness", "{ctx}: scheduler outcome {o:?}"))?,
                Some(comp) if comp.what == CompanionOp::SiblingAddReopen => {
                    let slot: std::cell::RefCell<Option<Result<Outcome, u64>>> = std::cell::RefCell::new(None);
                    let sib: std::cell::RefCell<Option<Result<u64, String>>> = std::cell::RefCell::new(None);
                    let reopened: std::cell::RefCell<Option<(u64, std::sync::Arc<anda_db::collection::Collection>, bool)>> = std::cell::RefCell::new(None);
                    let (sim2, sim3, sim4) = (s.sim.clone(), s.sim.clone(), s.sim.clone());
                    let db = s.world.db.clone();
                    let (c3, c4) = (coll.clone(), coll.clone());
                    let (slot_r, cancel_r, sib_r, reopened_r) = (&slot, &cancel_seq, &sib, &reopened);
                    let w2r = &mut w2;
                    let sib_doc = DocSpec { name: 201, age: 9, score: Some(9), tags: vec![1], body: vec![3], vec: [1, 0, 1, 0], codes: vec![] }.to_doc(&vocab);
                    let ix = knobs.indexes;
                    // starved variant (see `setup`): the sibling starts at once, is admitted
                    // and parks at its first storage call, and stays there while anybody
                    // else can move
                    let delay = if simcore::rng::derive(case.seed, "starve-sibling") % 2 == 0 { 0 } else { comp.delay };
                    let victim: simcore::sim::LocalTask = Box::pin(async move {
                        let r = cancel_at(async { w2r.exec(op).await }, k).await;
                        if r.is_err() {
                            cancel_r.set(Some(sim2.tick()));
                        }
                        *slot_r.borrow_mut() = Some(r);
                    });
                    let sibling: simcore::sim::LocalTask = Box::pin(async move {
                        for _ in 0..delay {
                            sim3.yield_now().await;
                        }
                        let r = c3.add_from(&sib_doc).await.map_err(|e| format!("{e:?}"));
                        *sib_r.borrow_mut() = Some(r);
                    });
                    let reopener: simcore::sim::LocalTask = Box::pin(async move {
                        for _ in 0..400 {
                            if c4.is_poisoned() {
                                break;
                            }
                            if slot_r.borrow().is_some() {
                                return; // the victim finished without poisoning anything
                            }
                            sim4.yield_now().await;
                        }
                        if !c4.is_poisoned() {
                            return;
                        }
                        let sibling_pending_before = sib_r.borrow().is_none();
                        if let Ok(c) = db.open_collection(COLL.to_string(), async |c| install_indexes(c, ix).await).await {
                            *reopened_r.borrow_mut() = Some((sim4.tick(), c, sibling_pending_before && sib_r.borrow().is_none()));
                        }
                    });
                    let out = s.sim.run(vec![victim, sibling, reopener]);
                    if out != simcore::sim::Outcome::Done {
                        return Err(violation!("c06.liveness", "{ctx} with a sibling add and a reopen: scheduler outcome {out:?}"));
                    }
                    s.sim.set_park(false);
                    let r = slot.borrow_mut().take().expect("victim result");
                    if let (Err(_), Some((reopen_seq, c2, sibling_pending_before))) = (&r, reopened.borrow_mut().take()) {
                        rep.fire("cancellation", 1);
                        rep.probe("reopened_after_poison_with_sibling_task", 1);
                        if sibling_pending_before {
                            // (with the drain in place this cannot happen: the reopen waits)
                            rep.probe("sibling_add_still_in_flight_when_reopen_returned", 1);
                        }
                        match sib.borrow().as_ref() {
                            Some(Ok(_)) => rep.probe("sibling_add_acknowledged", 1),
                            _ => rep.probe("sibling_add_refused", 1),
                        }
                        sig.add(k);
                        let p = format!("{DB_NAME}/{COLL}/");
                        let late: Vec<String> = s.sim.mut_log_since(log_mark).into_iter().filter(|m| m.task == 1 && m.seq > reopen_seq && m.applied && m.path.contains(&p)).map(|m| format!("{} {}", m.kind.short(), m.path)).collect();
                        if std::env::var("SIM_TRACE").is_ok() && sibling_pending_before {
                            let all: Vec<String> = s.sim.mut_log_since(log_mark).into_iter().map(|m| format!("seq{} t{} {} {} applied={}", m.seq, m.task, m.kind.short(), m.path, m.applied)).collect();
                            eprintln!("DEBUG reopen_seq={reopen_seq} sib={:?} log={all:?}", sib.borrow());
                        }
                        if !late.is_empty() {
                            return Err(violation!(
                                "c06.retired-handle-wrote-after-reopen",
                                "{ctx}: open_collection had returned a fresh handle, then the sibling add still in flight on the retired (poisoned) handle wrote {:?}",
                                &late[..late.len().min(3)]
                            ));
                        }
                        let obs = block(observe(&c2, knobs.indexes, &vocab, s.max_id + 3)).map_err(|mut v| {
                            v.message = format!("{ctx} with a sibling add (fresh handle): {}", v.message);
                            v
                        })?;
                        if let Some(Ok(id)) = sib.borrow().as_ref() {
                            if !obs.docs.contains_key(id) {
                                return Err(violation!("c06.acked-lost-across-reopen", "{ctx}: the sibling add was acknowledged with id {id} on the retired handle, but the handle open_collection returned does not contain it (ids {:?})", obs.docs.keys()));
                            }
                        }
                        let next = DocSpec { name: 200, age: 8, score: Some(8), tags: vec![], body: vec![4], vec: [0, 1, 1, 0], codes: vec![] }.to_doc(&vocab);
                        block(c2.add_from(&next)).map_err(|e| violation!("c06.fresh-handle-broken", "{ctx}: the next add on the handle open_collection returned failed: {e:?}"))?;
                        return Ok(false);
                    }
                    s.sim.set_park(true);
                    r
                }
                Some(comp) => {
                    let slot: std::cell::RefCell<Option<Result<Outcome, u64>>> = std::cell::RefCell::new(None);
                    let sim2 = s.sim.clone();
                    let sim3 = s.sim.clone();
                    let db = s.world.db.clone();
                    let c3 = coll.clone();
                    let (slot_r, cancel_r, comp_r) = (&slot, &cancel_seq, &comp_result);
                    let w2r = &mut w2;
                    let victim: simcore::sim::LocalTask = Box::pin(async move {
                        let r = cancel_at(async { w2r.exec(op).await }, k).await;
                        if r.is_err() {
                            cancel_r.set(Some(sim2.tick()));
                        }
                        *slot_r.borrow_mut() = Some(r);
                    });
                    let comp = comp.clone();
                    let companion: simcore::sim::LocalTask = Box::pin(async move {
                        for _ in 0..comp.delay {
                            sim3.yield_now().await;
                        }
                        let started = sim3.tick();
                        let r = match comp.what {
                            CompanionOp::Flush => c3.flush(anda_db::unix_ms()).await.map(|_| ()),
                            CompanionOp::CollectionClose => c3.close().await,
                            CompanionOp::CloseCollection => db.close_collection(COLL).await,
                            CompanionOp::DbClose => db.close().await,
                            CompanionOp::SiblingAddReopen => Ok(()),
                        };
                        *comp_r.borrow_mut() = Some((started, r.map_err(|e| format!("{e:?}"))));
                    });
                    let out = s.sim.run(vec![victim, companion]);
                    if out != simcore::sim::Outcome::Done {
                        return Err(violation!("c06.liveness", "{ctx} with {:?}: scheduler outcome {out:?}", case.companion));
                    }
                    slot.borrow_mut().take().expect("victim result")
                }
            };
            s.sim.set_park(false);
            let out = match r {
                Ok(out) => {
                    // completed: must match the model (sanity) and ends the sweep
                    check_outcome(0, op, &exp, &out)?;
                    return Ok(true);
                }
                Err(_) => (),
            };
            let _ = out;
            rep.fire("cancellation", 1);
            sig.add(k);
            let mut after = before.clone();
            // possible after-state (add id = whatever extra id shows up)
            let poisoned = coll.is_poisoned();
            if let (Some(cseq), Some(comp), Some((started, cres))) = (cancel_seq.get(), &case.companion, comp_result.borrow().clone()) {
                rep.probe("cancellation_with_companion", 1);
                if poisoned {
                    // the companion is task 1; whatever it applied under the collection
                    // prefix after the cancellation was written through a poisoned handle
                    // (an exclusive operation cannot have held the gate while the victim,
                    // which poisoned the handle from inside the gate, was in flight)
                    let p = format!("{DB_NAME}/{COLL}/");
                    let wrote: Vec<String> = s.sim.mut_log_since(log_mark).into_iter().filter(|m| m.task == 1 && m.seq > cseq && m.applied && m.path.contains(&p)).map(|m| format!("{} {}", m.kind.short(), m.path)).collect();
                    rep.probe("companion_ran_after_poison", (started > cseq || !wrote.is_empty() || cres.is_err()) as u64);
                    if !wrote.is_empty() {
                        return Err(violation!(
                            "c06.poisoned-handle-wrote",
                            "{ctx}: the handle was poisoned by the cancellation, yet the concurrent {:?} (returned {cres:?}) then wrote {} objects through it, e.g. {:?}",
                            comp.what,
                            wrote.len(),
                            &wrote[..wrote.len().min(3)]
                        ));
                    }
                }
            }
            if case.companion.is_some() {
                // the companion may have closed the collection or the database:
                // judge the retained handle, then look at the state through a
                // fresh process image
                if poisoned {
                    rep.probe("poisoned_by_cancellation", 1);
                    check_dead_handle(&s, "poisoned", &ctx)?;
                }
                let st = s.store.clone();
                let w = World::boot(&st, &knobs).map_err(|e| violation!("c06.reopen-failed", "{ctx} with {:?}: restart failed: {e:?}", case.companion))?;
                s.world = w;
                let obs = block(observe(&s.world.coll, knobs.indexes, &vocab, s.max_id + 1)).map_err(|mut v| {
                    v.message = format!("{ctx} with {:?} (restarted): {}", case.companion, v.message);
                    v
                })?;
                let new_id = obs.docs.keys().find(|id| !before.docs.contains_key(id)).copied();
                after.apply(op, &exp, new_id.or(Some(u64::MAX)));
                let one = [op.clone()];
                let l = ledger_of(&before, &after);
                let cc = CrashCheck { knobs: &knobs, ledger: &l, ops: &one, seed: case.seed, reboot_delta: 0 };
                cc.check_ledger(&obs, 0, &ctx)?;
                return Ok(false);
            }
            if poisoned {
                rep.probe("poisoned_by_cancellation", 1);
                check_dead_handle(&s, "poisoned", &ctx)?;
                let ix = knobs.indexes;
                let c2 = block(s.world.db.open_collection(COLL.to_string(), async |c| install_indexes(c, ix).await))
                    .map_err(|e| violation!("c06.reopen-failed", "{ctx}: open_collection after poison failed: {e:?}"))?;
                if c2.is_poisoned() || std::sync::Arc::ptr_eq(&c2, &coll) {
                    return Err(violation!("c06.poisoned-handle-returned", "{ctx}: open_collection returned the poisoned handle"));
                }
                s.world.coll = c2;
            } else {
                rep.probe("not_poisoned_after_cancellation", 1);
            }
            let obs = block(observe(&s.world.coll, knobs.indexes, &vocab, s.max_id + 1)).map_err(|mut v| {
                v.message = format!("{ctx} ({}): {}", if poisoned { "reopened" } else { "same handle" }, v.message);
                v
            })?;
            let new_id = obs.docs.keys().find(|id| !before.docs.contains_key(id)).copied();
            after.apply(op, &exp, new_id.or(Some(u64::MAX)));
            let one = [op.clone()];
            let l = ledger_of(&before, &after);
            let cc = CrashCheck { knobs: &knobs, ledger: &l, ops: &one, seed: case.seed, reboot_delta: 0 };
            cc.check_ledger(&obs, 0, &ctx)?;
            if !poisoned {
                // no partial effect: exactly before or exactly after
                if obs.docs != before.docs && obs.docs != after.docs {
                    return Err(violation!("c06.partial-effect", "{ctx}: handle not poisoned but the documents are neither the state before nor after the call"));
                }
                // and a clean reopen agrees
                block(s.world.db.close_collection(COLL)).map_err(|e| violation!("c06.reopen-failed", "{ctx}: close_collection on the unpoisoned handle failed: {e:?}"))?;
                let c3 = block(open_collection(&s.world.db, knobs.indexes)).map_err(|e| violation!("c06.reopen-failed", "{ctx}: reopen failed: {e:?}"))?;
                let obs3 = block(observe(&c3, knobs.indexes, &vocab, s.max_id + 1)).map_err(|mut v| {
                    v.message = format!("{ctx} (after clean reopen): {}", v.message);
                    v
                })?;
                if obs3.docs != obs.docs {
                    return Err(violation!("c06.partial-effect", "{ctx}: a clean reopen observes different documents than the live handle did"));
                }
            }
        }
        Target::CollectionClose | Target::CloseCollection | Target::DbClose => {
            let coll = s.world.coll.clone();
            let db = s.world.db.clone();
            let tgt = case.target.clone();
            let r = s
                .sim
                .run1(cancel_at(
                    async {
                        match tgt {
                            Target::CollectionClose => coll.close().await,
                            Target::CloseCollection => db.close_collection(COLL).await,
                            _ => db.close().await,
                        }
                    },
                    k,
                ))
                .map_err(|o| violation!("c06.liveness", "{ctx}: scheduler outcome {o:?}"))?;
            s.sim.set_park(false);
            if let Ok(res) = r {
                res.map_err(|e| violation!("c06.transition-failed", "{ctx}: completed with error {e:?}"))?;
                return Ok(true);
            }
            rep.fire("cancellation", 1);
            sig.add(k);
            let _ = log_mark;
            // the handle must never write again…
            if coll.state() != anda_db::error::CollectionState::Active {
                check_dead_handle(&s, "closing/closed/poisoned after a cancelled close", &ctx)?;
                rep.probe("cancelled_close_left_retired_handle", 1);
            } else {
                rep.probe("cancelled_close_left_active_handle", 1);
            }
            // …and a subsequent open must finish retiring it and load a state
            // satisfying the ledger (nothing was in flight but the checkpoint)
            let c2 = if case.target == Target::DbClose {
                let st = s.store.clone();
                // a cancelled db.close: reconnect in a fresh process image
                drop(s.world);
                let w = World::boot(&st, &knobs).map_err(|e| violation!("c06.reopen-failed", "{ctx}: reconnect failed: {e:?}"))?;
                s.world = w;
                s.world.coll.clone()
            } else {
                if coll.state() == anda_db::error::CollectionState::Active {
                    coll
                } else {
                    let ix = knobs.indexes;
                    block(s.world.db.open_collection(COLL.to_string(), async |c| install_indexes(c, ix).await))
                        .map_err(|e| violation!("c06.reopen-failed", "{ctx}: open after a cancelled close failed: {e:?}"))?
                }
            };
            let obs = block(observe(&c2, knobs.indexes, &vocab, s.max_id + 1)).map_err(|mut v| {
                v.message = format!("{ctx} (reopened): {}", v.message);
                v
            })?;
            if obs.docs != before.docs {
                return Err(violation!("c06.close-lost-state", "{ctx}: after reopening, documents differ from the acknowledged state"));
            }
        }
        Target::DeleteCollection => {
            let db = s.world.db.clone();
            let r = s.sim.run1(cancel_at(async { db.delete_collection(COLL).await }, k)).map_err(|o| violation!("c06.liveness", "{ctx}: scheduler outcome {o:?}"))?;
            s.sim.set_park(false);
            if let Ok(res) = r {
                res.map_err(|e| violation!("c06.transition-failed", "{ctx}: completed with error {e:?}"))?;
                return Ok(true);
            }
            rep.fire("cancellation", 1);
            sig.add(k);
            // the retained handle rejects every call and writes nothing
            check_dead_handle(&s, "being deleted", &ctx)?;
            // the name must not open as a writable collection in the meantime
            match block(open_collection(&s.world.db, knobs.indexes)) {
                Ok(c) => {
                    if c.state() == anda_db::error::CollectionState::Active {
                        let mark = s.sim.mut_log_len();
                        let r = block(c.add_from(&DocSpec { name: 5, age: 1, score: None, tags: vec![], body: vec![1], vec: [0, 0, 1, 1], codes: vec![] }.to_doc(&vocab)));
                        if r.is_ok() && !prefix_writes(&s.sim, mark).is_empty() {
                            return Err(violation!("c06.delete-resurrected", "{ctx}: the half-deleted name opened as a writable collection"));
                        }
                    }
                }
                Err(_) => rep.probe("half_deleted_name_refused", 1),
            }
            // a retry completes, leaves nothing, and the name can be created again
            block(s.world.db.delete_collection(COLL)).map_err(|e| violation!("c06.delete-retry-failed", "{ctx}: retry of delete_collection failed: {e:?}"))?;
            let left = logical_objects_under_collection(&s.world.db).map_err(|e| violation!("c06.delete-left-objects", "{ctx}: listing the prefix failed: {e}"))?;
            if !left.is_empty() {
                return Err(violation!("c06.delete-left-objects", "{ctx}: after the retry {} objects remain, e.g. {}", left.len(), left[0]));
            }
            check_dead_handle(&s, "deleted", &ctx)?;
            let c = block(open_collection(&s.world.db, knobs.indexes)).map_err(|e| violation!("c06.recreate-failed", "{ctx}: recreating the deleted name failed: {e:?}"))?;
            if c.len() != 0 {
                return Err(violation!("c06.recreate-not-empty", "{ctx}: the recreated collection is not empty"));
            }
        }
        Target::OpenWithIndexes(new_set) => {
            s.sim.set_park(false);
            block(s.world.db.close_collection(COLL)).map_err(|e| violation!("cancel.setup", "close_collection failed: {e:?}"))?;
            s.sim.set_park(true);
            let db: AndaDB = s.world.db.clone();
            let cur = knobs.indexes;
            // indexes leaving the set are removed, indexes entering it are created and backfilled
            let ns = indexes_after(cur, &DOp::Reindex { set: *new_set });
            let reindex = async |db: &AndaDB| {
                db.open_or_create_collection(
                    SimDoc::schema().expect("schema"),
                    anda_db::collection::CollectionConfig { name: COLL.to_string(), description: "sim docs".to_string() },
                    async |c| {
                        remove_indexes(c, cur & !ns).await?;
                        install_indexes(c, ns).await
                    },
                )
                .await
            };
            let r = s.sim.run1(cancel_at(async { reindex(&db).await }, k)).map_err(|o| violation!("c06.liveness", "{ctx}: scheduler outcome {o:?}"))?;
            s.sim.set_park(false);
            if let Ok(res) = r {
                res.map_err(|e: DBError| violation!("c06.transition-failed", "{ctx}: open completed with error {e:?}"))?;
                return Ok(true);
            }
            rep.fire("cancellation", 1);
            sig.add(k);
            // nothing holds a handle; opening again must work and satisfy C01/C02
            let c2 = block(reindex(&s.world.db)).map_err(|e| violation!("c06.reopen-failed", "{ctx}: opening again after a cancelled open (index create/backfill) failed: {e:?}"))?;
            let obs = block(observe(&c2, ns | (knobs.indexes & 0), &vocab, s.max_id + 1)).map_err(|mut v| {
                v.message = format!("{ctx} (opened again): {}", v.message);
                v
            })?;
            if obs.docs != before.docs {
                return Err(violation!("c06.open-lost-state", "{ctx}: documents differ from the acknowledged state"));
            }
        }
    }
    Ok(false)
}

pub fn run_cancel(case: &CancelCase, rep: &mut RunReport) -> Result<(), Violation> {
    simcore::logprobe::begin();
    let mut sig = Sig::default();
    sig.add_str(&format!("{:?}", std::mem::discriminant(&case.target)));
    sig.add(case.seed);
    let mut evals = 0u64;
    let mut sigs = Vec::new();
    let ks: Vec<u64> = match case.k {
        Some(k) => vec![k],
        None => (0..400).collect(),
    };
    for k in ks {
        let mut s1 = sig.clone();
        let done = run_one(case, k, rep, &mut s1)?;
        if done {
            rep.probe("suspension_points_per_target", k);
            break;
        }
        evals += 1;
        sigs.push(s1.0);
    }
    rep.evaluations = evals.max(1);
    rep.nontrivial_sigs = sigs;
    rep.trace_hash = sig.0 ^ evals;
    merge_log_probes(rep);
    rep.sample = Some(serde_json::json!({
        "knobs": format!("{:?}", case.knobs),
        "prefix": case.prefix.iter().map(|o| format!("{o:?}")).collect::<Vec<_>>(),
        "target": format!("{:?}", case.target),
        "cancellation_points": evals,
    }));
    Ok(())
}

pub fn shrink_cancel(case: &CancelCase, failing_k: Option<u64>) -> Vec<CancelCase> {
    let mut out = Vec::new();
    if case.k.is_none() {
        if let Some(k) = failing_k {
            let mut c = case.clone();
            c.k = Some(k);
            out.push(c);
        }
    }
    for i in (0..case.prefix.len()).rev() {
        let mut c = case.clone();
        c.prefix.remove(i);
        out.push(c);
    }
    for bit in [IX_VEC, IX_BODY, IX_CODES, IX_AGE_SCORE, IX_TAGS, IX_SCORE, IX_AGE] {
        if case.knobs.indexes & bit != 0 {
            let mut c = case.clone();
            c.knobs.indexes &= !bit;
            out.push(c);
        }
    }
    if case.knobs.stack != StackKind::Bare {
        let mut c = case.clone();
        c.knobs.stack = StackKind::Bare;
        out.push(c);
    }
    out
}
