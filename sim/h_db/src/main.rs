//! H-db: AndaDB / Collection over the simulated disk (C01 C02 C04 C05 C06).
simcore::install_libc_seams!();

mod c01;
mod cancel;
mod conc;
mod legacy;
mod seq;
mod world;

use serde::{Deserialize, Serialize};
use simcore::batch::{CheckSpec, Harness, PhaseSpec, RunReport, Tier, Violation, parse_args, standard_main};
use std::sync::Arc;

const REAL: &[&str] = &[
    "anda_db::AndaDB / Collection / Storage (add, update, remove, flush, recovery, lifecycle)",
    "anda_db::index::{BTree, BM25, Hnsw} wrappers and anda_db_btree / anda_db_tfs / anda_db_hnsw",
    "anda_object_store::{MetaStore, EncryptedStore} when the run's backend stack includes them",
    "object_store::memory::InMemory (durable state behind SimStore)",
];
const STUB: &[&str] = &[
    "SimStore: parks/faults/forks every backend call",
    "wall clock (libc clock_gettime seam)",
    "entropy (libc getrandom seam)",
    "executor (simcore single-thread scheduler / block_on; no tokio runtime)",
];

#[derive(Clone, Debug, Serialize, Deserialize)]
pub enum Case {
    Seq(c01::SeqCase),
    Conc(conc::ConcCase),
    Cancel(cancel::CancelCase),
    Legacy(legacy::LegacyCase),
}

pub struct H {
    flavor: &'static str,
    conc: bool,
}
const CANCEL: &str = "cancel";
const LEGACY: &str = "legacy";

impl Harness for H {
    type Case = Case;
    fn generate(&self, case_seed: u64, idx: u64, tier: Tier) -> Case {
        if self.flavor == LEGACY {
            Case::Legacy(legacy::generate(case_seed, idx, tier))
        } else if self.flavor == CANCEL {
            Case::Cancel(cancel::generate_cancel(case_seed, idx, tier))
        } else if self.conc {
            Case::Conc(conc::generate_conc(case_seed, idx, tier, self.flavor))
        } else {
            Case::Seq(c01::generate_seq(case_seed, idx, tier, self.flavor))
        }
    }
    fn entropy_seed(&self, case: &Case) -> u64 {
        match case {
            Case::Seq(c) => simcore::rng::derive(c.seed, "entropy"),
            Case::Conc(c) => simcore::rng::derive(c.seed, "entropy"),
            Case::Cancel(c) => simcore::rng::derive(c.seed, "entropy"),
            Case::Legacy(c) => simcore::rng::derive(c.seed, "entropy"),
        }
    }
    fn execute(&self, case: &Case, rep: &mut RunReport) -> Result<(), Violation> {
        match case {
            Case::Seq(c) => c01::run_seq(c, rep),
            Case::Conc(c) => conc::run_conc(c, rep),
            Case::Cancel(c) => cancel::run_cancel(c, rep),
            Case::Legacy(c) => legacy::run(c, rep),
        }
    }
    fn shrink(&self, case: &Case) -> Vec<Case> {
        match case {
            Case::Seq(c) => c01::shrink_seq(c).into_iter().map(Case::Seq).collect(),
            Case::Conc(c) => conc::shrink_conc(c).into_iter().map(Case::Conc).collect(),
            Case::Legacy(c) => legacy::shrink(c).into_iter().map(Case::Legacy).collect(),
            Case::Cancel(c) => {
                // find the first failing k cheaply by re-running single points
                let mut failing = None;
                if c.k.is_none() {
                    for k in 0..400u64 {
                        let mut one = c.clone();
                        one.k = Some(k);
                        let mut rep = RunReport::default();
                        match cancel::run_cancel(&one, &mut rep) {
                            Err(_) => {
                                failing = Some(k);
                                break;
                            }
                            Ok(()) => {
                                if rep.fired.get("cancellation").copied().unwrap_or(0) == 0 {
                                    break;
                                }
                            }
                        }
                    }
                }
                cancel::shrink_cancel(c, failing).into_iter().map(Case::Cancel).collect()
            }
        }
    }
}

fn main() {
    let opts = parse_args();
    let code = match opts.property.as_str() {
        "C01" => standard_main(
            &opts,
            &CheckSpec {
                harness_name: "h_db",
                level: "fault_enumeration",
                rule: "one evaluation = one recovered crash state (disk fork before a backend mutation of a generated workload, nested forks of the recovery itself, or the final state) verified against the acknowledgement ledger, or one single-fault run (unknown outcome / fail-before at a sampled backend call); distinct = distinct (surviving disk signature, completed-op count) of crash states plus distinct fault-run signatures",
                real: REAL,
                stub: STUB,
                assumptions: &[
                    "backend puts are atomic (object_store contract); crash = disk state before a mutation, all memory lost",
                    "single writer process",
                    "moka TTL/TTI and parking_lot fairness timers never fire within a run",
                ],
                required_probes: &["recovered_states_verified", "crash_at_mutation_intent", "crash_at_collection_meta", "crash_at_ids", "crash_at_document_object", "crash_at_index_object", "log_intents_replayed", "log_documents_auto_repaired", "op_failed_by_injected_fault", "convergence_checked"],
                required_faults: &["power_loss", "power_loss_during_recovery", "fail_after_unknown_outcome"],
            },
            vec![
                (
                    PhaseSpec { label: "seq", quick_runs: 600, thorough_runs: 40000, quick_budget_s: 60.0, thorough_budget_s: 1200.0 },
                    Arc::new(H { flavor: "c01", conc: false }),
                ),
                (
                    // databases written by released versions (committed format fixtures)
                    PhaseSpec { label: "fixtures", quick_runs: 2000, thorough_runs: 60000, quick_budget_s: 40.0, thorough_budget_s: 400.0 },
                    Arc::new(H { flavor: LEGACY, conc: false }),
                ),
            ],
        ),
        "C02" => standard_main(
            &opts,
            &CheckSpec {
                harness_name: "h_db",
                level: "exploration",
                rule: "one evaluation = one state at which the full observation (ids, len, contains, get of every id, every B-tree Eq/range battery, every BM25 vocabulary term, HNSW count and searches) was taken and cross-checked: every quiescent point of a generated sequential history, every recovered crash state of the sweeps, and the quiescent end of concurrent runs; distinct = distinct (disk signature, op count) of recovered states + distinct run signatures",
                real: REAL,
                stub: STUB,
                assumptions: &[
                    "the stored documents (get of every id) are the ground truth; the model is consulted only by the separate state-mismatch oracle",
                    "the harness vocabulary is validated at start-up to be a fixpoint of the collection's tokenizer",
                ],
                required_probes: &["quiescent_points_observed", "recovered_states_verified", "log_documents_auto_repaired"],
                required_faults: &["power_loss"],
            },
            vec![
                (
                    PhaseSpec { label: "seq", quick_runs: 1500, thorough_runs: 60000, quick_budget_s: 45.0, thorough_budget_s: 900.0 },
                    Arc::new(H { flavor: "c02", conc: false }),
                ),
                (
                    PhaseSpec { label: "conc", quick_runs: 4000, thorough_runs: 200000, quick_budget_s: 30.0, thorough_budget_s: 400.0 },
                    Arc::new(H { flavor: "c05", conc: true }),
                ),
            ],
        ),
        "C04" => standard_main(
            &opts,
            &CheckSpec {
                harness_name: "h_db",
                level: "exploration",
                rule: "one evaluation = one run (conflict-biased sequential history with the full observation taken before and after every rejected write, crash sweeps of such histories, or 2-4 concurrent writers contending for one unique value under a seeded schedule); distinct = distinct run / crash-state signatures among runs with a rejected write, a crash, or overlapping backend calls",
                real: REAL,
                stub: STUB,
                assumptions: &["uniqueness is enforced through the unique B-tree index on the field / the multi-field index; configurations without that index make no uniqueness claim", "max_document_id and statistics counters are excluded from the no-trace comparison (a skipped id is permitted)"],
                required_probes: &["rejected_write_no_trace_checked", "runs_with_overlapping_calls"],
                required_faults: &["power_loss"],
            },
            vec![
                (
                    PhaseSpec { label: "seq", quick_runs: 1500, thorough_runs: 60000, quick_budget_s: 45.0, thorough_budget_s: 900.0 },
                    Arc::new(H { flavor: "c04", conc: false }),
                ),
                (
                    PhaseSpec { label: "conc", quick_runs: 6000, thorough_runs: 400000, quick_budget_s: 40.0, thorough_budget_s: 600.0 },
                    Arc::new(H { flavor: "c04", conc: true }),
                ),
            ],
        ),
        "C05" => standard_main(
            &opts,
            &CheckSpec {
                harness_name: "h_db",
                level: "exploration",
                rule: "one evaluation = one run of 2-4 client tasks (same-document and different-document mixes of add/update/remove/get/flush/save_extension after a sequential prefix) whose backend calls and lock waits are interleaved by the seeded scheduler; the history must be linearizable against the sequential collection model, the final observation must equal a linearization's final state, and a crash right after the calls returned must recover it; distinct = distinct schedule signatures among runs in which >=2 backend calls were parked at once",
                real: REAL,
                stub: STUB,
                assumptions: &["interleavings are at backend-call and lock-wait granularity on a single-threaded executor (no preemption inside synchronous index code; C10/C11 cover that)"],
                required_probes: &["runs_with_overlapping_calls", "lin_states_explored"],
                required_faults: &["power_loss"],
            },
            vec![(
                PhaseSpec { label: "conc", quick_runs: 12000, thorough_runs: 600000, quick_budget_s: 60.0, thorough_budget_s: 1200.0 },
                Arc::new(H { flavor: "c05", conc: true }),
            )],
        ),
        "C06" => standard_main(
            &opts,
            &CheckSpec {
                harness_name: "h_db",
                level: "fault_enumeration",
                rule: "cancel phase: one evaluation = one (prefix, target call, suspension point k) with the target future dropped at k, k enumerated completely per sampled (prefix, target); lifecycle phase: one evaluation = one run in which a lifecycle transition (close_collection, Collection::close, set_read_only on collection/database, delete_collection, db.close) races 1-3 queued or in-flight operations under a seeded schedule; oracles at the storage seam (mutation log) and on return values; distinct = distinct schedule signatures with overlapping calls",
                real: REAL,
                stub: STUB,
                assumptions: &["for plain read-only, calls admitted before the flag was set are exempt (the statement speaks of queued calls)"],
                required_probes: &["late_call_rejected", "runs_with_overlapping_calls", "poisoned_by_cancellation", "queued_call_at_readonly_transition", "cancellation_with_companion"],
                required_faults: &["cancellation"],
            },
            vec![
                (
                    PhaseSpec { label: "lifecycle", quick_runs: 12000, thorough_runs: 600000, quick_budget_s: 40.0, thorough_budget_s: 600.0 },
                    Arc::new(H { flavor: "c06", conc: true }),
                ),
                (
                    PhaseSpec { label: "cancel", quick_runs: 420, thorough_runs: 40000, quick_budget_s: 60.0, thorough_budget_s: 1200.0 },
                    Arc::new(H { flavor: CANCEL, conc: false }),
                ),
            ],
        ),
        other => {
            eprintln!("harness error: h_db does not serve property {other:?}");
            2
        }
    };
    std::process::exit(code);
}
