//! Sequential executor for H-db: runs client operations one at a time against
//! the real `AndaDB`/`Collection` stack, keeps the reference model and the
//! acknowledgement ledger, and verifies crash forks against it.

use anda_db::collection::Collection;
use anda_db::database::AndaDB;
use anda_db::error::DBError;
use anda_db::unix_ms;
use object_store::memory::InMemory;
use simcore::batch::{RunReport, Violation};
use simcore::store::Fork;
use simcore::{ClockMode, Sim, SimConfig, SimStore, violation};
use std::collections::{BTreeMap, BTreeSet};
use std::sync::Arc;

use crate::world::*;

pub fn block<T>(f: impl std::future::Future<Output = T>) -> T {
    futures::executor::block_on(f)
}

#[derive(Debug, Clone, PartialEq)]
pub enum Outcome {
    AddOk(u64),
    UpdateOk(SimDoc),
    RemoveOk(Option<SimDoc>),
    GetOk(SimDoc),
    Ok,
    Err { injected: bool, text: String, not_found: bool },
}

pub fn is_injected(e: &DBError) -> bool {
    format!("{e:?}").contains("injected fault")
}

fn err_outcome(e: DBError) -> Outcome {
    Outcome::Err { injected: is_injected(&e), not_found: matches!(e, DBError::NotFound { .. }), text: format!("{e:?}") }
}

pub struct World {
    pub store: SimStore,
    pub knobs: Knobs,
    pub db: AndaDB,
    pub coll: Arc<Collection>,
    pub vocab: Vec<String>,
}

impl World {
    pub fn boot(store: &SimStore, knobs: &Knobs) -> Result<World, DBError> {
        let (db, coll) = block(boot(store, knobs))?;
        let vocab = vocab_of(&coll);
        Ok(World { store: store.clone(), knobs: knobs.clone(), db, coll, vocab })
    }

    pub async fn exec(&mut self, op: &DOp) -> Outcome {
        let c = self.coll.clone();
        match op {
            DOp::Add(spec) => match c.add_from(&spec.to_doc(&self.vocab)).await {
                Ok(id) => Outcome::AddOk(id),
                Err(e) => err_outcome(e),
            },
            DOp::Update { id, fields } => match c.update(*id, update_fields(fields, &self.vocab)).await {
                Ok(d) => match d.try_into::<SimDoc>() {
                    Ok(d) => Outcome::UpdateOk(d),
                    Err(e) => Outcome::Err { injected: false, not_found: false, text: format!("returned document does not decode: {e:?}") },
                },
                Err(e) => err_outcome(e),
            },
            DOp::Remove { id } => match c.remove(*id).await {
                Ok(d) => Outcome::RemoveOk(d.and_then(|d| d.try_into::<SimDoc>().ok())),
                Err(e) => err_outcome(e),
            },
            DOp::Get { id } => match c.get_as::<SimDoc>(*id).await {
                Ok(d) => Outcome::GetOk(d),
                Err(e) => err_outcome(e),
            },
            DOp::Flush => match c.flush(unix_ms()).await {
                Ok(_) => Outcome::Ok,
                Err(e) => err_outcome(e),
            },
            DOp::SaveExt { key, val } => match c.save_extension(format!("k{key}"), anda_db::schema::Fv::U64(*val as u64)).await {
                Ok(()) => Outcome::Ok,
                Err(e) => err_outcome(e),
            },
            DOp::RemoveExt { key } => match c.remove_extension(&format!("k{key}")).await {
                Ok(_) => Outcome::Ok,
                Err(e) => err_outcome(e),
            },
            DOp::SetExt { key, val } => {
                c.set_extension(format!("k{key}"), anda_db::schema::Fv::U64(*val as u64));
                Outcome::Ok
            }
            DOp::CompactBtree => {
                let mut r = Ok(());
                for (bit, fields) in [(IX_NAME, &["name"][..]), (IX_AGE, &["age"][..]), (IX_TAGS, &["tags"][..]), (IX_CODES, &["codes"][..])] {
                    if self.knobs.indexes & bit != 0 {
                        r = c.compact_btree_index(fields).await;
                        if r.is_err() {
                            break;
                        }
                    }
                }
                match r {
                    Ok(()) => Outcome::Ok,
                    Err(e) => err_outcome(e),
                }
            }
            DOp::CompactBm25 => {
                if self.knobs.indexes & IX_BODY == 0 {
                    return Outcome::Ok;
                }
                match c.compact_bm25_index(&["body"]).await {
                    Ok(()) => Outcome::Ok,
                    Err(e) => err_outcome(e),
                }
            }
            DOp::Reconcile => match c.reconcile_storage().await {
                Ok(_) => Outcome::Ok,
                Err(e) => err_outcome(e),
            },
            DOp::Reopen => {
                if let Err(e) = self.db.close_collection(COLL).await {
                    return err_outcome(e);
                }
                match open_collection(&self.db, self.knobs.indexes).await {
                    Ok(c) => {
                        self.coll = c;
                        Outcome::Ok
                    }
                    Err(e) => err_outcome(e),
                }
            }
            DOp::Reindex { .. } => {
                let cur = self.knobs.indexes;
                let new = indexes_after(cur, op);
                if let Err(e) = self.db.close_collection(COLL).await {
                    return err_outcome(e);
                }
                let r = self
                    .db
                    .open_or_create_collection(
                        SimDoc::schema().expect("schema"),
                        anda_db::collection::CollectionConfig { name: COLL.to_string(), description: "sim docs".to_string() },
                        async |c| {
                            remove_indexes(c, cur & !new).await?;
                            install_indexes(c, new).await
                        },
                    )
                    .await;
                match r {
                    Ok(c) => {
                        self.coll = c;
                        self.knobs.indexes = new;
                        Outcome::Ok
                    }
                    Err(e) => err_outcome(e),
                }
            }
            DOp::Reconnect => {
                if let Err(e) = self.db.close().await {
                    return err_outcome(e);
                }
                match boot(&self.store, &self.knobs).await {
                    Ok((db, c)) => {
                        self.db = db;
                        self.coll = c;
                        Outcome::Ok
                    }
                    Err(e) => err_outcome(e),
                }
            }
        }
    }
}

/// Compares a non-faulted outcome with the model's expectation.
pub fn check_outcome(i: usize, op: &DOp, exp: &Expect, out: &Outcome) -> Result<(), Violation> {
    let bad = |class: &str, why: String| Err(violation!(format!("seq.{class}"), "op#{i} {op:?}: {why}"));
    match (exp, out) {
        (Expect::AddOk(_), Outcome::AddOk(_)) => Ok(()),
        (Expect::UpdateOk(d), Outcome::UpdateOk(got)) => {
            let mut want = d.clone();
            want._id = got._id;
            if &want != got { bad("update-return", format!("update returned {got:?}, the sequential order gives {want:?}")) } else { Ok(()) }
        }
        (Expect::RemoveOk(d), Outcome::RemoveOk(got)) => {
            if d != got { bad("remove-return", format!("remove returned {got:?}, expected {d:?}")) } else { Ok(()) }
        }
        // remove of a missing document may also be reported as NotFound
        (Expect::RemoveOk(None), Outcome::Err { not_found: true, .. }) => Ok(()),
        (Expect::GetOk(d), Outcome::GetOk(got)) => {
            if d != got { bad("get-return", format!("get returned {got:?}, expected {d:?}")) } else { Ok(()) }
        }
        (Expect::Ok, Outcome::Ok) => Ok(()),
        (Expect::Reject(_), Outcome::Err { .. }) => Ok(()),
        (Expect::Reject(r), o) => {
            let class = match *r {
                "unique-name" | "unique-composite" => "unique-accepted",
                _ => "invalid-accepted",
            };
            bad(class, format!("must be rejected ({r}) but returned {o:?}"))
        }
        (e, Outcome::Err { text, .. }) => bad("valid-rejected", format!("expected {e:?} but the call failed: {text}")),
        (e, o) => bad("result-shape", format!("expected {e:?}, got {o:?}")),
    }
}

/// The ledger of one sequential run: model state after each op and the ids
/// acknowledged by a successful flush/close so far.
#[derive(Default, Clone)]
pub struct Ledger {
    /// states[k] = model after the first k client ops (states[0] = empty)
    pub states: Vec<DocModel>,
    /// flushed[k] = ids that were live at some acknowledged flush/close within the first k ops
    pub flushed: Vec<BTreeSet<u64>>,
    /// every id ever handed out by an acknowledged add within the first k ops
    pub handed: Vec<BTreeSet<u64>>,
}

pub fn acks_flush(op: &DOp) -> bool {
    matches!(op, DOp::Flush | DOp::Reopen | DOp::Reconnect | DOp::Reindex { .. })
}

/// Verifies one crash state against the ledger. `k` = number of completed
/// client ops; `inflight` = the op in flight (if any). `creation_acked` tells
/// whether collection creation had been acknowledged before the crash.
pub struct CrashCheck<'a> {
    pub knobs: &'a Knobs,
    pub ledger: &'a Ledger,
    pub ops: &'a [DOp],
    pub seed: u64,
    pub reboot_delta: i64,
}

pub struct BootedFork {
    pub world: World,
    pub recreated: bool,
    pub recovery_forks: Vec<Fork>,
    pub sim: Sim,
}

impl<'a> CrashCheck<'a> {
    /// Boots a surviving disk. Records recovery forks when `nested`.
    pub fn boot_fork(&self, disk: InMemory, clock_ms: i64, creation_acked: bool, nested: bool, ctx: &str) -> Result<BootedFork, Violation> {
        let mut cfg = SimConfig::simple(self.seed ^ 0xB007);
        cfg.park = false;
        cfg.clock = ClockMode::Tick(1);
        cfg.start_ms = clock_ms + self.reboot_delta;
        cfg.record_trace = false;
        let sim = Sim::new(&cfg);
        sim.install_clock_here();
        let store = SimStore::new(sim.clone(), disk);
        store.set_record_forks(nested);
        let mut recreated = false;
        let world = match World::boot(&store, self.knobs) {
            Ok(w) => w,
            Err(DBError::AlreadyExists { .. }) if !creation_acked => {
                // documented remedy for a crash inside collection creation
                let stack = build_stack(self.knobs.stack, &store);
                let db = block(AndaDB::connect(stack, self.knobs.db_config()))
                    .map_err(|e| violation!("c01.reopen-failed", "{ctx}: connect failed after a crash inside creation: {e:?}"))?;
                block(db.delete_collection(COLL))
                    .map_err(|e| violation!("c01.recreate-failed", "{ctx}: delete_collection (documented remedy) failed: {e:?}"))?;
                let coll = block(open_collection(&db, self.knobs.indexes))
                    .map_err(|e| violation!("c01.recreate-failed", "{ctx}: recreate after delete_collection failed: {e:?}"))?;
                recreated = true;
                let vocab = vocab_of(&coll);
                World { store: store.clone(), knobs: self.knobs.clone(), db, coll, vocab }
            }
            Err(e) => {
                return Err(violation!("c01.reopen-failed", "{ctx}: database/collection failed to reopen: {e:?}"));
            }
        };
        store.set_record_forks(false);
        let recovery_forks = store.take_forks();
        Ok(BootedFork { world, recreated, recovery_forks, sim })
    }

    /// Ledger obligations on an observation: every document is in the state
    /// after k ops, or (for what op k touches) after k+1 ops.
    pub fn check_ledger(&self, obs: &Obs, k: usize, ctx: &str) -> Result<(), Violation> {
        let old = &self.ledger.states[k];
        let new = if k < self.ops.len() { &self.ledger.states[k + 1] } else { old };
        let mut ids: BTreeSet<u64> = old.docs.keys().copied().collect();
        ids.extend(new.docs.keys().copied());
        ids.extend(obs.docs.keys().copied());
        let mut took_new = false;
        let mut took_old = false;
        for id in ids {
            let got = obs.docs.get(&id);
            let o = old.docs.get(&id);
            let n = new.docs.get(&id);
            if got == o && got == n {
                continue;
            }
            if got == n {
                took_new = true;
            } else if got == o {
                took_old = true;
            } else {
                let class = if got.is_none() { "c01.acked-lost" } else if o.is_none() && n.is_none() { "c01.phantom-document" } else { "c01.mixed-document" };
                return Err(violation!(
                    class,
                    "{ctx}: document {id} is {got:?} after recovery; acknowledged state is {o:?}, in-flight operation would make it {n:?}"
                ));
            }
        }
        let _ = (took_new, took_old); // one op touches one document: all-or-nothing per document is all there is
        // extensions: old or new
        if obs.ext != old.ext && obs.ext != new.ext {
            return Err(violation!("c01.extension-lost", "{ctx}: extensions are {:?}; acknowledged {:?}, in-flight {:?}", obs.ext, old.ext, new.ext));
        }
        Ok(())
    }

    /// Full verification of one booted crash state.
    pub fn verify(&self, b: &mut BootedFork, k: usize, ctx: &str, rep: &mut RunReport) -> Result<Obs, Violation> {
        let max_id = self.ledger.handed.last().map(|s| s.iter().copied().max().unwrap_or(0)).unwrap_or(0);
        let obs = block(observe(&b.world.coll, b.world.knobs.indexes, &b.world.vocab, max_id)).map_err(|mut v| {
            v.message = format!("{ctx}: {}", v.message);
            v
        })?;
        if b.recreated {
            if !obs.docs.is_empty() {
                return Err(violation!("c01.recreate-not-empty", "{ctx}: recreated collection is not empty"));
            }
        } else {
            self.check_ledger(&obs, k, ctx)?;
        }
        // the reopened database accepts and persists new writes
        let sentinel = SimDoc {
            _id: 0,
            name: "sentinel".into(),
            age: 77,
            score: Some(77),
            tags: vec!["red".into()],
            codes: vec!["sentinel-code".into()],
            body: b.world.vocab[0].clone(),
            embedding: vec_of(&[1, 1, 1, 1]),
        };
        let sid = block(b.world.coll.add_from(&sentinel)).map_err(|e| violation!("c01.no-new-writes", "{ctx}: add after recovery failed: {e:?}"))?;
        if self.ledger.flushed[k].contains(&sid) && !b.recreated {
            return Err(violation!("c01.id-reuse", "{ctx}: new document received id {sid}, which a successful flush had acknowledged for another document"));
        }
        if obs.docs.contains_key(&sid) {
            return Err(violation!("c01.id-reuse", "{ctx}: new document received id {sid}, which is a live document"));
        }
        block(b.world.coll.flush(unix_ms())).map_err(|e| violation!("c01.no-new-writes", "{ctx}: flush after recovery failed: {e:?}"))?;
        let got = block(b.world.coll.get_as::<SimDoc>(sid)).map_err(|e| violation!("c01.no-new-writes", "{ctx}: get of the new document failed: {e:?}"))?;
        if got.name != "sentinel" {
            return Err(violation!("c01.no-new-writes", "{ctx}: new document reads back wrong"));
        }
        rep.probe("recovered_states_verified", 1);
        Ok(obs)
    }

    /// Convergence: a clean close + reopen observes the same documents.
    pub fn verify_convergence(&self, b: BootedFork, obs: &Obs, ctx: &str) -> Result<(), Violation> {
        let store = b.world.store.clone();
        let max_id = obs.docs.keys().copied().max().unwrap_or(0) + 2;
        block(b.world.db.close()).map_err(|e| violation!("c01.close-failed", "{ctx}: close after recovery failed: {e:?}"))?;
        drop(b.world);
        b.sim.install_clock_here();
        let w2 = World::boot(&store, self.knobs).map_err(|e| violation!("c01.reopen-failed", "{ctx}: second reopen failed: {e:?}"))?;
        let obs2 = block(observe(&w2.coll, self.knobs.indexes, &w2.vocab, max_id)).map_err(|mut v| {
            v.message = format!("{ctx} (second reopen): {}", v.message);
            v
        })?;
        let mut d2 = obs2.docs.clone();
        d2.retain(|_, d| d.name != "sentinel");
        if d2 != obs.docs {
            return Err(violation!("c01.not-convergent", "{ctx}: a second reopen observes different documents: {:?} vs {:?}", d2.keys(), obs.docs.keys()));
        }
        Ok(())
    }
}

pub fn ledger_push(ledger: &mut Ledger, model: &DocModel, op: &DOp, ok: bool, new_id: Option<u64>) {
    let mut f = ledger.flushed.last().cloned().unwrap_or_default();
    let mut h = ledger.handed.last().cloned().unwrap_or_default();
    if ok && acks_flush(op) {
        f.extend(model.docs.keys().copied());
    }
    if let Some(id) = new_id {
        h.insert(id);
    }
    ledger.states.push(model.clone());
    ledger.flushed.push(f);
    ledger.handed.push(h);
}

pub fn new_ledger() -> Ledger {
    Ledger { states: vec![DocModel::default()], flushed: vec![BTreeSet::new()], handed: vec![BTreeSet::new()] }
}

pub type ExtMap = BTreeMap<String, u64>;

/// Logical listing of what the database's object store reports under the
/// collection prefix (through the wrapper stack, if any).
pub fn logical_objects_under_collection(db: &AndaDB) -> Result<Vec<String>, String> {
    use futures::StreamExt;
    let store = db.object_store();
    let prefix = object_store::path::Path::from(format!("{DB_NAME}/{COLL}"));
    block(async {
        let items: Vec<_> = store.list(Some(&prefix)).collect().await;
        let mut out = Vec::new();
        for it in items {
            match it {
                Ok(m) => out.push(m.location.to_string()),
                Err(e) => return Err(format!("{e}")),
            }
        }
        Ok(out)
    })
}
