//! Concurrent H-db runs: 2–4 client tasks whose backend calls and lock waits
//! the simulator interleaves. Histories are checked for linearizability
//! against the sequential collection model (C05), contention on unique values
//! (C04), and lifecycle transitions racing queued / in-flight operations (C06a).

use anda_db::collection::Collection;
use anda_db::error::DBError;
use object_store::memory::InMemory;
use serde::{Deserialize, Serialize};
use simcore::batch::{RunReport, Tier, Violation};
use simcore::lin::{self, Event, Model};
use simcore::rng::{Rng, Sig};
use simcore::sim::{LocalTask, Outcome as SimOutcome};
use simcore::{ClockMode, Policy, Schedule, Sim, SimConfig, SimStore, violation};
use std::collections::{BTreeMap, BTreeSet};
use std::sync::{Arc, Mutex};

use crate::c01::merge_log_probes;
use crate::seq::*;
use crate::world::*;

#[derive(Clone, Debug, Serialize, Deserialize, PartialEq)]
pub enum Transition {
    None,
    CloseCollection,
    CollectionClose,
    SetReadOnly,
    DbSetReadOnly,
    DeleteCollection,
    DbClose,
}

#[derive(Clone, Debug, Serialize, Deserialize)]
pub struct ConcCase {
    pub seed: u64,
    pub knobs: Knobs,
    pub prefix: Vec<DOp>,
    pub clients: Vec<Vec<DOp>>,
    pub transition: Transition,
    /// the lifecycle client first yields this many times (lets others get going)
    pub transition_delay: u32,
    pub schedule: Schedule,
    pub clock: ClockMode,
}

// ---------------------------------------------------------------------------
// hashable model

#[derive(Clone, Debug, PartialEq, Eq, Hash, PartialOrd, Ord)]
pub struct MDoc {
    name: String,
    age: u64,
    score: Option<i64>,
    tags: Vec<String>,
    codes: Vec<String>,
    body: String,
    vec: Vec<i32>,
}

fn mdoc(d: &SimDoc) -> MDoc {
    MDoc {
        name: d.name.clone(),
        age: d.age,
        score: d.score,
        tags: d.tags.clone(),
        codes: d.codes.clone(),
        body: d.body.clone(),
        vec: d.embedding.iter().map(|x| (x.to_f32() * 16.0) as i32).collect(),
    }
}

#[derive(Clone, Debug, PartialEq, Eq, Hash, Default)]
pub struct CState {
    docs: BTreeMap<u64, MDoc>,
    handed: BTreeSet<u64>,
    ext: BTreeMap<String, u64>,
}

pub struct CModel {
    indexes: u8,
    vocab: Vec<String>,
}

impl CModel {
    fn as_docmodel(&self, st: &CState) -> DocModel {
        // rebuild a DocModel view for `expect` (embedding reconstructed)
        let mut m = DocModel::default();
        for (id, d) in &st.docs {
            m.docs.insert(
                *id,
                SimDoc {
                    _id: *id,
                    name: d.name.clone(),
                    age: d.age,
                    score: d.score,
                    tags: d.tags.clone(),
                    codes: d.codes.clone(),
                    body: d.body.clone(),
                    embedding: d.vec.iter().map(|x| anda_db::schema::bf16::from_f32(*x as f32 / 16.0)).collect(),
                },
            );
        }
        m.ext = st.ext.clone();
        m
    }
}

impl Model for CModel {
    type State = CState;
    type Op = DOp;
    type Res = Outcome;

    fn step(&self, st: &CState, op: &DOp, res: Option<&Outcome>) -> Vec<CState> {
        let dm = self.as_docmodel(st);
        let exp = dm.expect(op, self.indexes, &self.vocab);
        let Some(res) = res else {
            // in flight at the end: may or may not have taken effect
            let mut out = vec![st.clone()];
            match (&exp, op) {
                (Expect::UpdateOk(d), DOp::Update { id, .. }) => {
                    let mut s = st.clone();
                    s.docs.insert(*id, mdoc(d));
                    out.push(s);
                }
                (Expect::RemoveOk(Some(_)), DOp::Remove { id }) => {
                    let mut s = st.clone();
                    s.docs.remove(id);
                    out.push(s);
                }
                (Expect::Ok, DOp::SaveExt { key, val }) | (Expect::Ok, DOp::SetExt { key, val }) => {
                    let mut s = st.clone();
                    s.ext.insert(format!("k{key}"), *val as u64);
                    out.push(s);
                }
                _ => {}
            }
            return out;
        };
        match (&exp, res) {
            (Expect::AddOk(d), Outcome::AddOk(id)) => {
                if st.docs.contains_key(id) || st.handed.contains(id) {
                    return vec![]; // ids must be distinct and fresh
                }
                let mut s = st.clone();
                s.docs.insert(*id, mdoc(d));
                s.handed.insert(*id);
                vec![s]
            }
            (Expect::UpdateOk(d), Outcome::UpdateOk(got)) => {
                let DOp::Update { id, .. } = op else { return vec![] };
                if mdoc(d) != mdoc(got) || got._id != *id {
                    return vec![];
                }
                let mut s = st.clone();
                s.docs.insert(*id, mdoc(d));
                vec![s]
            }
            (Expect::RemoveOk(Some(d)), Outcome::RemoveOk(Some(got))) => {
                let DOp::Remove { id } = op else { return vec![] };
                if mdoc(d) != mdoc(got) {
                    return vec![];
                }
                let mut s = st.clone();
                s.docs.remove(id);
                vec![s]
            }
            (Expect::RemoveOk(None), Outcome::RemoveOk(None)) => vec![st.clone()],
            (Expect::RemoveOk(None), Outcome::Err { not_found: true, .. }) => vec![st.clone()],
            (Expect::GetOk(d), Outcome::GetOk(got)) => {
                if mdoc(d) == mdoc(got) { vec![st.clone()] } else { vec![] }
            }
            (Expect::Reject("missing-document"), Outcome::Err { .. }) => vec![st.clone()],
            (Expect::Reject(_), Outcome::Err { .. }) => vec![st.clone()],
            (Expect::Ok, Outcome::Ok) => {
                let mut s = st.clone();
                match op {
                    DOp::SaveExt { key, val } | DOp::SetExt { key, val } => {
                        s.ext.insert(format!("k{key}"), *val as u64);
                    }
                    DOp::RemoveExt { key } => {
                        s.ext.remove(&format!("k{key}"));
                    }
                    _ => {}
                }
                vec![s]
            }
            _ => vec![],
        }
    }
}

// ---------------------------------------------------------------------------

fn state_error(e: &DBError) -> bool {
    let t = format!("{e:?}");
    e.collection_state().is_some() || t.contains("read-only") || t.contains("CollectionStateError")
}

pub fn generate_conc(case_seed: u64, idx: u64, _tier: Tier, flavor: &str) -> ConcCase {
    let mut rng = Rng::stream(case_seed, "conc");
    let mut knobs = Knobs::generate(&mut rng);
    if flavor == "c04" {
        knobs.indexes |= IX_NAME | IX_AGE_SCORE | IX_CODES;
    }
    let np = rng.range(1, 4) as usize;
    let mut prefix = Vec::new();
    for _ in 0..np {
        prefix.push(DOp::Add(DocSpec::generate(&mut rng)));
    }
    if rng.bool() {
        prefix.push(DOp::Flush);
    }
    let nc = rng.range(2, if flavor == "c06" { 3 } else { 4 }) as usize;
    let contested_name = rng.below(7) as u8;
    let contested_code = rng.below(CODES) as u8;
    let by_code = flavor == "c04" && rng.bool();
    let same_doc = rng.range(1, np as u64);
    let mut clients = Vec::new();
    let mut setext_n: u8 = 0;
    for _ in 0..nc {
        let n = rng.range(1, if nc >= 3 { 2 } else { 3 });
        let mut ops = Vec::new();
        for _ in 0..n {
            let op = match flavor {
                "c04" => match rng.weighted(&[40, 40, 10, 10]) {
                    0 => {
                        let mut s = DocSpec::generate(&mut rng);
                        if by_code {
                            // contend for one element of the unique array field
                            s.codes = vec![contested_code];
                            if rng.bool() {
                                s.codes.push((contested_code + 1 + rng.below(CODES - 1) as u8) % CODES as u8);
                                s.codes.sort();
                            }
                        } else {
                            s.name = contested_name;
                        }
                        DOp::Add(s)
                    }
                    1 if by_code => {
                        let mut c = vec![contested_code];
                        if rng.bool() {
                            c.push((contested_code + 1 + rng.below(CODES - 1) as u8) % CODES as u8);
                            c.sort();
                        }
                        DOp::Update { id: rng.range(1, np as u64), fields: vec![FieldUpd::Codes(c)] }
                    }
                    1 => DOp::Update { id: rng.range(1, np as u64), fields: vec![FieldUpd::Name(contested_name)] },
                    2 => DOp::Remove { id: rng.range(1, np as u64) },
                    _ => DOp::Update { id: rng.range(1, np as u64), fields: vec![FieldUpd::Name(rng.below(7) as u8)] },
                },
                _ => {
                    // only ids a caller can legitimately hold: those the prefix's adds returned
                    // (an id is not known to anyone before its add returns; see DESIGN.md C05)
                    let id = if rng.chance(2, 3) { same_doc } else { rng.range(1, np as u64) };
                    match rng.weighted(&[22, 30, 14, 14, 12, 8, 6]) {
                        0 => DOp::Add(DocSpec::generate(&mut rng)),
                        1 => {
                            let f = match rng.below(6) {
                                5 => FieldUpd::Codes(gen_codes(&mut rng)),
                                0 => FieldUpd::Name(rng.below(7) as u8),
                                1 => FieldUpd::Age(rng.below(4) as u8),
                                2 => FieldUpd::Body((0..rng.range(1, 3)).map(|_| rng.below(10) as u8).collect()),
                                3 => FieldUpd::Tags((0..rng.below(3)).map(|_| rng.below(3) as u8).collect()),
                                _ => FieldUpd::Score(Some(rng.below(4) as i8 - 1)),
                            };
                            DOp::Update { id, fields: vec![f] }
                        }
                        // mostly a known id; sometimes the id a concurrent add is about
                        // to receive (a caller may guess it; removing nothing must not
                        // disturb the add)
                        2 => DOp::Remove { id: if rng.chance(1, 5) { np as u64 + rng.range(1, 2) } else { id } },
                        3 => DOp::Get { id },
                        4 => DOp::Flush,
                        5 => DOp::SaveExt { key: rng.below(2) as u8, val: rng.below(200) as u8 },
                        _ => {
                            // values unique within the case and disjoint from save_extension's
                            setext_n += 1;
                            DOp::SetExt { key: rng.below(2) as u8, val: 199 + setext_n.min(56) }
                        }
                    }
                }
            };
            ops.push(op);
        }
        clients.push(ops);
    }
    if flavor == "c06" && rng.bool() {
        // a flush that holds the exclusive gate while others queue behind it
        clients[0].insert(0, DOp::Flush);
        if !prefix.iter().any(|o| matches!(o, DOp::Add(_))) || rng.bool() {
            prefix.push(DOp::Add(DocSpec::generate(&mut rng)));
        }
    }
    let transition = if flavor == "c06" {
        match idx % 6 {
            0 => Transition::CloseCollection,
            1 => Transition::CollectionClose,
            2 => Transition::SetReadOnly,
            3 => Transition::DbSetReadOnly,
            4 => Transition::DeleteCollection,
            _ => Transition::DbClose,
        }
    } else {
        Transition::None
    };
    let policy = match rng.below(5) {
        0 | 1 => Policy::Uniform,
        2 => Policy::Sticky(12),
        3 => Policy::Pct(2),
        _ => Policy::Starve(rng.usize(nc)),
    };
    ConcCase {
        seed: case_seed,
        knobs,
        prefix,
        clients,
        transition,
        transition_delay: rng.below(6) as u32,
        schedule: Schedule::Seeded { seed: rng.next_u64(), policy },
        clock: match rng.below(3) {
            0 => ClockMode::Frozen,
            1 => ClockMode::Tick(2),
            _ => ClockMode::Jumpy(3000),
        },
    }
}

async fn exec_on(c: &Collection, op: &DOp, vocab: &[String]) -> (Outcome, Option<bool>) {
    // returns (outcome, Some(is typed state/read-only error)) for failures
    macro_rules! fail {
        ($e:expr) => {{
            let e = $e;
            let st = state_error(&e);
            (
                Outcome::Err { injected: is_injected(&e), not_found: matches!(e, DBError::NotFound { .. }), text: format!("{e:?}") },
                Some(st),
            )
        }};
    }
    match op {
        DOp::Add(spec) => match c.add_from(&spec.to_doc(vocab)).await {
            Ok(id) => (Outcome::AddOk(id), None),
            Err(e) => fail!(e),
        },
        DOp::Update { id, fields } => match c.update(*id, update_fields(fields, vocab)).await {
            Ok(d) => match d.try_into::<SimDoc>() {
                Ok(d) => (Outcome::UpdateOk(d), None),
                Err(e) => (Outcome::Err { injected: false, not_found: false, text: format!("undecodable: {e:?}") }, Some(false)),
            },
            Err(e) => fail!(e),
        },
        DOp::Remove { id } => match c.remove(*id).await {
            Ok(d) => (Outcome::RemoveOk(d.and_then(|d| d.try_into::<SimDoc>().ok())), None),
            Err(e) => fail!(e),
        },
        DOp::Get { id } => match c.get_as::<SimDoc>(*id).await {
            Ok(d) => (Outcome::GetOk(d), None),
            Err(e) => fail!(e),
        },
        DOp::Flush => match c.flush(anda_db::unix_ms()).await {
            Ok(_) => (Outcome::Ok, None),
            Err(e) => fail!(e),
        },
        DOp::SaveExt { key, val } => match c.save_extension(format!("k{key}"), anda_db::schema::Fv::U64(*val as u64)).await {
            Ok(()) => (Outcome::Ok, None),
            Err(e) => fail!(e),
        },
        DOp::SetExt { key, val } => {
            // the synchronous setter returns nothing: a handle that is not mutable
            // ignores the call (and logs). What happened is read back in the same
            // poll; generated values are unique per case, so "unchanged" = ignored.
            let k = format!("k{key}");
            let want = anda_db::schema::Fv::U64(*val as u64);
            c.set_extension(k.clone(), want.clone());
            if c.get_extension(&k) == Some(want) {
                (Outcome::Ok, None)
            } else {
                (Outcome::Err { injected: false, not_found: false, text: "set_extension ignored: handle not mutable".to_string() }, Some(true))
            }
        }
        DOp::RemoveExt { key } => match c.remove_extension(&format!("k{key}")).await {
            Ok(_) => (Outcome::Ok, None),
            Err(e) => fail!(e),
        },
        _ => (Outcome::Ok, None),
    }
}

#[derive(Clone, Debug)]
struct Rec {
    client: usize,
    invoke: u64,
    ret: u64,
    op: DOp,
    out: Outcome,
    state_err: Option<bool>,
}

pub fn run_conc(case: &ConcCase, rep: &mut RunReport) -> Result<(), Violation> {
    let mut cfg = SimConfig::simple(case.seed);
    cfg.park = false;
    cfg.clock = case.clock.clone();
    cfg.schedule = case.schedule.clone();
    let sim = Sim::new(&cfg);
    sim.install_clock_here();
    simcore::logprobe::begin();
    let store = SimStore::new(sim.clone(), InMemory::new());
    let knobs = &case.knobs;
    store.set_response_delay(simcore::store::seeded_response_delay(case.seed));
    let mut world = World::boot(&store, knobs).map_err(|e| violation!("conc.boot-failed", "creation failed: {e:?}"))?;
    let vocab = world.vocab.clone();
    // sequential prefix
    let mut hist: Vec<Event<DOp, Outcome>> = Vec::new();
    let mut model = DocModel::default();
    for (i, op) in case.prefix.iter().enumerate() {
        let exp = model.expect(op, knobs.indexes, &vocab);
        let inv = sim.tick();
        let out = block(world.exec(op));
        let ret = sim.tick();
        check_outcome(i, op, &exp, &out)?;
        let new_id = if let Outcome::AddOk(id) = &out { Some(*id) } else { None };
        if !matches!(out, Outcome::Err { .. }) {
            model.apply(op, &exp, new_id);
        }
        hist.push(Event { client: 0, invoke: inv, ret: Some(ret), op: op.clone(), res: Some(out) });
    }
    // concurrent phase
    sim.set_park(true);
    let recs: Arc<Mutex<Vec<Rec>>> = Arc::new(Mutex::new(Vec::new()));
    let transition_done: Arc<Mutex<Option<(u64, usize, Result<(), String>)>>> = Arc::new(Mutex::new(None));
    let coll = world.coll.clone();
    let db = world.db.clone();
    let mut tasks: Vec<LocalTask> = Vec::new();
    for (ci, ops) in case.clients.iter().enumerate() {
        let coll = coll.clone();
        let sim2 = sim.clone();
        let recs = recs.clone();
        let vocab = vocab.clone();
        tasks.push(Box::pin(async move {
            for op in ops {
                if let DOp::SetExt { val, .. } = op {
                    // the synchronous setter runs inside one poll; let it land at a
                    // scheduler-chosen moment instead of always at the very start
                    for _ in 0..(*val % 10) {
                        sim2.yield_now().await;
                    }
                }
                let inv = sim2.tick();
                let (out, st) = exec_on(&coll, op, &vocab).await;
                let ret = sim2.tick();
                recs.lock().unwrap().push(Rec { client: ci + 1, invoke: inv, ret, op: op.clone(), out, state_err: st });
            }
        }));
    }
    let lifecycle_task = case.clients.len();
    if case.transition != Transition::None {
        let coll = coll.clone();
        let db = db.clone();
        let sim2 = sim.clone();
        let td = transition_done.clone();
        let tr = case.transition.clone();
        let delay = case.transition_delay;
        tasks.push(Box::pin(async move {
            for _ in 0..delay {
                sim2.yield_now().await;
            }
            let r: Result<(), String> = match tr {
                Transition::CloseCollection => db.close_collection(COLL).await.map_err(|e| format!("{e:?}")),
                Transition::CollectionClose => coll.close().await.map_err(|e| format!("{e:?}")),
                Transition::SetReadOnly => {
                    coll.set_read_only(true);
                    Ok(())
                }
                Transition::DbSetReadOnly => {
                    db.set_read_only(true);
                    Ok(())
                }
                Transition::DeleteCollection => db.delete_collection(COLL).await.map_err(|e| format!("{e:?}")),
                Transition::DbClose => db.close().await.map_err(|e| format!("{e:?}")),
                Transition::None => Ok(()),
            };
            let t = sim2.tick();
            let mark = sim2.mut_log_len();
            *td.lock().unwrap() = Some((t, mark, r));
        }));
    }
    let out = sim.run(tasks);
    rep.merge_fired(&sim.fired());
    {
        let st = sim.lock();
        rep.steps += st.step;
        rep.sim_ms += st.sim_ms_covered;
        if st.overlap_seen {
            rep.nontrivial_sigs.push(st.sig.0);
        }
        rep.trace_hash = st.sig_full.0;
    }
    if out != SimOutcome::Done {
        return Err(violation!("conc.liveness", "concurrent phase did not complete: {out:?}; trace tail: {:?}", sim.trace().iter().rev().take(12).map(|e| format!("t{} {} {}", e.task, e.kind.short(), e.path)).collect::<Vec<_>>()));
    }
    sim.set_park(false);
    let recs = recs.lock().unwrap().clone();
    let mut tsig = Sig::default();
    for r in &recs {
        tsig.add_str(&format!("{:?}", r.out));
    }
    rep.trace_hash ^= tsig.0;
    for r in &recs {
        hist.push(Event { client: r.client, invoke: r.invoke, ret: Some(r.ret), op: r.op.clone(), res: Some(r.out.clone()) });
    }
    rep.evaluations = 1;
    let tdone = transition_done.lock().unwrap().clone();

    // ---- lifecycle oracles (C06a)
    if let Some((t_done, log_mark, tr_res)) = &tdone {
        if let Err(e) = tr_res {
            return Err(violation!("c06.transition-failed", "{:?} failed without any fault: {e}", case.transition));
        }
        rep.probe(&format!("transition_{:?}", case.transition).to_lowercase(), 1);
        let retiring = !matches!(case.transition, Transition::SetReadOnly | Transition::DbSetReadOnly);
        // (1) calls invoked after the transition returned must fail with the state error and write nothing
        for r in &recs {
            if r.invoke > *t_done && !matches!(r.op, DOp::Get { .. }) {
                match &r.out {
                    Outcome::Err { .. } => {
                        if r.state_err != Some(true) && !matches!(r.out, Outcome::Err { not_found: true, .. }) {
                            // an error, but is it the typed state error?
                            rep.probe("late_call_failed_untyped", 1);
                        }
                        rep.probe("late_call_rejected", 1);
                    }
                    o => {
                        return Err(violation!(
                            "c06.late-call-accepted",
                            "{:?} returned at event {t_done}, yet {:?} invoked at {} on the old handle returned {o:?}",
                            case.transition,
                            r.op,
                            r.invoke
                        ));
                    }
                }
            }
        }
        // (2) write-silence: after the transition returned nothing more is written under the collection prefix
        let prefix = format!("{DB_NAME}/{COLL}/");
        let after: Vec<_> = sim.mut_log_since(*log_mark).into_iter().filter(|m| m.path.contains(&prefix) && m.applied).collect();
        if retiring {
            if let Some(m) = after.first() {
                return Err(violation!(
                    "c06.write-after-transition",
                    "{:?} had returned, then task {} still applied {} {}",
                    case.transition,
                    m.task,
                    m.kind.short(),
                    m.path
                ));
            }
        } else {
            // read-only: only calls admitted before the flag may still write
            let admitted: BTreeSet<usize> = recs.iter().filter(|r| r.invoke < *t_done && r.ret > *t_done).map(|r| r.client - 1).collect();
            for m in &after {
                if !admitted.contains(&m.task) {
                    return Err(violation!(
                        "c06.write-after-transition",
                        "{:?} had returned, then task {} (no call admitted before it) applied {} {}",
                        case.transition,
                        m.task,
                        m.kind.short(),
                        m.path
                    ));
                }
            }
        }
        let _ = lifecycle_task;
        // (2b) calls that were QUEUED when a read-only transition happened must be
        // rejected: a call invoked while a flush holds the exclusive gate (the flush
        // had been granted a backend call and had not returned) is queued at the
        // gate by construction.
        if !retiring {
            let trace = sim.trace();
            for f in recs.iter().filter(|r| matches!(r.op, DOp::Flush) && !matches!(r.out, Outcome::Err { .. })) {
                let started = trace.iter().filter(|e| e.task == f.client - 1 && e.seq > f.invoke && e.seq < f.ret).map(|e| e.seq).min();
                let Some(started) = started else { continue };
                if !(started < *t_done && *t_done < f.ret) {
                    continue;
                }
                // (the synchronous in-memory setter takes no gate: it is never queued)
                for r in recs.iter().filter(|r| r.client != f.client && !matches!(r.op, DOp::Get { .. } | DOp::SetExt { .. })) {
                    if r.invoke > started && r.invoke < *t_done {
                        rep.probe("queued_call_at_readonly_transition", 1);
                        if !matches!(r.out, Outcome::Err { .. }) {
                            return Err(violation!(
                                "c06.queued-call-accepted",
                                "{:?} returned at event {t_done} while {:?} (invoked at {}) was queued behind a flush [{},{}]; it must be rejected but returned {:?}",
                                case.transition, r.op, r.invoke, f.invoke, f.ret, r.out
                            ));
                        }
                    }
                }
            }
        }
        // (3) a retired handle cannot be made writable again
        if retiring {
            coll.set_read_only(false);
            let mark = sim.mut_log_len();
            let (o, _) = block(exec_on(&coll, &DOp::Add(DocSpec { name: 6, age: 3, score: Some(2), tags: vec![], body: vec![1], vec: [0, 0, 0, 1], codes: vec![] }), &vocab));
            if !matches!(o, Outcome::Err { .. }) {
                return Err(violation!("c06.retired-handle-writable", "after {:?} and set_read_only(false) the old handle accepted an add: {o:?}", case.transition));
            }
            let (o2, _) = block(exec_on(&coll, &DOp::Flush, &vocab));
            let wrote: Vec<_> = sim.mut_log_since(mark).into_iter().filter(|m| m.path.contains(&prefix) && m.applied).collect();
            if !wrote.is_empty() {
                return Err(violation!("c06.write-after-transition", "a retired handle wrote {} after {:?} (flush -> {o2:?})", wrote[0].path, case.transition));
            }
        }
        // (4) after delete_collection nothing remains under the prefix
        if case.transition == Transition::DeleteCollection {
            let left = logical_objects_under_collection(&db).map_err(|e| violation!("c06.delete-left-objects", "listing the prefix failed: {e}"))?;
            if !left.is_empty() {
                return Err(violation!("c06.delete-left-objects", "delete_collection returned but {} objects remain under the prefix, e.g. {}", left.len(), left[0]));
            }
            merge_log_probes(rep);
            return finish_sample(case, rep, &recs);
        }
    }

    // ---- linearizability (C05) of everything that returned
    let cm = CModel { indexes: knobs.indexes, vocab: vocab.clone() };
    // calls rejected by the lifecycle state are not part of the sequential model
    let hist2: Vec<Event<DOp, Outcome>> = hist
        .into_iter()
        .filter(|e| {
            if tdone.is_none() {
                return true;
            }
            // drop state-rejected calls
            !recs.iter().any(|r| Some(r.ret) == e.ret && r.invoke == e.invoke && r.state_err == Some(true))
        })
        .collect();
    // Reads: the property demands of a read that overlaps writers only that
    // it returns a whole document some call wrote (not that it linearizes
    // with the mutations), so concurrent-phase gets are judged by that rule
    // and taken out of the linearizability history.
    {
        let mut versions: BTreeMap<u64, BTreeSet<MDoc>> = BTreeMap::new();
        for (id, d) in &model.docs {
            versions.entry(*id).or_default().insert(mdoc(d));
        }
        let mut removable: BTreeSet<u64> = BTreeSet::new();
        for r in &recs {
            match (&r.op, &r.out) {
                (DOp::Update { id, .. }, Outcome::UpdateOk(d)) => {
                    versions.entry(*id).or_default().insert(mdoc(d));
                }
                (DOp::Add(spec), Outcome::AddOk(id)) => {
                    versions.entry(*id).or_default().insert(mdoc(&spec.to_doc(&vocab)));
                }
                (DOp::Remove { id }, _) => {
                    removable.insert(*id);
                }
                _ => {}
            }
        }
        for r in &recs {
            if let DOp::Get { id } = &r.op {
                match &r.out {
                    Outcome::GetOk(d) => {
                        if d._id != *id || !versions.get(id).map(|v| v.contains(&mdoc(d))).unwrap_or(false) {
                            return Err(violation!("c05.read-not-written", "get({id}) overlapping writers returned {d:?}, which no call wrote"));
                        }
                        rep.probe("concurrent_reads_checked", 1);
                    }
                    Outcome::Err { not_found: true, .. } => {
                        if model.docs.contains_key(id) && !removable.contains(id) {
                            return Err(violation!("c05.read-lost", "get({id}) returned NotFound although the document exists and nobody removes it"));
                        }
                    }
                    Outcome::Err { text, .. } => {
                        if r.state_err != Some(true) {
                            return Err(violation!("c05.read-error", "get({id}) overlapping writers failed: {text}"));
                        }
                    }
                    _ => {}
                }
            }
        }
    }
    let n_prefix = case.prefix.len();
    let hist2: Vec<Event<DOp, Outcome>> = hist2
        .into_iter()
        .enumerate()
        .filter(|(i, e)| *i < n_prefix || !matches!(e.op, DOp::Get { .. }))
        .map(|(_, e)| e)
        .collect();
    // A remove of an id nobody had been handed yet (the caller guessed what a
    // concurrent add would receive) that removed nothing: the property orders
    // calls by real time *per document*, and on that document the only other
    // call is the add it overlaps or precedes, so "remove found nothing, then
    // the add ran" is an admissible order whatever unrelated calls did in
    // between. It leaves the model unchanged; it is taken out of the history
    // rather than held to the cross-document real-time order. (A remove that
    // returns the document, or one issued after the add was acknowledged,
    // stays in.)
    let hist2: Vec<Event<DOp, Outcome>> = {
        let acked_at = |id: u64| -> Option<u64> {
            hist2.iter().filter_map(|e| match (&e.op, &e.res) {
                (DOp::Add(_), Some(Outcome::AddOk(i))) if *i == id => e.ret,
                _ => None,
            }).min()
        };
        let mut dropped = 0u64;
        let kept: Vec<Event<DOp, Outcome>> = hist2
            .iter()
            .filter(|e| {
                let DOp::Remove { id } = &e.op else { return true };
                let nothing = matches!(&e.res, Some(Outcome::RemoveOk(None)) | Some(Outcome::Err { not_found: true, .. }));
                let unacknowledged = acked_at(*id).map(|t| t > e.invoke).unwrap_or(true);
                if nothing && unacknowledged {
                    dropped += 1;
                    false
                } else {
                    true
                }
            })
            .cloned()
            .collect();
        rep.probe("remove_of_unacknowledged_id_found_nothing", dropped);
        kept
    };
    if hist2.len() > 60 {
        return Err(violation!("harness.history-too-long", "history has {} events", hist2.len()));
    }
    let r = lin::check(&cm, CState::default(), &hist2, true);
    rep.probe("lin_states_explored", r.explored);
    if !r.ok {
        let lines: Vec<String> = hist2.iter().map(|e| format!("c{} [{},{}] {:?} -> {:?}", e.client, e.invoke, e.ret.unwrap_or(0), e.op, e.res)).collect();
        // class by first inexplicable event
        let mut sorted: Vec<&Event<DOp, Outcome>> = hist2.iter().collect();
        sorted.sort_by_key(|e| e.ret);
        let mut class = "c05.not-linearizable".to_string();
        let mut culprit = String::new();
        for n in 1..=sorted.len() {
            let sub: Vec<Event<DOp, Outcome>> = sorted[..n].iter().map(|e| (*e).clone()).collect();
            if !lin::check(&cm, CState::default(), &sub, false).ok {
                let e = sorted[n - 1];
                culprit = format!("c{} [{},{}] {:?} -> {:?}", e.client, e.invoke, e.ret.unwrap_or(0), e.op, e.res);
                let opn = match &e.op {
                    DOp::Add(_) => "add",
                    DOp::Update { .. } => "update",
                    DOp::Remove { .. } => "remove",
                    DOp::Get { .. } => "get",
                    DOp::Flush => "flush",
                    _ => "other",
                };
                let resn = match &e.res {
                    Some(Outcome::Err { .. }) => "err",
                    _ => "ok",
                };
                class = format!("c05.not-linearizable.{opn}.{resn}");
                break;
            }
        }
        return Err(violation!(class, "history is not linearizable against the sequential collection; first inexplicable event: {culprit}; history: {}", lines.join(" | ")));
    }
    // ---- final state equals the result of some linearization
    let reopen_needed = matches!(case.transition, Transition::CloseCollection | Transition::CollectionClose | Transition::DbClose);
    if reopen_needed {
        // the only way back is reopening
        if case.transition == Transition::DbClose {
            drop(world);
            world = World::boot(&store, knobs).map_err(|e| violation!("c06.reopen-failed", "reconnect after db.close failed: {e:?}"))?;
        } else {
            if case.transition == Transition::CollectionClose {
                // a directly closed handle stays registered; close_collection retires it
                block(world.db.close_collection(COLL)).map_err(|e| violation!("c06.reopen-failed", "close_collection after Collection::close failed: {e:?}"))?;
            }
            world.coll = block(open_collection(&world.db, knobs.indexes)).map_err(|e| violation!("c06.reopen-failed", "open after close failed: {e:?}"))?;
        }
    }
    if matches!(case.transition, Transition::SetReadOnly) {
        world.coll.set_read_only(false);
    }
    if matches!(case.transition, Transition::DbSetReadOnly) {
        world.db.set_read_only(false);
    }
    let max_id = r.final_states.iter().flat_map(|s| s.handed.iter().copied()).max().unwrap_or(0).max(case.prefix.len() as u64);
    let obs = block(observe(&world.coll, knobs.indexes, &vocab, max_id)).map_err(|mut v| {
        v.message = format!("after the concurrent phase: {}", v.message);
        v
    })?;
    let got: BTreeMap<u64, MDoc> = obs.docs.iter().map(|(k, d)| (*k, mdoc(d))).collect();
    if !r.final_states.iter().any(|s| s.docs == got && s.ext == obs.ext) {
        return Err(violation!(
            "c05.final-state",
            "after all calls returned the documents {:?} (ext {:?}) are not the result of any linearization ({} candidate final states, e.g. {:?})",
            got,
            obs.ext,
            r.final_states.len(),
            r.final_states.first().map(|s| &s.docs)
        ));
    }
    // ---- a flush issued now persists everything acknowledged so far, including
    // what the synchronous in-memory setters changed
    // ---- crash right now: every acknowledged call must survive - first as the
    // concurrent calls (a concurrent flush among them) left the disk, then once
    // more after a flush issued now
    let mut crash_disks: Vec<(InMemory, Option<BTreeMap<String, u64>>)> = Vec::new();
    if case.transition == Transition::None || reopen_needed {
        crash_disks.push((store.disk().fork(), None));
    }
    if case.transition == Transition::None {
        block(world.coll.flush(anda_db::unix_ms())).map_err(|e| violation!("c05.final-flush-failed", "a flush after all calls returned failed: {e:?}"))?;
        crash_disks.push((store.disk().fork(), Some(obs.ext.clone())));
    }
    for (disk, want_ext) in crash_disks {
        let mut cfg2 = SimConfig::simple(case.seed ^ 0xC0);
        cfg2.park = false;
        cfg2.record_trace = false;
        cfg2.start_ms = sim.clock().now_ms() + 5;
        let sim2 = Sim::new(&cfg2);
        sim2.install_clock_here();
        let st2 = SimStore::new(sim2, disk);
        let w2 = World::boot(&st2, knobs).map_err(|e| violation!("c01.reopen-failed", "reopen after a crash following the concurrent phase failed: {e:?}"))?;
        let obs2 = block(observe(&w2.coll, knobs.indexes, &vocab, max_id)).map_err(|mut v| {
            v.message = format!("after crash following the concurrent phase: {}", v.message);
            v
        })?;
        let got2: BTreeMap<u64, MDoc> = obs2.docs.iter().map(|(k, d)| (*k, mdoc(d))).collect();
        if got2 != got {
            return Err(violation!("c05.acked-lost-at-crash", "a crash right after all calls returned recovers {:?}, but the acknowledged state is {:?}", got2.keys(), got.keys()));
        }
        if let Some(want) = &want_ext {
            if &obs2.ext != want {
                return Err(violation!("c05.extension-not-persisted-by-flush", "after all calls returned the handle reports extensions {want:?}; a flush succeeded, yet a crash right after it recovers {:?}", obs2.ext));
            }
            rep.probe("extensions_checked_after_final_flush", 1);
        }
        rep.fire("power_loss", 1);
        sim.install_clock_here();
    }
    merge_log_probes(rep);
    finish_sample(case, rep, &recs)
}

fn finish_sample(case: &ConcCase, rep: &mut RunReport, recs: &[Rec]) -> Result<(), Violation> {
    let overlapping = recs.iter().any(|a| recs.iter().any(|b| a.client != b.client && a.invoke < b.ret && b.invoke < a.ret));
    if overlapping {
        rep.probe("runs_with_overlapping_calls", 1);
    }
    rep.sample = Some(serde_json::json!({
        "knobs": format!("{:?}", case.knobs),
        "prefix": case.prefix.iter().map(|o| format!("{o:?}")).collect::<Vec<_>>(),
        "clients": case.clients.iter().map(|c| c.iter().map(|o| format!("{o:?}")).collect::<Vec<_>>()).collect::<Vec<_>>(),
        "transition": format!("{:?}", case.transition),
        "history": recs.iter().map(|r| format!("c{} [{},{}] {:?} -> {}", r.client, r.invoke, r.ret, r.op, match &r.out { Outcome::Err { text, .. } => format!("Err({})", &text[..text.len().min(60)]), o => format!("{o:?}") })).collect::<Vec<_>>(),
    }));
    Ok(())
}

pub fn shrink_conc(case: &ConcCase) -> Vec<ConcCase> {
    let mut out = Vec::new();
    for ci in 0..case.clients.len() {
        for i in (0..case.clients[ci].len()).rev() {
            let mut c = case.clone();
            c.clients[ci].remove(i);
            if c.clients[ci].is_empty() && c.clients.len() > 1 {
                c.clients.remove(ci);
            }
            out.push(c);
        }
    }
    for i in (0..case.prefix.len()).rev() {
        if case.prefix.len() > 1 {
            let mut c = case.clone();
            c.prefix.remove(i);
            out.push(c);
        }
    }
    for bit in [IX_VEC, IX_BODY, IX_CODES, IX_AGE_SCORE, IX_TAGS, IX_SCORE, IX_AGE] {
        if case.knobs.indexes & bit != 0 {
            let mut c = case.clone();
            c.knobs.indexes &= !bit;
            out.push(c);
        }
    }
    if case.knobs.stack != StackKind::Bare {
        let mut c = case.clone();
        c.knobs.stack = StackKind::Bare;
        out.push(c);
    }
    if case.transition_delay > 0 {
        let mut c = case.clone();
        c.transition_delay -= 1;
        out.push(c);
    }
    if case.clock != ClockMode::Tick(2) {
        let mut c = case.clone();
        c.clock = ClockMode::Tick(2);
        out.push(c);
    }
    out
}
