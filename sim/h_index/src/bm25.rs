//! C11 — the full-text index retrieves exactly the matching documents, ranked
//! stably; same answers after compaction, reload and every crash prefix of a
//! flush; concurrent mutations with compaction lose nothing.

use anda_db::index::BM25;
use anda_db::storage::{Storage, StorageConfig};
use anda_db_tfs::{BM25Config, BM25Index, BM25Params, BucketObject, TokenizerChain, default_tokenizer};
use object_store::memory::InMemory;
use serde::{Deserialize, Serialize};
use simcore::batch::{RunReport, Tier, Violation};
use simcore::rng::{Rng, Sig};
use simcore::threads::{ThreadOutcome, ThreadSchedule, ThreadSim, tag_counts};
use simcore::{ClockMode, Sim, SimConfig, SimStore, violation};
use std::collections::{BTreeMap, BTreeSet, HashMap};
use std::sync::{Arc, Mutex};

use crate::btree::block;

pub const WORDS: [&str; 14] = ["zulu", "kilo", "lima", "tango", "delta", "bravo", "alpha", "sigma", "omega", "gamma", "radar", "pixel", "lotus", "mango"];

pub fn vocab() -> Vec<String> {
    let tk = default_tokenizer();
    WORDS
        .iter()
        .filter(|w| {
            let mut t = tk.clone();
            let toks = anda_db_tfs::collect_tokens(&mut t, w, None);
            toks.len() == 1 && toks.contains_key(**w)
        })
        .map(|w| w.to_string())
        .take(10)
        .collect()
}

/// doc id -> token multiset
pub type DM = BTreeMap<u64, Vec<String>>;

#[derive(Clone, Debug, Serialize, Deserialize, PartialEq, Eq, Hash)]
pub enum TOp {
    Insert { id: u64, words: Vec<u8> },
    /// remove with the original text, or with `other` words instead
    Remove { id: u64, other: Option<Vec<u8>> },
    Purge { ids: Vec<u64> },
    Compact,
    Flush,
    Reload,
}

#[derive(Clone, Debug, Serialize, Deserialize, PartialEq)]
pub enum TQ {
    Term(u8),
    And(Vec<TQ>),
    Or(Vec<TQ>),
    Not(Box<TQ>),
}

impl TQ {
    pub fn generate(rng: &mut Rng, depth: u32) -> TQ {
        if depth == 0 || rng.chance(2, 5) {
            return TQ::Term(rng.below(11) as u8); // 10 = absent word
        }
        match rng.below(3) {
            0 => TQ::And((0..rng.range(2, 3)).map(|_| TQ::generate(rng, depth - 1)).collect()),
            1 => TQ::Or((0..rng.range(2, 3)).map(|_| TQ::generate(rng, depth - 1)).collect()),
            _ => TQ::Not(Box::new(TQ::generate(rng, depth - 1))),
        }
    }
    fn word(w: u8, v: &[String]) -> String {
        if w as usize >= v.len() { "absentword".to_string() } else { v[w as usize].clone() }
    }
    pub fn text(&self, v: &[String]) -> String {
        match self {
            TQ::Term(w) => TQ::word(*w, v),
            TQ::And(q) => format!("({})", q.iter().map(|x| x.text(v)).collect::<Vec<_>>().join(" AND ")),
            TQ::Or(q) => format!("({})", q.iter().map(|x| x.text(v)).collect::<Vec<_>>().join(" OR ")),
            TQ::Not(q) => format!("(NOT {})", match &**q {
                TQ::Term(w) => TQ::word(*w, v),
                other => other.text(v),
            }),
        }
    }
    pub fn eval(&self, m: &DM, v: &[String]) -> BTreeSet<u64> {
        match self {
            TQ::Term(w) => {
                let t = TQ::word(*w, v);
                m.iter().filter(|(_, toks)| toks.contains(&t)).map(|(id, _)| *id).collect()
            }
            TQ::And(q) => {
                let mut it = q.iter().map(|x| x.eval(m, v));
                let mut acc = it.next().unwrap_or_default();
                for s in it {
                    acc = acc.intersection(&s).copied().collect();
                }
                acc
            }
            TQ::Or(q) => q.iter().flat_map(|x| x.eval(m, v)).collect(),
            TQ::Not(q) => {
                let ex = q.eval(m, v);
                m.keys().filter(|id| !ex.contains(id)).copied().collect()
            }
        }
    }
}

fn text_of(words: &[u8], v: &[String]) -> String {
    words.iter().map(|w| v[*w as usize % v.len()].as_str()).collect::<Vec<_>>().join(" ")
}

pub fn model_apply(m: &mut DM, op: &TOp, v: &[String]) -> Result<u64, ()> {
    match op {
        TOp::Insert { id, words } => {
            if m.contains_key(id) || words.is_empty() {
                return Err(());
            }
            m.insert(*id, words.iter().map(|w| v[*w as usize % v.len()].clone()).collect());
            Ok(1)
        }
        TOp::Remove { id, .. } => Ok(m.remove(id).is_some() as u64),
        TOp::Purge { ids } => {
            let mut n = 0;
            for id in ids.iter().collect::<BTreeSet<_>>() {
                if m.remove(id).is_some() {
                    n += 1;
                }
            }
            Ok(n)
        }
        _ => Ok(0),
    }
}

pub fn real_apply(idx: &BM25Index<TokenizerChain>, op: &TOp, m_before: &DM, v: &[String], now: u64) -> Result<u64, String> {
    match op {
        TOp::Insert { id, words } => idx.insert(*id, &text_of(words, v), now).map(|_| 1).map_err(|e| format!("{e:?}")),
        TOp::Remove { id, other } => {
            let text = match other {
                Some(o) => text_of(o, v),
                None => m_before.get(id).map(|t| t.join(" ")).unwrap_or_else(|| v[0].clone()),
            };
            Ok(idx.remove(*id, &text, now) as u64)
        }
        TOp::Purge { ids } => Ok(idx.purge_ids(&ids.iter().copied().collect(), now) as u64),
        TOp::Compact => {
            idx.compact_buckets();
            Ok(0)
        }
        _ => Ok(0),
    }
}

fn params_battery() -> Vec<Option<BM25Params>> {
    vec![
        None,
        Some(BM25Params { k1: 1.2, b: 0.75 }),
        Some(BM25Params { k1: 0.0, b: 0.0 }),
        Some(BM25Params { k1: f32::NAN, b: 0.5 }),
        Some(BM25Params { k1: f32::INFINITY, b: f32::NEG_INFINITY }),
        Some(BM25Params { k1: -3.0, b: 7.0 }),
        Some(BM25Params { k1: 2.0, b: f32::NAN }),
    ]
}

fn check_ranked(res: &[(u64, f32)], what: &str, ctx: &str) -> Result<(), Violation> {
    let mut seen = BTreeSet::new();
    for (id, s) in res {
        if !seen.insert(*id) {
            return Err(violation!("c11.duplicate", "{ctx}: {what} returned id {id} twice"));
        }
        if !s.is_finite() || *s < 0.0 {
            return Err(violation!("c11.score", "{ctx}: {what} returned score {s} for id {id}"));
        }
    }
    for w in res.windows(2) {
        let (a, b) = (w[0], w[1]);
        if a.1 < b.1 || (a.1 == b.1 && a.0 > b.0) {
            return Err(violation!("c11.order", "{ctx}: {what} is not ordered by score descending then id: {res:?}"));
        }
    }
    Ok(())
}

/// The whole query battery against the model.
pub fn check_queries(idx: &BM25Index<TokenizerChain>, m: &DM, v: &[String], queries: &[TQ], ctx: &str, rep: &mut RunReport) -> Result<(), Violation> {
    if idx.len() != m.len() {
        return Err(violation!("c11.count", "{ctx}: len() = {}, the model holds {} documents", idx.len(), m.len()));
    }
    let total: usize = m.values().map(|t| t.len()).sum();
    let st = idx.stats();
    if st.num_elements != m.len() as u64 {
        return Err(violation!("c11.count", "{ctx}: stats().num_elements = {}, the model holds {}", st.num_elements, m.len()));
    }
    if !m.is_empty() {
        let avg = total as f32 / m.len() as f32;
        if (st.avg_doc_tokens - avg).abs() > 1e-3 {
            return Err(violation!("c11.avg-length", "{ctx}: avg_doc_tokens = {}, the model says {avg}", st.avg_doc_tokens));
        }
    }
    let n = m.len();
    for w in 0..=v.len() as u8 {
        let q = TQ::Term(w);
        let text = q.text(v);
        let want = q.eval(m, v);
        for params in params_battery() {
            let res = idx.search(&text, n + 8, params.clone());
            check_ranked(&res, &format!("search({text}, params={params:?})"), ctx)?;
            let got: BTreeSet<u64> = res.iter().map(|(id, _)| *id).collect();
            if got != want {
                return Err(violation!("c11.term", "{ctx}: search({text}) returned {got:?}, the documents containing it are {want:?}"));
            }
        }
        // top-k is a prefix of top-(k+1); repeated queries agree
        let full = idx.search(&text, n + 8, None);
        if idx.search(&text, n + 8, None) != full {
            return Err(violation!("c11.unstable", "{ctx}: repeating search({text}) returned a different list"));
        }
        for k in 0..=n + 1 {
            let r = idx.search(&text, k, None);
            let want_prefix: Vec<(u64, f32)> = full.iter().take(k).copied().collect();
            if r != want_prefix {
                return Err(violation!("c11.topk-prefix", "{ctx}: search({text}, k={k}) = {r:?} is not the prefix of the full ranking {full:?}"));
            }
        }
        rep.probe("term_queries_checked", 1);
    }
    // multi-word (implicit OR)
    if v.len() >= 3 {
        let text = format!("{} {}", v[0], v[2]);
        let want = TQ::Or(vec![TQ::Term(0), TQ::Term(2)]).eval(m, v);
        let got: BTreeSet<u64> = idx.search(&text, n + 8, None).iter().map(|(id, _)| *id).collect();
        if got != want {
            return Err(violation!("c11.term", "{ctx}: search({text}) returned {got:?}, expected {want:?}"));
        }
    }
    for q in queries {
        let text = q.text(v);
        let want = q.eval(m, v);
        let res = idx.try_search_advanced(&text, n + 8, None).map_err(|e| violation!("c11.boolean-error", "{ctx}: search_advanced({text}) failed: {e:?}"))?;
        check_ranked(&res, &format!("search_advanced({text})"), ctx)?;
        let got: BTreeSet<u64> = res.iter().map(|(id, _)| *id).collect();
        if got != want {
            return Err(violation!("c11.boolean", "{ctx}: search_advanced({text}) returned {got:?}, its AND/OR/NOT structure denotes {want:?}"));
        }
        for k in 1..=n + 1 {
            let r = idx.search_advanced(&text, k, None);
            let want_prefix: Vec<(u64, f32)> = res.iter().take(k).copied().collect();
            if r != want_prefix {
                return Err(violation!("c11.topk-prefix", "{ctx}: search_advanced({text}, k={k}) is not a prefix of the full ranking"));
            }
        }
        rep.probe("boolean_queries_checked", 1);
    }
    Ok(())
}

/// Observable contents of an index through its query interface: word -> ids, plus doc count.
pub fn contents(idx: &BM25Index<TokenizerChain>, v: &[String]) -> (BTreeMap<String, BTreeSet<u64>>, usize) {
    let mut m = BTreeMap::new();
    for w in v {
        let ids: BTreeSet<u64> = idx.search(w, 10_000, None).iter().map(|(id, _)| *id).collect();
        if !ids.is_empty() {
            m.insert(w.clone(), ids);
        }
    }
    (m, idx.len())
}
pub fn model_contents(m: &DM, v: &[String]) -> (BTreeMap<String, BTreeSet<u64>>, usize) {
    let mut out = BTreeMap::new();
    for w in v {
        let ids: BTreeSet<u64> = m.iter().filter(|(_, t)| t.contains(w)).map(|(id, _)| *id).collect();
        if !ids.is_empty() {
            out.insert(w.clone(), ids);
        }
    }
    (out, m.len())
}

#[derive(Clone, Debug, Serialize, Deserialize)]
pub enum TCase {
    Seq { seed: u64, bucket: usize, ops: Vec<TOp>, queries: Vec<TQ> },
    Persist { seed: u64, bucket: usize, compress: i32, ops: Vec<TOp> },
    Threads { seed: u64, bucket: usize, prefix: Vec<TOp>, threads: Vec<Vec<TOp>>, schedule: u8, sched_seed: u64, explicit: Option<Vec<u32>> },
}

fn gen_op(rng: &mut Rng, persist: bool, odd: bool) -> TOp {
    let id = |rng: &mut Rng| rng.range(1, 8);
    let words = |rng: &mut Rng| (0..rng.range(1, 6)).map(|_| rng.below(10) as u8).collect::<Vec<u8>>();
    match rng.weighted(&[40, 22, if odd { 6 } else { 0 }, 6, if persist { 10 } else { 0 }, if persist { 4 } else { 0 }]) {
        0 => TOp::Insert { id: id(rng), words: words(rng) },
        1 => TOp::Remove { id: id(rng), other: if odd && rng.chance(1, 4) { Some(words(rng)) } else { None } },
        2 => TOp::Purge { ids: (0..rng.range(1, 3)).map(|_| id(rng)).collect() },
        3 => TOp::Compact,
        4 => TOp::Flush,
        _ => TOp::Reload,
    }
}

pub fn generate(case_seed: u64, idx: u64, tier: Tier) -> TCase {
    let mut rng = Rng::stream(case_seed, "bm25");
    let bucket = *rng.pick(&[64usize, 128, 256, 512]);
    match idx % 3 {
        0 => {
            let ops: Vec<TOp> = if rng.chance(1, 3) {
                // flush-heavy regime over a narrow vocabulary: most mutations meet
                // fully persisted (clean) buckets and most tokens of a new document
                // are already tracked, so per-bucket bookkeeping that is only
                // exercised by the *next* flush cannot hide behind a neighbour
                let n = rng.range(10, if tier == Tier::Thorough { 48 } else { 30 });
                let narrow: Vec<u8> = (0..rng.range(3, 5)).map(|_| rng.below(10) as u8).collect();
                let mut ops = Vec::new();
                for _ in 0..n {
                    let mut op = gen_op(&mut rng, true, true);
                    match &mut op {
                        TOp::Insert { words, .. } if rng.chance(3, 4) => {
                            for w in words.iter_mut() {
                                *w = *rng.pick(&narrow);
                            }
                        }
                        TOp::Remove { other, .. } if rng.chance(1, 2) => {
                            // non-original text, mostly outside the narrow vocabulary
                            *other = Some((0..rng.range(1, 3)).map(|_| rng.below(10) as u8).collect());
                        }
                        _ => {}
                    }
                    let mutation = !matches!(op, TOp::Flush | TOp::Reload);
                    ops.push(op);
                    if mutation && rng.chance(3, 4) {
                        ops.push(TOp::Flush);
                    }
                }
                ops
            } else {
                let n = rng.range(4, if tier == Tier::Thorough { 22 } else { 12 });
                (0..n).map(|_| gen_op(&mut rng, true, true)).collect()
            };
            TCase::Seq { seed: case_seed, bucket, ops, queries: (0..5).map(|_| TQ::generate(&mut rng, 3)).collect() }
        }
        1 => {
            let n = rng.range(4, 14);
            let mut ops: Vec<TOp> = (0..n).map(|_| gen_op(&mut rng, true, false)).collect();
            ops.push(TOp::Flush);
            TCase::Persist { seed: case_seed, bucket, compress: if rng.bool() { 0 } else { 3 }, ops }
        }
        _ => {
            let np = rng.range(4, 16);
            let prefix: Vec<TOp> = (0..np).map(|i| TOp::Insert { id: 20 + i, words: (0..rng.range(1, 5)).map(|_| rng.below(10) as u8).collect() }).collect();
            let nt = rng.range(2, 3);
            let mut threads: Vec<Vec<TOp>> = (0..nt)
                .map(|t| {
                    (0..rng.range(2, 4))
                        .map(|_| {
                            // threads own disjoint id ranges for inserts; removes may target prefix docs
                            match rng.below(3) {
                                0 | 1 => TOp::Insert { id: 100 * (t + 1) + rng.range(1, 4), words: (0..rng.range(1, 4)).map(|_| rng.below(10) as u8).collect() },
                                _ => TOp::Remove { id: 20 + rng.below(np), other: None },
                            }
                        })
                        .collect()
                })
                .collect();
            if rng.chance(3, 4) {
                let t = rng.usize(threads.len());
                let pos = rng.usize(threads[t].len() + 1);
                threads[t].insert(pos, TOp::Compact);
            }
            if rng.chance(1, 3) {
                let t = rng.usize(threads.len());
                threads[t].push(TOp::Purge { ids: vec![20 + rng.below(np)] });
            }
            TCase::Threads { seed: case_seed, bucket, prefix, threads, schedule: rng.below(3) as u8, sched_seed: rng.next_u64(), explicit: None }
        }
    }
}

type Disk = HashMap<String, Vec<u8>>;
fn bucket_name(o: BucketObject) -> String {
    format!("b_{}_{}", o.bucket_id, o.generation)
}
fn load_from(disk: &Disk) -> Result<Option<BM25Index<TokenizerChain>>, String> {
    let Some(meta) = disk.get("meta") else { return Ok(None) };
    let d2 = disk.clone();
    block(BM25Index::load_all(default_tokenizer(), &meta[..], async move |o: BucketObject| Ok(d2.get(&bucket_name(o)).cloned())))
        .map(Some)
        .map_err(|e| format!("{e:?}"))
}

type Snap = (BTreeMap<String, BTreeSet<u64>>, usize);

fn flush_with_prefix_sweep(idx: &BM25Index<TokenizerChain>, disk: &mut Disk, committed: &Snap, now_model: &Snap, v: &[String], ctx: &str, rep: &mut RunReport, sigs: &mut Vec<u64>) -> Result<bool, Violation> {
    let writes: Arc<Mutex<Vec<(String, Vec<u8>)>>> = Arc::new(Mutex::new(Vec::new()));
    let w2 = writes.clone();
    let mut meta_buf: Vec<u8> = Vec::new();
    let out = block(idx.flush(&mut meta_buf, 1_700_000_000_000, move |o: BucketObject, data: Vec<u8>| {
        let w2 = w2.clone();
        async move {
            w2.lock().unwrap().push((bucket_name(o), data));
            Ok(())
        }
    }))
    .map_err(|e| violation!("c11.flush-error", "{ctx}: flush failed: {e:?}"))?;
    if !out.saved {
        return Ok(false);
    }
    let mut seq = writes.lock().unwrap().clone();
    seq.push(("meta".into(), meta_buf));
    for j in 0..=seq.len() {
        let mut d = disk.clone();
        for (p, b) in &seq[..j] {
            d.insert(p.clone(), b.clone());
        }
        let want = if j == seq.len() { now_model } else { committed };
        let loaded = load_from(&d).map_err(|e| violation!("c11.load-error", "{ctx}: load after flush interrupted at write {j}/{} failed: {e}", seq.len()))?;
        let got = loaded.as_ref().map(|l| contents(l, v)).unwrap_or_default();
        if &got != want {
            return Err(violation!("c11.crash-prefix", "{ctx}: load after flush interrupted at write {j}/{} yields {got:?}; committed {committed:?}, interrupted {now_model:?}", seq.len()));
        }
        let mut s = Sig::default();
        s.add(j as u64);
        s.add(seq.len() as u64);
        s.add_str(&format!("{:?}", d.keys().collect::<BTreeSet<_>>()));
        sigs.push(s.0);
        rep.fire("power_loss_in_flush", 1);
    }
    for (p, b) in seq {
        disk.insert(p, b);
    }
    for (j, o) in out.obsolete.iter().enumerate() {
        disk.remove(&bucket_name(*o));
        let loaded = load_from(disk).map_err(|e| violation!("c11.load-error", "{ctx}: load after deleting {} obsolete objects failed: {e}", j + 1))?;
        let got = loaded.as_ref().map(|l| contents(l, v)).unwrap_or_default();
        if &got != now_model {
            return Err(violation!("c11.crash-prefix", "{ctx}: after deleting {} obsolete bucket objects a load yields {got:?}, expected {now_model:?}", j + 1));
        }
        rep.fire("power_loss_in_obsolete_deletion", 1);
    }
    if !out.obsolete.is_empty() {
        rep.probe("flush_retired_obsolete_buckets", out.obsolete.len() as u64);
    }
    Ok(true)
}

fn run_seq(seed: u64, bucket: usize, ops: &[TOp], queries: &[TQ], rep: &mut RunReport) -> Result<(), Violation> {
    let v = vocab();
    if v.len() < 10 {
        return Err(violation!("harness.vocab", "tokenizer fixpoint vocabulary too small: {v:?}"));
    }
    let cfg = BM25Config { bucket_overload_size: bucket, ..Default::default() };
    let mut idx = BM25Index::new("t".to_string(), default_tokenizer(), Some(cfg.clone()));
    let mut m = DM::new();
    let mut disk = Disk::new();
    let mut committed = DM::new();
    let mut sigs = Vec::new();
    let mut trace = Sig::default();
    trace.add(seed);
    for (i, op) in ops.iter().enumerate() {
        let ctx = format!("after op#{i} {op:?}");
        match op {
            TOp::Flush => {
                if flush_with_prefix_sweep(&idx, &mut disk, &model_contents(&committed, &v), &model_contents(&m, &v), &v, &ctx, rep, &mut sigs)? {
                    committed = m.clone();
                }
            }
            TOp::Reload => {
                if let Some(l) = load_from(&disk).map_err(|e| violation!("c11.load-error", "{ctx}: reload failed: {e}"))? {
                    idx = l;
                    m = committed.clone();
                } else {
                    idx = BM25Index::new("t".to_string(), default_tokenizer(), Some(cfg.clone()));
                    m = DM::new();
                }
                rep.probe("reloads", 1);
            }
            _ => {
                let mut m2 = m.clone();
                let want = model_apply(&mut m2, op, &v);
                let b0 = idx.stats().max_bucket_id;
                let got = real_apply(&idx, op, &m, &v, 1_700_000_000_000 + i as u64);
                match (&want, &got) {
                    (Ok(a), Ok(b)) => {
                        if a != b && !matches!(op, TOp::Compact) {
                            return Err(violation!("c11.return", "op#{i} {op:?} returned {b}, the model says {a}"));
                        }
                        m = m2;
                    }
                    (Err(()), Err(_)) => {}
                    (w, g) => return Err(violation!("c11.return", "op#{i} {op:?} returned {g:?}, the model says {w:?}")),
                }
                if idx.stats().max_bucket_id > b0 {
                    rep.probe("bucket_split_or_migration", 1);
                }
                if matches!(op, TOp::Remove { other: Some(_), .. }) {
                    rep.probe("remove_with_non_original_text", 1);
                }
                trace.add_str(&format!("{got:?}"));
            }
        }
        check_queries(&idx, &m, &v, queries, &ctx, rep)?;
    }
    rep.evaluations = ops.len() as u64 + sigs.len() as u64;
    sigs.push(trace.0);
    rep.nontrivial_sigs = sigs;
    rep.trace_hash = trace.0;
    rep.sample = Some(serde_json::json!({"kind": "seq", "bucket": bucket, "ops": ops.iter().map(|o| format!("{o:?}")).collect::<Vec<_>>(), "queries": queries.iter().take(3).map(|q| q.text(&v)).collect::<Vec<_>>()}));
    Ok(())
}

fn storage_for(store: &SimStore, bucket: usize, compress: i32) -> Result<Storage, String> {
    let cfg = StorageConfig { cache_max_capacity: 0, compress_level: compress, bucket_overload_size: bucket, ..Default::default() };
    block(Storage::connect("ix".to_string(), Arc::new(store.clone()), cfg)).map_err(|e| format!("{e:?}"))
}

fn wrapper_contents(b: &BM25, v: &[String]) -> Snap {
    let mut m = BTreeMap::new();
    for w in v {
        let ids: BTreeSet<u64> = b.search(w, 10_000, None).iter().map(|(id, _)| *id).collect();
        if !ids.is_empty() {
            m.insert(w.clone(), ids);
        }
    }
    (m, b.stats().num_elements as usize)
}

fn run_persist(seed: u64, bucket: usize, compress: i32, ops: &[TOp], rep: &mut RunReport) -> Result<(), Violation> {
    let v = vocab();
    let mut cfg = SimConfig::simple(seed);
    cfg.park = false;
    cfg.clock = ClockMode::Tick(2);
    cfg.record_trace = false;
    let sim = Sim::new(&cfg);
    sim.install_clock_here();
    let store = SimStore::new(sim.clone(), InMemory::new());
    let storage = storage_for(&store, bucket, compress).map_err(|e| violation!("c11.setup", "storage connect failed: {e}"))?;
    store.set_record_forks(true);
    store.set_marker(0);
    let mut b = block(BM25::new(vec!["body".to_string()], default_tokenizer(), storage.clone(), 1)).map_err(|e| violation!("c11.setup", "BM25::new failed: {e:?}"))?;
    let mut m = DM::new();
    let mut committed = DM::new();
    let mut committed_at: Vec<Snap> = vec![Default::default()];
    let mut now_at: Vec<Snap> = vec![Default::default()];
    for (i, op) in ops.iter().enumerate() {
        store.set_marker(i as u64 + 1);
        committed_at.push(model_contents(&committed, &v));
        now_at.push(model_contents(&m, &v));
        match op {
            TOp::Insert { id, words } => {
                let mut m2 = m.clone();
                let want = model_apply(&mut m2, op, &v);
                let r = b.insert(*id, &text_of(words, &v), 2 + i as u64);
                match (want, r) {
                    (Ok(_), Ok(())) => m = m2,
                    (Err(()), Err(_)) => {}
                    (w, r) => return Err(violation!("c11.return", "op#{i} {op:?}: model {w:?}, wrapper {r:?}")),
                }
            }
            TOp::Remove { id, .. } => {
                let text = m.get(id).map(|t| t.join(" ")).unwrap_or_else(|| v[0].clone());
                let had = m.remove(id).is_some();
                let r = b.remove(*id, &text, 2 + i as u64);
                if r != had {
                    return Err(violation!("c11.return", "op#{i} {op:?}: wrapper returned {r}, model says {had}"));
                }
            }
            TOp::Purge { ids } => {
                let set: BTreeSet<u64> = ids.iter().copied().collect();
                b.purge_ids(&set, 2 + i as u64);
                for id in set {
                    m.remove(&id);
                }
            }
            TOp::Compact => {
                block(b.compact_index()).map_err(|e| violation!("c11.compact-error", "op#{i}: compact_index failed: {e:?}"))?;
                if !b.has_pending_flush() {
                    committed = m.clone();
                }
            }
            TOp::Flush => {
                block(b.flush(2 + i as u64)).map_err(|e| violation!("c11.flush-error", "op#{i}: flush failed: {e:?}"))?;
                committed = m.clone();
            }
            TOp::Reload => {
                let st2 = storage_for(&store, bucket, compress).map_err(|e| violation!("c11.setup", "storage connect failed: {e}"))?;
                // two reloads in three meet one failing backend read (a transient
                // error, not NotFound): the bootstrap may refuse - and must then get
                // through on the next, fault-free attempt - but it must not come up
                // with part of what the last flush committed (checked right below)
                let k = simcore::rng::derive(seed ^ (i as u64) << 20, "reload-read-fault") % 30;
                let fired0: u64 = sim.fired().values().sum();
                if k < 20 {
                    sim.set_faults(vec![simcore::FaultSpec { site: simcore::Site::Call(sim.calls() + k), kind: simcore::FaultKind::FailBefore }]);
                }
                let r = block(BM25::bootstrap("body".to_string(), default_tokenizer(), st2));
                let fired = sim.fired().values().sum::<u64>() > fired0;
                sim.clear_faults();
                b = match r {
                    Ok(b2) => {
                        if fired {
                            rep.probe("bootstrap_survived_a_read_fault", 1);
                        }
                        b2
                    }
                    Err(_) if fired => {
                        rep.probe("bootstrap_refused_on_read_fault", 1);
                        rep.fire("read_error_in_bootstrap", 1);
                        let st3 = storage_for(&store, bucket, compress).map_err(|e| violation!("c11.setup", "storage connect failed: {e}"))?;
                        block(BM25::bootstrap("body".to_string(), default_tokenizer(), st3)).map_err(|e| violation!("c11.load-error", "op#{i}: bootstrap failed on an injected read error and again without any fault: {e:?}"))?
                    }
                    Err(e) => return Err(violation!("c11.load-error", "op#{i}: bootstrap failed: {e:?}")),
                };
                m = committed.clone();
            }
        }
        let got = wrapper_contents(&b, &v);
        if got != model_contents(&m, &v) {
            return Err(violation!("c11.contents", "after op#{i} {op:?}: wrapper answers {got:?}, the model says {:?}", model_contents(&m, &v)));
        }
    }
    store.set_record_forks(false);
    let forks = store.take_forks();
    rep.merge_fired(&sim.fired());
    rep.steps += sim.calls();
    let mut sigs = Vec::new();
    let nf = forks.len();
    for f in forks {
        let mk = f.marker as usize;
        let ctx = format!(
            "crash before backend mutation #{} ({} {}) inside {}",
            f.mutations_before,
            f.next_kind.short(),
            f.next_path,
            if mk == 0 { "index creation".to_string() } else { format!("op#{} {:?}", mk - 1, ops[mk - 1]) }
        );
        let mut cfg2 = SimConfig::simple(seed ^ 0xF1);
        cfg2.park = false;
        cfg2.record_trace = false;
        cfg2.start_ms = f.clock_ms + 3;
        let sim2 = Sim::new(&cfg2);
        sim2.install_clock_here();
        let st = SimStore::new(sim2, f.disk);
        sigs.push(SimStore::disk_signature(st.disk()) ^ simcore::rng::mix(mk as u64));
        let storage2 = storage_for(&st, bucket, compress).map_err(|e| violation!("c11.load-error", "{ctx}: storage connect failed: {e}"))?;
        match block(BM25::bootstrap("body".to_string(), default_tokenizer(), storage2)) {
            Ok(b2) => {
                let got = wrapper_contents(&b2, &v);
                let (old, new) = (&committed_at[mk], &now_at[mk]);
                if &got != old && &got != new {
                    return Err(violation!("c11.crash-prefix", "{ctx}: bootstrap answers {got:?}; last committed flush {old:?}, interrupted flush {new:?}"));
                }
                let _ = b2.insert(9999, &v[1], 5);
                block(b2.flush(6)).map_err(|e| violation!("c11.no-progress", "{ctx}: flush after recovery failed: {e:?}"))?;
                // what the recovered index answers survives its own next flush and a clean reload
                let want = wrapper_contents(&b2, &v);
                let storage3 = storage_for(&st, bucket, compress).map_err(|e| violation!("c11.load-error", "{ctx}: storage connect failed: {e}"))?;
                let b3 = block(BM25::bootstrap("body".to_string(), default_tokenizer(), storage3)).map_err(|e| violation!("c11.lost-after-recovery-flush", "{ctx}: after the recovered index flushed once more, loading it again failed: {e:?}"))?;
                let back = wrapper_contents(&b3, &v);
                if back != want {
                    return Err(violation!("c11.lost-after-recovery-flush", "{ctx}: the recovered index answered {want:?} after its next flush, but a clean reload answers {back:?}"));
                }
                rep.probe("recovered_then_flushed_then_reloaded", 1);
            }
            Err(e) => {
                if mk != 0 {
                    return Err(violation!("c11.load-error", "{ctx}: bootstrap failed: {e:?}"));
                }
            }
        }
        rep.fire("power_loss", 1);
    }
    sim.install_clock_here();
    rep.evaluations = nf as u64 + 1;
    rep.nontrivial_sigs = sigs;
    rep.trace_hash = sim.full_signature();
    rep.sample = Some(serde_json::json!({"kind": "persist", "bucket": bucket, "ops": ops.iter().map(|o| format!("{o:?}")).collect::<Vec<_>>(), "crash_points": nf}));
    Ok(())
}

fn run_threads(seed: u64, bucket: usize, prefix: &[TOp], threads: &[Vec<TOp>], schedule: u8, sched_seed: u64, explicit: &Option<Vec<u32>>, rep: &mut RunReport) -> Result<(), Violation> {
    let v = vocab();
    let cfg = BM25Config { bucket_overload_size: bucket, ..Default::default() };
    let idx = Arc::new(BM25Index::new("t".to_string(), default_tokenizer(), Some(cfg)));
    let mut m = DM::new();
    for op in prefix {
        let r = real_apply(&idx, op, &m, &v, 1);
        let mut m2 = m.clone();
        let want = model_apply(&mut m2, op, &v);
        match (&want, &r) {
            (Ok(a), Ok(b)) if a == b => m = m2,
            (Err(()), Err(_)) => {}
            _ => return Err(violation!("c11.return", "prefix {op:?} returned {r:?}, model says {want:?}")),
        }
    }
    // Threads own disjoint insert ids; removes/purges target prefix docs with
    // their original text. The final state is therefore schedule-independent
    // except for which concurrent remove of one doc returns true.
    let m0 = m.clone();
    let results: Arc<Mutex<Vec<(usize, TOp, Result<u64, String>)>>> = Arc::new(Mutex::new(Vec::new()));
    let mut bodies: Vec<Box<dyn FnOnce() + Send>> = Vec::new();
    for (ti, ops) in threads.iter().enumerate() {
        let idx = idx.clone();
        let ops = ops.clone();
        let v2 = v.clone();
        let m0 = m0.clone();
        let results = results.clone();
        bodies.push(Box::new(move || {
            for op in ops {
                let r = real_apply(&idx, &op, &m0, &v2, 2);
                results.lock().unwrap().push((ti, op, r));
                simcore::threads::point("harness.between-ops");
            }
        }));
    }
    let mode = match explicit {
        Some(x) => ThreadSchedule::Explicit(x.clone()),
        None => match schedule {
            0 => ThreadSchedule::Uniform(sched_seed),
            1 => ThreadSchedule::Pct(sched_seed, 3, 80),
            _ => ThreadSchedule::Sticky(sched_seed, 4),
        },
    };
    let r = ThreadSim::run(mode, seed, None, bodies);
    rep.steps += r.steps;
    for (t, n) in tag_counts(&r.trace) {
        rep.probe(&format!("yield:{t}"), n);
    }
    rep.probe("thread_switches", r.switches);
    match &r.outcome {
        ThreadOutcome::Done => {}
        ThreadOutcome::Panic(p) => return Err(violation!("c11.thread-panic", "a thread panicked: {p}")),
        o => return Err(violation!("c11.thread-liveness", "threads did not finish: {o:?}")),
    }
    // expected final model: all inserts applied (disjoint ids; duplicates within a thread refused), all removed/purged prefix docs gone
    let mut fin = m0.clone();
    let res = results.lock().unwrap().clone();
    for (_, op, r) in &res {
        match op {
            TOp::Insert { id, words } => {
                let fresh = !fin.contains_key(id);
                match (fresh, r) {
                    (true, Ok(_)) => {
                        fin.insert(*id, words.iter().map(|w| v[*w as usize % v.len()].clone()).collect());
                    }
                    (false, Err(_)) => {}
                    (f, r) => return Err(violation!("c11.thread-return", "{op:?}: fresh={f} but returned {r:?}")),
                }
            }
            _ => {}
        }
    }
    // removes: exactly one of the concurrent removes/purges of a document reports it
    let mut removed_count: BTreeMap<u64, u64> = BTreeMap::new();
    for (_, op, r) in &res {
        match op {
            TOp::Remove { id, .. } => {
                *removed_count.entry(*id).or_default() += r.clone().unwrap_or(0);
                fin.remove(id);
            }
            TOp::Purge { ids } => {
                let n = r.clone().unwrap_or(0);
                for id in ids {
                    *removed_count.entry(*id).or_default() += n.min(1);
                    fin.remove(id);
                }
            }
            _ => {}
        }
    }
    for (id, n) in &removed_count {
        if m0.contains_key(id) && *n != 1 {
            return Err(violation!("c11.thread-remove-count", "document {id} was reported removed {n} times by concurrent removes/purges"));
        }
    }
    let got = contents(&idx, &v);
    let want = model_contents(&fin, &v);
    if got != want {
        return Err(violation!("c11.thread-final", "after the threads finished the index answers {got:?}, expected {want:?}"));
    }
    check_queries(&idx, &fin, &v, &[], "after threads", rep)?;
    let mut disk = Disk::new();
    let mut sigs = Vec::new();
    flush_with_prefix_sweep(&idx, &mut disk, &Default::default(), &want, &v, "after threads", rep, &mut sigs)?;
    rep.evaluations = 1;
    if r.switches > 0 {
        rep.nontrivial_sigs.push(r.signature);
    }
    rep.trace_hash = r.signature;
    rep.sample = Some(serde_json::json!({"kind": "threads", "bucket": bucket, "prefix": prefix.len(), "threads": threads.iter().map(|t| t.iter().map(|o| format!("{o:?}")).collect::<Vec<_>>()).collect::<Vec<_>>(), "steps": r.steps, "switches": r.switches}));
    Ok(())
}

pub fn execute(case: &TCase, rep: &mut RunReport) -> Result<(), Violation> {
    match case {
        TCase::Seq { seed, bucket, ops, queries } => run_seq(*seed, *bucket, ops, queries, rep),
        TCase::Persist { seed, bucket, compress, ops } => run_persist(*seed, *bucket, *compress, ops, rep),
        TCase::Threads { seed, bucket, prefix, threads, schedule, sched_seed, explicit } => run_threads(*seed, *bucket, prefix, threads, *schedule, *sched_seed, explicit, rep),
    }
}

pub fn seed_of(case: &TCase) -> u64 {
    match case {
        TCase::Seq { seed, .. } | TCase::Persist { seed, .. } | TCase::Threads { seed, .. } => *seed,
    }
}

pub fn shrink(case: &TCase) -> Vec<TCase> {
    let mut out = Vec::new();
    match case {
        TCase::Seq { seed, bucket, ops, queries } => {
            for i in (0..ops.len()).rev() {
                let mut o = ops.clone();
                o.remove(i);
                out.push(TCase::Seq { seed: *seed, bucket: *bucket, ops: o, queries: queries.clone() });
            }
            for i in (0..queries.len()).rev() {
                let mut q = queries.clone();
                q.remove(i);
                out.push(TCase::Seq { seed: *seed, bucket: *bucket, ops: ops.clone(), queries: q });
            }
        }
        TCase::Persist { seed, bucket, compress, ops } => {
            for i in (0..ops.len()).rev() {
                let mut o = ops.clone();
                o.remove(i);
                out.push(TCase::Persist { seed: *seed, bucket: *bucket, compress: *compress, ops: o });
            }
        }
        TCase::Threads { seed, bucket, prefix, threads, schedule, sched_seed, explicit } => {
            for t in 0..threads.len() {
                for i in (0..threads[t].len()).rev() {
                    let mut th = threads.clone();
                    th[t].remove(i);
                    out.push(TCase::Threads { seed: *seed, bucket: *bucket, prefix: prefix.clone(), threads: th, schedule: *schedule, sched_seed: *sched_seed, explicit: explicit.clone() });
                }
            }
            for i in (0..prefix.len()).rev() {
                let mut p = prefix.clone();
                p.remove(i);
                out.push(TCase::Threads { seed: *seed, bucket: *bucket, prefix: p, threads: threads.clone(), schedule: *schedule, sched_seed: *sched_seed, explicit: explicit.clone() });
            }
        }
    }
    out
}
