//! C12 — vector search is sound, distance-ordered, and keeps its recall floor.

use anda_db::index::{Hnsw, HnswConfig as WHnswConfig};
use anda_db::schema::{Fe, Ft};
use anda_db::storage::{Storage, StorageConfig};
use anda_db_hnsw::{DistanceMetric, HnswConfig, HnswIndex, SelectNeighborsStrategy, half::bf16};
use object_store::memory::InMemory;
use serde::{Deserialize, Serialize};
use simcore::batch::{RunReport, Tier, Violation};
use simcore::rng::{Rng, Sig};
use simcore::{ClockMode, Sim, SimConfig, SimStore, violation};
use std::collections::{BTreeMap, BTreeSet, HashMap};
use std::sync::{Arc, Mutex};

use crate::btree::block;

fn metric_of(m: u8) -> DistanceMetric {
    match m % 4 {
        0 => DistanceMetric::Euclidean,
        1 => DistanceMetric::Cosine,
        2 => DistanceMetric::InnerProduct,
        _ => DistanceMetric::Manhattan,
    }
}

fn distance(metric: DistanceMetric, a: &[f32], b: &[f32]) -> f32 {
    match metric {
        DistanceMetric::Euclidean => a.iter().zip(b).map(|(x, y)| (x - y) * (x - y)).sum::<f32>().sqrt(),
        DistanceMetric::Cosine => {
            let dot: f32 = a.iter().zip(b).map(|(x, y)| x * y).sum();
            let na: f32 = a.iter().map(|x| x * x).sum::<f32>().sqrt();
            let nb: f32 = b.iter().map(|x| x * x).sum::<f32>().sqrt();
            if na < f32::EPSILON || nb < f32::EPSILON { 1.0 } else { 1.0 - dot / (na * nb) }
        }
        DistanceMetric::InnerProduct => -a.iter().zip(b).map(|(x, y)| x * y).sum::<f32>(),
        DistanceMetric::Manhattan => a.iter().zip(b).map(|(x, y)| (x - y).abs()).sum(),
    }
}

fn vec_from(seed: u64, dim: usize, spread: f32) -> Vec<f32> {
    let mut r = Rng::new(seed);
    // one stored vector in twelve is tiny (norm around 1e-4, far above the
    // zero-vector guard of the cosine metric) or large: magnitude must not
    // matter to an angle, and must scale the other metrics exactly
    let scale = if spread == 2.0 {
        match seed % 12 {
            0 => 2.0f32.powi(-13),
            1 => 2.0f32.powi(-11),
            2 => 2.0f32.powi(9),
            _ => 1.0,
        }
    } else {
        1.0
    };
    (0..dim).map(|_| bf16::from_f32((r.f32() - 0.5) * spread * scale).to_f32()).collect()
}

/// live id -> set of vectors the harness knows this id may hold (1 normally;
/// 2 right after an interrupted flush that may or may not have rewritten it)
type Live = BTreeMap<u64, Vec<Vec<f32>>>;

fn close(a: f32, b: f32) -> bool {
    let tol = 2e-2 * (1.0 + a.abs().max(b.abs()));
    (a - b).abs() <= tol
}

/// Soundness of one search result against the harness's own copy.
fn check_sound(res: &[(u64, f32)], k: usize, q: &[f32], metric: DistanceMetric, live: &Live, ctx: &str) -> Result<(), Violation> {
    if res.len() > k {
        return Err(violation!("c12.too-many", "{ctx}: search(k={k}) returned {} results", res.len()));
    }
    let mut seen = BTreeSet::new();
    let mut prev = f32::NEG_INFINITY;
    for (id, d) in res {
        if !seen.insert(*id) {
            return Err(violation!("c12.duplicate", "{ctx}: search returned id {id} twice"));
        }
        let Some(vs) = live.get(id) else {
            return Err(violation!("c12.ghost", "{ctx}: search returned id {id}, which is not in the index"));
        };
        if !d.is_finite() {
            return Err(violation!("c12.distance", "{ctx}: non-finite distance {d} for id {id}"));
        }
        if *d < prev && !close(*d, prev) {
            return Err(violation!("c12.order", "{ctx}: distances are not non-decreasing: {res:?}"));
        }
        prev = prev.max(*d);
        if !vs.iter().any(|v| close(distance(metric, q, v), *d)) {
            return Err(violation!(
                "c12.distance",
                "{ctx}: id {id} reported at distance {d}, the configured metric gives {:?}",
                vs.iter().map(|v| distance(metric, q, v)).collect::<Vec<_>>()
            ));
        }
    }
    Ok(())
}

fn recall_at_k(metric: DistanceMetric, data: &BTreeMap<u64, Vec<f32>>, q: &[f32], res: &[(u64, f32)], k: usize) -> f64 {
    let mut scored: Vec<(u64, f32)> = data.iter().map(|(id, v)| (*id, distance(metric, q, v))).collect();
    scored.sort_by(|a, b| a.1.partial_cmp(&b.1).unwrap().then(a.0.cmp(&b.0)));
    scored.truncate(k);
    let kth = scored.last().map(|(_, d)| *d).unwrap_or(0.0);
    let truth: BTreeSet<u64> = scored.iter().map(|(id, _)| *id).collect();
    let thr = kth * 1.001 + 1e-6;
    let hits = res.iter().take(k).filter(|(id, _)| truth.contains(id) || data.get(id).is_some_and(|v| distance(metric, q, v) <= thr)).count();
    hits as f64 / k.max(1) as f64
}

#[derive(Clone, Debug, Serialize, Deserialize, PartialEq)]
pub enum VOp {
    Insert { id: u64, vseed: u64 },
    Remove { id: u64 },
    Flush,
    Reload,
}

#[derive(Clone, Debug, Serialize, Deserialize)]
pub enum HCase {
    /// core index: soundness after every op; every crash prefix of every flush
    Sound { seed: u64, dim: usize, metric: u8, heuristic: bool, repair: bool, m: u8, ops: Vec<VOp> },
    /// wrapper over Storage over SimStore: fork before every backend mutation
    Persist { seed: u64, dim: usize, metric: u8, ops: Vec<VOp> },
    /// documented recall workloads
    Recall { seed: u64, workload: u8, builds: u32 },
}

pub fn seed_of(c: &HCase) -> u64 {
    match c {
        HCase::Sound { seed, .. } | HCase::Persist { seed, .. } | HCase::Recall { seed, .. } => *seed,
    }
}

pub fn generate(case_seed: u64, idx: u64, tier: Tier) -> HCase {
    let mut rng = Rng::stream(case_seed, "hnsw");
    let dim = *rng.pick(&[2usize, 3, 4, 8, 16, 33, 64]);
    let gen_ops = |rng: &mut Rng, n: u64, ids: u64, persist: bool| -> Vec<VOp> {
        (0..n)
            .map(|_| match rng.weighted(&[55, 25, if persist { 12 } else { 0 }, if persist { 5 } else { 0 }]) {
                0 => VOp::Insert { id: rng.range(1, ids), vseed: rng.next_u64() },
                1 => VOp::Remove { id: rng.range(1, ids) },
                2 => VOp::Flush,
                _ => VOp::Reload,
            })
            .collect()
    };
    match idx % 8 {
        7 => HCase::Recall { seed: case_seed, workload: ((idx / 8) % 7) as u8, builds: if tier == Tier::Thorough { 6 } else { 2 } },
        3 | 6 => {
            let n = rng.range(8, 40);
            let mut ops = gen_ops(&mut rng, n, 24, true);
            ops.push(VOp::Flush);
            HCase::Persist { seed: case_seed, dim: dim.min(16), metric: rng.below(4) as u8, ops }
        }
        _ => {
            let n = rng.range(10, if tier == Tier::Thorough { 200 } else { 90 });
            let ids = rng.range(6, 60);
            HCase::Sound { seed: case_seed, dim, metric: rng.below(4) as u8, heuristic: rng.bool(), repair: rng.chance(1, 3), m: *rng.pick(&[2u8, 4, 16, 32]), ops: gen_ops(&mut rng, n, ids, true) }
        }
    }
}

fn queries(rng: &mut Rng, dim: usize, live: &BTreeMap<u64, Vec<f32>>) -> Vec<Vec<f32>> {
    let mut q: Vec<Vec<f32>> = Vec::new();
    q.push(vec_from(rng.next_u64(), dim, 2.0));
    q.push(vec_from(rng.next_u64(), dim, 200.0)); // out of distribution
    q.push(vec![0.0; dim]);
    for v in live.values().take(2) {
        q.push(v.clone());
    }
    // the same directions at a very small magnitude
    let tiny: Vec<f32> = vec_from(rng.next_u64() | 3, dim, 2.0).iter().map(|x| x * 2.0f32.powi(-14)).collect();
    q.push(tiny);
    if let Some(v) = live.values().next() {
        q.push(v.iter().map(|x| x * 2.0f32.powi(-12)).collect());
    }
    q
}

fn check_all(idx: &HnswIndex, metric: DistanceMetric, dim: usize, model: &BTreeMap<u64, Vec<f32>>, live: &Live, qrng: &mut Rng, ctx: &str, rep: &mut RunReport, exact_len: bool) -> Result<(), Violation> {
    if exact_len && idx.len() != model.len() {
        return Err(violation!("c12.len", "{ctx}: len() = {}, live vectors = {}", idx.len(), model.len()));
    }
    let n = live.len();
    for q in queries(qrng, dim, model) {
        for k in [1usize, 2, 3, n / 2 + 1, n, n + 1] {
            if k == 0 {
                continue;
            }
            let res = idx.search_f32(&q, k).map_err(|e| violation!("c12.search-error", "{ctx}: search(k={k}) failed: {e:?}"))?;
            check_sound(&res, k, &q, metric, live, &format!("{ctx} k={k}"))?;
            rep.probe("searches_checked", 1);
        }
    }
    Ok(())
}

type Disk = HashMap<String, Vec<u8>>;
fn load_from(disk: &Disk) -> Result<Option<HnswIndex>, String> {
    let (Some(meta), Some(ids)) = (disk.get("meta"), disk.get("ids")) else { return Ok(None) };
    let d2 = Arc::new(disk.clone());
    block(HnswIndex::load_all(&meta[..], &ids[..], async |id: u64| Ok(d2.get(&format!("n_{id}")).cloned()))).map(Some).map_err(|e| format!("{e:?}"))
}

fn run_sound(seed: u64, dim: usize, metric: u8, heuristic: bool, repair: bool, m: u8, ops: &[VOp], rep: &mut RunReport) -> Result<(), Violation> {
    let metric = metric_of(metric);
    let cfg = HnswConfig {
        dimension: dim,
        distance_metric: metric,
        max_connections: m,
        ef_construction: 40,
        ef_search: 30,
        select_neighbors_strategy: if heuristic { SelectNeighborsStrategy::Heuristic } else { SelectNeighborsStrategy::Simple },
        reconnect_on_delete: repair,
        // few layers and a wide level distribution: nodes reach the layer cap
        max_layers: [2u8, 3, 5, 16][(simcore::rng::derive(seed, "max-layers") % 4) as usize],
        scale_factor: [None, Some(1.0), Some(2.5)][(simcore::rng::derive(seed, "scale-factor") % 3) as usize],
        ..Default::default()
    };
    let mut idx = HnswIndex::try_new("v".to_string(), Some(cfg.clone())).map_err(|e| violation!("c12.setup", "config rejected: {e:?}"))?;
    let mut model: BTreeMap<u64, Vec<f32>> = BTreeMap::new();
    let mut committed: BTreeMap<u64, Vec<f32>> = BTreeMap::new();
    let mut disk = Disk::new();
    let mut qrng = Rng::stream(seed, "queries");
    let mut sigs = Vec::new();
    let mut trace = Sig::default();
    trace.add(seed);
    let live_of = |m: &BTreeMap<u64, Vec<f32>>| -> Live { m.iter().map(|(k, v)| (*k, vec![v.clone()])).collect() };
    for (i, op) in ops.iter().enumerate() {
        let ctx = format!("after op#{i} {op:?}");
        match op {
            VOp::Insert { id, vseed } => {
                let v = vec_from(*vseed, dim, 2.0);
                let r = idx.insert_f32(*id, v.clone(), 1 + i as u64);
                match (model.contains_key(id), r) {
                    (false, Ok(())) => {
                        model.insert(*id, v);
                    }
                    (true, Err(_)) => {}
                    (p, r) => return Err(violation!("c12.return", "op#{i} {op:?}: id present={p} but insert returned {r:?}")),
                }
            }
            VOp::Remove { id } => {
                let r = idx.remove(*id, 1 + i as u64);
                if r != model.remove(id).is_some() {
                    return Err(violation!("c12.return", "op#{i} {op:?}: remove returned {r}"));
                }
            }
            VOp::Flush if simcore::rng::derive(seed ^ (i as u64) << 24, "update-during-flush") % 3 == 0 && !model.is_empty() => {
                // A document update (remove + insert of the same id with a new
                // vector) lands while the flush is suspended in one of its node
                // writes - the index is a concurrent structure and its flush
                // snapshot is built for exactly that. Whatever this flush wrote,
                // the NEXT flush must persist the new vector.
                let target = *model.keys().nth((simcore::rng::derive(seed ^ i as u64, "target") % model.len() as u64) as usize).unwrap();
                let at = simcore::rng::derive(seed ^ i as u64, "write-index") % 4;
                let newv = vec_from(simcore::rng::derive(seed ^ i as u64, "new-vector") | 3, dim, 2.0);
                let counter = Arc::new(Mutex::new(0u64));
                let done = Arc::new(Mutex::new(false));
                let mut disk2 = disk.clone();
                for round in 0..2 {
                    let writes: Arc<Mutex<Vec<(String, Vec<u8>)>>> = Arc::new(Mutex::new(Vec::new()));
                    let (w1, w2, w3) = (writes.clone(), writes.clone(), writes.clone());
                    let done_outer = done.clone();
                    let (idxr, counter, done, newv2) = (&idx, counter.clone(), done.clone(), newv.clone());
                    let saved = block(idx.flush_with(
                        100 + 2 * i as u64 + round,
                        move |id, data| {
                            let w = w1.clone();
                            let mut c = counter.lock().unwrap();
                            let mut d = done.lock().unwrap();
                            if round == 0 && !*d && *c == at {
                                // the other task runs here
                                idxr.remove(target, 100 + 2 * i as u64);
                                let _ = idxr.insert_f32(target, newv2.clone(), 100 + 2 * i as u64);
                                *d = true;
                            }
                            *c += 1;
                            async move {
                                w.lock().unwrap().push((format!("n_{id}"), data));
                                Ok(true)
                            }
                        },
                        move |data| async move {
                            w2.lock().unwrap().push(("ids".into(), data));
                            Ok(())
                        },
                        move |data| async move {
                            w3.lock().unwrap().push(("meta".into(), data));
                            Ok(())
                        },
                    ))
                    .map_err(|e| violation!("c12.flush-error", "{ctx}: flush failed: {e:?}"))?;
                    if round == 0 && !*done_outer.lock().unwrap() {
                        // the flush had fewer node writes than the chosen index: do the update between the two flushes
                        idx.remove(target, 100 + 2 * i as u64);
                        let _ = idx.insert_f32(target, newv.clone(), 100 + 2 * i as u64);
                        *done_outer.lock().unwrap() = true;
                    } else if round == 0 {
                        rep.probe("update_landed_inside_a_flush", 1);
                    }
                    if saved {
                        let removed = idx.removed_node_ids();
                        for (p, b) in writes.lock().unwrap().clone() {
                            disk2.insert(p, b);
                        }
                        block(idx.purge_removed_nodes(async |id| {
                            let _ = id;
                            Ok(true)
                        }))
                        .map_err(|e| violation!("c12.flush-error", "{ctx}: purge_removed_nodes failed: {e:?}"))?;
                        for id in removed {
                            disk2.remove(&format!("n_{id}"));
                        }
                    }
                }
                model.insert(target, newv.clone());
                disk = disk2;
                committed = model.clone();
                let loaded = load_from(&disk).map_err(|e| violation!("c12.load-error", "{ctx}: load after an update during a flush and one more flush failed: {e}"))?;
                let Some(loaded) = loaded else {
                    return Err(violation!("c12.load-error", "{ctx}: nothing loadable after two flushes"));
                };
                check_all(&loaded, metric, dim, &model, &live_of(&model), &mut qrng, &format!("{ctx}: id {target} was updated while the flush was writing; after the NEXT flush and a reload"), rep, true)?;
            }
            VOp::Flush => {
                // capture the write sequence: nodes (overwritten in place), ids, metadata
                let writes: Arc<Mutex<Vec<(String, Vec<u8>)>>> = Arc::new(Mutex::new(Vec::new()));
                let (w1, w2, w3) = (writes.clone(), writes.clone(), writes.clone());
                let saved = block(idx.flush_with(
                    1 + i as u64,
                    move |id, data| {
                        let w = w1.clone();
                        async move {
                            w.lock().unwrap().push((format!("n_{id}"), data));
                            Ok(true)
                        }
                    },
                    move |data| async move {
                        w2.lock().unwrap().push(("ids".into(), data));
                        Ok(())
                    },
                    move |data| async move {
                        w3.lock().unwrap().push(("meta".into(), data));
                        Ok(())
                    },
                ))
                .map_err(|e| violation!("c12.flush-error", "{ctx}: flush failed: {e:?}"))?;
                if saved {
                    let seq = writes.lock().unwrap().clone();
                    // removed nodes' blobs are deleted after the commit
                    let removed = idx.removed_node_ids();
                    // every crash prefix
                    let stride = (seq.len() / 24).max(1);
                    for j in (0..=seq.len()).filter(|j| j % stride == 0 || *j + 3 >= seq.len()) {
                        let mut d = disk.clone();
                        for (p, b) in &seq[..j] {
                            d.insert(p.clone(), b.clone());
                        }
                        let pctx = format!("{ctx}: flush interrupted at write {j}/{}", seq.len());
                        let Some(loaded) = load_from(&d).map_err(|e| violation!("c12.load-error", "{pctx}: load failed: {e}"))? else {
                            continue; // nothing committed yet
                        };
                        // what the loaded index may hold: per id the committed or the new vector
                        let mut live: Live = BTreeMap::new();
                        for id in loaded.node_ids() {
                            let mut vs = Vec::new();
                            if let Some(v) = committed.get(&id) {
                                vs.push(v.clone());
                            }
                            if let Some(v) = model.get(&id) {
                                if !vs.contains(v) {
                                    vs.push(v.clone());
                                }
                            }
                            if vs.is_empty() {
                                return Err(violation!("c12.ghost", "{pctx}: the loaded index holds id {id}, which neither the committed nor the interrupted snapshot contains"));
                            }
                            live.insert(id, vs);
                        }
                        let both: BTreeMap<u64, Vec<f32>> = live.iter().map(|(k, v)| (*k, v[0].clone())).collect();
                        check_all(&loaded, metric, dim, &both, &live, &mut qrng, &pctx, rep, false)?;
                        // re-index to the current model (what the collection's repair does), then exact soundness
                        for id in loaded.node_ids() {
                            let keep = model.get(&id).map(|v| loaded.get_node_with(id, |n| n.vector.iter().map(|x| x.to_f32()).collect::<Vec<f32>>() == *v).unwrap_or(false)).unwrap_or(false);
                            if !keep {
                                loaded.remove(id, 9);
                            }
                        }
                        for (id, v) in &model {
                            if !loaded.node_ids().contains(id) {
                                loaded.insert_f32(*id, v.clone(), 9).map_err(|e| violation!("c12.reindex-error", "{pctx}: re-inserting id {id} failed: {e:?}"))?;
                            }
                        }
                        check_all(&loaded, metric, dim, &model, &live_of(&model), &mut qrng, &format!("{pctx}, re-indexed"), rep, true)?;
                        let mut s = Sig::default();
                        s.add(j as u64);
                        s.add(seq.len() as u64);
                        s.add(seed);
                        sigs.push(s.0);
                        rep.fire("power_loss_in_flush", 1);
                    }
                    for (p, b) in seq {
                        disk.insert(p, b);
                    }
                    block(idx.purge_removed_nodes(async |id| {
                        let _ = id;
                        Ok(true)
                    }))
                    .map_err(|e| violation!("c12.flush-error", "{ctx}: purge_removed_nodes failed: {e:?}"))?;
                    for id in removed {
                        disk.remove(&format!("n_{id}"));
                    }
                    committed = model.clone();
                }
            }
            VOp::Reload => {
                if let Some(l) = load_from(&disk).map_err(|e| violation!("c12.load-error", "{ctx}: reload failed: {e}"))? {
                    idx = l;
                    model = committed.clone();
                } else {
                    idx = HnswIndex::try_new("v".to_string(), Some(cfg.clone())).unwrap();
                    model.clear();
                }
                rep.probe("reloads", 1);
            }
        }
        trace.add(model.len() as u64);
        if i % 3 == 2 || i + 1 == ops.len() || matches!(op, VOp::Reload | VOp::Flush) {
            check_all(&idx, metric, dim, &model, &live_of(&model), &mut qrng, &ctx, rep, true)?;
        }
    }
    rep.evaluations = ops.len() as u64 + sigs.len() as u64;
    sigs.push(trace.0);
    rep.nontrivial_sigs = sigs;
    rep.trace_hash = trace.0;
    rep.sample = Some(serde_json::json!({"kind": "sound", "dim": dim, "metric": format!("{metric:?}"), "heuristic": heuristic, "repair": repair, "m": m, "ops": ops.len(), "ops_head": ops.iter().take(8).map(|o| format!("{o:?}")).collect::<Vec<_>>()}));
    Ok(())
}

fn storage_for(store: &SimStore) -> Result<Storage, String> {
    let cfg = StorageConfig { cache_max_capacity: 0, compress_level: 0, ..Default::default() };
    block(Storage::connect("ix".to_string(), Arc::new(store.clone()), cfg)).map_err(|e| format!("{e:?}"))
}

fn run_persist(seed: u64, dim: usize, metric: u8, ops: &[VOp], rep: &mut RunReport) -> Result<(), Violation> {
    let metric_e = metric_of(metric);
    let mut cfg = SimConfig::simple(seed);
    cfg.park = false;
    cfg.clock = ClockMode::Tick(2);
    cfg.record_trace = false;
    let sim = Sim::new(&cfg);
    sim.install_clock_here();
    let store = SimStore::new(sim.clone(), InMemory::new());
    let storage = storage_for(&store).map_err(|e| violation!("c12.setup", "storage connect failed: {e}"))?;
    let fe = Fe::new("v".to_string(), Ft::Vector).map_err(|e| violation!("c12.setup", "field entry: {e:?}"))?;
    let wcfg = WHnswConfig {
        dimension: dim,
        distance_metric: metric_e,
        ef_construction: 40,
        ef_search: 30,
        max_layers: [2u8, 3, 5, 16][(simcore::rng::derive(seed, "max-layers") % 4) as usize],
        max_connections: [2u8, 4, 32][(simcore::rng::derive(seed, "max-connections") % 3) as usize],
        scale_factor: [None, Some(1.0), Some(2.5)][(simcore::rng::derive(seed, "scale-factor") % 3) as usize],
        ..Default::default()
    };
    store.set_record_forks(true);
    store.set_marker(0);
    let mut h = block(Hnsw::new(&fe, wcfg, storage.clone(), 1)).map_err(|e| violation!("c12.setup", "Hnsw::new failed: {e:?}"))?;
    let mut model: BTreeMap<u64, Vec<f32>> = BTreeMap::new();
    let mut committed: BTreeMap<u64, Vec<f32>> = BTreeMap::new();
    let mut committed_at: Vec<BTreeMap<u64, Vec<f32>>> = vec![BTreeMap::new()];
    let mut now_at: Vec<BTreeMap<u64, Vec<f32>>> = vec![BTreeMap::new()];
    for (i, op) in ops.iter().enumerate() {
        store.set_marker(i as u64 + 1);
        committed_at.push(committed.clone());
        now_at.push(model.clone());
        match op {
            VOp::Insert { id, vseed } => {
                let v = vec_from(*vseed, dim, 2.0);
                let r = h.insert(*id, v.iter().map(|x| bf16::from_f32(*x)).collect(), 2 + i as u64);
                match (model.contains_key(id), r) {
                    (false, Ok(())) => {
                        model.insert(*id, v);
                    }
                    (true, Err(_)) => {}
                    (p, r) => return Err(violation!("c12.return", "op#{i} {op:?}: present={p}, wrapper returned {r:?}")),
                }
            }
            VOp::Remove { id } => {
                let r = h.remove(*id, 2 + i as u64);
                if r != model.remove(id).is_some() {
                    return Err(violation!("c12.return", "op#{i} {op:?}: remove returned {r}"));
                }
            }
            VOp::Flush => {
                block(h.flush(2 + i as u64)).map_err(|e| violation!("c12.flush-error", "op#{i}: flush failed: {e:?}"))?;
                committed = model.clone();
            }
            VOp::Reload => {
                let st2 = storage_for(&store).map_err(|e| violation!("c12.setup", "storage connect failed: {e}"))?;
                // two reloads in three meet one failing backend read (a transient
                // error, not NotFound) somewhere in the bootstrap: it may refuse to
                // open - and must then open on the next, fault-free attempt - but it
                // must not come up with part of the committed vectors
                let k = simcore::rng::derive(seed ^ (i as u64) << 20, "reload-read-fault") % 30;
                let fired0: u64 = sim.fired().values().sum();
                if k < 20 {
                    sim.set_faults(vec![simcore::FaultSpec { site: simcore::Site::Call(sim.calls() + k), kind: simcore::FaultKind::FailBefore }]);
                }
                let r = block(Hnsw::bootstrap("v".to_string(), st2));
                let fired = sim.fired().values().sum::<u64>() > fired0;
                sim.clear_faults();
                h = match r {
                    Ok(h2) => {
                        if fired {
                            rep.probe("bootstrap_survived_a_read_fault", 1);
                        }
                        h2
                    }
                    Err(e) if fired => {
                        rep.probe("bootstrap_refused_on_read_fault", 1);
                        rep.fire("read_error_in_bootstrap", 1);
                        let st3 = storage_for(&store).map_err(|e| violation!("c12.setup", "storage connect failed: {e}"))?;
                        block(Hnsw::bootstrap("v".to_string(), st3)).map_err(|e2| violation!("c12.load-error", "op#{i}: bootstrap failed on an injected read error ({e:?}) and again without any fault: {e2:?}"))?
                    }
                    Err(e) => return Err(violation!("c12.load-error", "op#{i}: bootstrap failed: {e:?}")),
                };
                model = committed.clone();
                let n_el = h.stats().num_elements as usize;
                if n_el != committed.len() {
                    return Err(violation!("c12.load-dropped-vectors", "op#{i}: the flushed index holds {} vectors, the reloaded one {n_el} (read fault injected: {fired})", committed.len()));
                }
                let live: Live = committed.iter().map(|(id, v)| (*id, vec![v.clone()])).collect();
                let mut qr = Rng::stream(seed ^ i as u64, "reload-queries");
                for q in queries(&mut qr, dim, &committed) {
                    let k = n_el + 1;
                    let res = h.try_search(&q, k).map_err(|e| violation!("c12.search-error", "op#{i}: search after reload failed: {e:?}"))?;
                    check_sound(&res, k, &q, metric_e, &live, &format!("after op#{i} Reload k={k}"))?;
                }
            }
        }
    }
    store.set_record_forks(false);
    let forks = store.take_forks();
    rep.merge_fired(&sim.fired());
    rep.steps += sim.calls();
    let mut sigs = Vec::new();
    let nf = forks.len();
    let mut qrng = Rng::stream(seed, "queries");
    for f in forks {
        let mk = f.marker as usize;
        let ctx = format!(
            "crash before backend mutation #{} ({} {}) inside {}",
            f.mutations_before,
            f.next_kind.short(),
            f.next_path,
            if mk == 0 { "index creation".to_string() } else { format!("op#{} {:?}", mk - 1, ops[mk - 1]) }
        );
        let mut cfg2 = SimConfig::simple(seed ^ 0xF2);
        cfg2.park = false;
        cfg2.record_trace = false;
        cfg2.start_ms = f.clock_ms + 3;
        let sim2 = Sim::new(&cfg2);
        sim2.install_clock_here();
        let st = SimStore::new(sim2, f.disk);
        sigs.push(SimStore::disk_signature(st.disk()) ^ simcore::rng::mix(mk as u64));
        let storage2 = storage_for(&st).map_err(|e| violation!("c12.load-error", "{ctx}: storage connect failed: {e}"))?;
        match block(Hnsw::bootstrap("v".to_string(), storage2)) {
            Ok(h2) => {
                let (old, new) = (&committed_at[mk], &now_at[mk]);
                let n_el = h2.stats().num_elements as usize;
                // the loaded id set is the committed one or the interrupted one (ids object is one atomic put)
                if n_el != old.len() && n_el != new.len() {
                    return Err(violation!("c12.crash-ids", "{ctx}: bootstrap holds {n_el} vectors; committed snapshot has {}, interrupted one {}", old.len(), new.len()));
                }
                let mut live: Live = BTreeMap::new();
                for (id, v) in old.iter().chain(new.iter()) {
                    let e = live.entry(*id).or_default();
                    if !e.contains(v) {
                        e.push(v.clone());
                    }
                }
                for q in queries(&mut qrng, dim, new) {
                    for k in [1usize, 3, n_el + 1] {
                        let res = h2.try_search(&q, k).map_err(|e| violation!("c12.search-error", "{ctx}: search failed: {e:?}"))?;
                        check_sound(&res, k, &q, metric_e, &live, &format!("{ctx} k={k}"))?;
                        rep.probe("searches_checked", 1);
                    }
                }
                // still usable
                let added = h2.insert(9999, vec_from(1, dim, 2.0).iter().map(|x| bf16::from_f32(*x)).collect(), 5).is_ok();
                block(h2.flush(6)).map_err(|e| violation!("c12.no-progress", "{ctx}: flush after recovery failed: {e:?}"))?;
                // ...and what the recovered index held survives its own next flush
                // (which also purges what the loaded metadata says is removed) and
                // a clean round trip
                let want = h2.stats().num_elements as usize;
                let storage3 = storage_for(&st).map_err(|e| violation!("c12.load-error", "{ctx}: storage connect failed: {e}"))?;
                let h3 = block(Hnsw::bootstrap("v".to_string(), storage3)).map_err(|e| violation!("c12.lost-after-recovery-flush", "{ctx}: after the recovered index flushed once more, loading it again failed: {e:?}"))?;
                let got = h3.stats().num_elements as usize;
                if got != want || want != n_el + added as usize {
                    return Err(violation!("c12.lost-after-recovery-flush", "{ctx}: the recovered index held {n_el} vectors (+{} added), {want} after its next flush, and {got} after a clean reload", added as usize));
                }
                let mut live3 = live.clone();
                live3.entry(9999).or_default().push(vec_from(1, dim, 2.0));
                for q in queries(&mut qrng, dim, new).into_iter().take(2) {
                    let k = got + 1;
                    let res = h3.try_search(&q, k).map_err(|e| violation!("c12.lost-after-recovery-flush", "{ctx}: search after the round trip failed: {e:?}"))?;
                    check_sound(&res, k, &q, metric_e, &live3, &format!("{ctx} (after the next flush and a clean reload) k={k}"))?;
                }
                rep.probe("recovered_then_flushed_then_reloaded", 1);
            }
            Err(e) => {
                if mk != 0 {
                    return Err(violation!("c12.load-error", "{ctx}: bootstrap failed: {e:?}"));
                }
            }
        }
        rep.fire("power_loss", 1);
    }
    sim.install_clock_here();
    rep.evaluations = nf as u64 + 1;
    rep.nontrivial_sigs = sigs;
    rep.trace_hash = sim.full_signature();
    rep.sample = Some(serde_json::json!({"kind": "persist", "dim": dim, "metric": format!("{metric_e:?}"), "ops": ops.len(), "crash_points": nf}));
    Ok(())
}

// --- recall (statistical, calibrated)

struct SplitMix64(u64);
impl SplitMix64 {
    fn next_u64(&mut self) -> u64 {
        self.0 = self.0.wrapping_add(0x9E3779B97F4A7C15);
        let mut z = self.0;
        z = (z ^ (z >> 30)).wrapping_mul(0xBF58476D1CE4E5B9);
        z = (z ^ (z >> 27)).wrapping_mul(0x94D049BB133111EB);
        z ^ (z >> 31)
    }
    fn next_f32(&mut self) -> f32 {
        (self.next_u64() >> 40) as f32 / (1u64 << 24) as f32
    }
    fn next_vector(&mut self, dim: usize) -> Vec<f32> {
        (0..dim).map(|_| bf16::from_f32(self.next_f32()).to_f32()).collect()
    }
}

struct Bench {
    index: HnswIndex,
    data: BTreeMap<u64, Vec<f32>>,
    queries: Vec<Vec<f32>>,
    metric: DistanceMetric,
    rng: SplitMix64,
}

fn build(metric: DistanceMetric, n: usize, dim: usize, nq: usize, seed: u64) -> Bench {
    let index = HnswIndex::new("recall".to_string(), Some(HnswConfig { dimension: dim, distance_metric: metric, ..Default::default() }));
    let mut rng = SplitMix64(seed);
    let mut data = BTreeMap::new();
    for id in 1..=(n as u64) {
        let v = rng.next_vector(dim);
        index.insert_f32(id, v.clone(), id).expect("insert");
        data.insert(id, v);
    }
    let queries = (0..nq).map(|_| rng.next_vector(dim)).collect();
    Bench { index, data, queries, metric, rng }
}

fn measure(b: &Bench, index: &HnswIndex, ctx: &str) -> Result<f64, Violation> {
    let mut total = 0.0;
    let live: Live = b.data.iter().map(|(k, v)| (*k, vec![v.clone()])).collect();
    for q in &b.queries {
        let res = index.search_f32(q, 10).map_err(|e| violation!("c12.search-error", "{ctx}: search failed: {e:?}"))?;
        check_sound(&res, 10, q, b.metric, &live, ctx)?;
        total += recall_at_k(b.metric, &b.data, q, &res, 10);
    }
    Ok(total / b.queries.len() as f64)
}

/// (name, floor) per documented workload of tests/recall.rs
pub const WORKLOADS: [(&str, f64); 7] = [
    ("euclidean fresh (n=1000,d=32,seed=42)", 0.95),
    ("cosine fresh (n=800,d=24,seed=7)", 0.95),
    ("after deleting a fifth (seed=99)", 0.90),
    ("after delete/re-insert churn (n=600,d=16,seed=777)", 0.93),
    ("after persistence round trip (n=600,d=16,seed=1234)", 0.95),
    ("interrupted flush + re-indexing (n=600,d=16,seed=1234), floor 0.95 - margin 0.10", 0.85),
    ("heavy deletions, sparse graph with reconnect_on_delete (n=2000,d=32,M=6,seed=4242): 1 + min(avg50-before+0.06, avg80-before+0.08) >= 1", 1.0),
];

fn run_recall(seed: u64, workload: u8, builds: u32, rep: &mut RunReport) -> Result<(), Violation> {
    let (name, floor) = WORKLOADS[workload as usize % WORKLOADS.len()];
    let mut sum = 0.0;
    let mut n = 0u32;
    let mut all = Vec::new();
    for bi in 0..builds {
        let ctx = format!("recall workload '{name}' build {bi}");
        let r = match workload % 7 {
            0 => {
                let b = build(DistanceMetric::Euclidean, 1000, 32, 50, 42);
                measure(&b, &b.index, &ctx)?
            }
            1 => {
                let b = build(DistanceMetric::Cosine, 800, 24, 40, 7);
                measure(&b, &b.index, &ctx)?
            }
            2 => {
                let mut b = build(DistanceMetric::Euclidean, 1000, 32, 50, 99);
                for id in (1..=1000u64).filter(|id| id % 5 == 0) {
                    if !b.index.remove(id, 2000) {
                        return Err(violation!("c12.return", "{ctx}: remove({id}) returned false"));
                    }
                    b.data.remove(&id);
                }
                measure(&b, &b.index, &ctx)?
            }
            3 => {
                let mut b = build(DistanceMetric::Euclidean, 600, 16, 30, 777);
                let mut r2 = SplitMix64(0xC0FFEE);
                for round in 0..5u64 {
                    let victims: Vec<u64> = (1..=600u64).filter(|id| (id + round) % 3 == 0).collect();
                    for id in &victims {
                        b.index.remove(*id, round);
                        b.data.remove(id);
                    }
                    for id in &victims {
                        let v = r2.next_vector(16);
                        b.index.insert_f32(*id, v.clone(), round).map_err(|e| violation!("c12.return", "{ctx}: re-insert failed: {e:?}"))?;
                        b.data.insert(*id, v);
                    }
                }
                measure(&b, &b.index, &ctx)?
            }
            6 => {
                let cfg = HnswConfig { dimension: 32, distance_metric: DistanceMetric::Euclidean, max_connections: 6, ef_construction: 40, ef_search: 40, reconnect_on_delete: true, ..Default::default() };
                let index = HnswIndex::new("recall".to_string(), Some(cfg));
                let mut rng = SplitMix64(4242);
                let mut data = BTreeMap::new();
                for id in 1..=2000u64 {
                    let v = rng.next_vector(32);
                    index.insert_f32(id, v.clone(), id).expect("insert");
                    data.insert(id, v);
                }
                let queries = (0..50).map(|_| rng.next_vector(32)).collect();
                let mut b = Bench { index, data, queries, metric: DistanceMetric::Euclidean, rng };
                let before = measure(&b, &b.index, &ctx)?;
                for id in (1..=2000u64).filter(|id| id % 2 == 0) {
                    b.index.remove(id, 2000);
                    b.data.remove(&id);
                }
                let a50 = measure(&b, &b.index, &ctx)?;
                for id in (1..=2000u64).filter(|id| id % 2 == 1 && id % 5 != 0) {
                    b.index.remove(id, 3000);
                    b.data.remove(&id);
                }
                if b.index.len() != b.data.len() {
                    return Err(violation!("c12.len", "{ctx}: len {} != {}", b.index.len(), b.data.len()));
                }
                let a80 = measure(&b, &b.index, &ctx)?;
                rep.probe("recall_x1000:heavy-before", (before * 1000.0) as u64);
                1.0 + (a50 - before + 0.06).min(a80 - before + 0.08)
            }
            4 | _ => {
                let mut b = build(DistanceMetric::Euclidean, 400, 16, 30, 1234);
                // committed flush of the first 400
                let disk: Arc<Mutex<Disk>> = Arc::new(Mutex::new(Disk::new()));
                let flush_all = |idx: &HnswIndex, disk: &Arc<Mutex<Disk>>, limit: Option<usize>| -> Result<usize, Violation> {
                    let count = Arc::new(Mutex::new(0usize));
                    let (d1, d2, d3, c1) = (disk.clone(), disk.clone(), disk.clone(), count.clone());
                    let lim = limit.unwrap_or(usize::MAX);
                    let (c2, c3) = (count.clone(), count.clone());
                    block(idx.flush_with(
                        5,
                        move |id, data| {
                            let (d, c) = (d1.clone(), c1.clone());
                            async move {
                                let mut c = c.lock().unwrap();
                                if *c >= lim {
                                    return Ok(false);
                                }
                                *c += 1;
                                d.lock().unwrap().insert(format!("n_{id}"), data);
                                Ok(true)
                            }
                        },
                        move |data| async move {
                            let mut c = c2.lock().unwrap();
                            if *c >= lim {
                                return Err("interrupted".into());
                            }
                            *c += 1;
                            d2.lock().unwrap().insert("ids".into(), data);
                            Ok(())
                        },
                        move |data| async move {
                            let mut c = c3.lock().unwrap();
                            if *c >= lim {
                                return Err("interrupted".into());
                            }
                            *c += 1;
                            d3.lock().unwrap().insert("meta".into(), data);
                            Ok(())
                        },
                    ))
                    .ok();
                    let n = *count.lock().unwrap();
                    Ok(n)
                };
                flush_all(&b.index, &disk, None)?;
                // 200 more inserts and some removals, unflushed
                for id in 401..=600u64 {
                    let v = b.rng.next_vector(16);
                    b.index.insert_f32(id, v.clone(), id).map_err(|e| violation!("c12.return", "{ctx}: insert failed: {e:?}"))?;
                    b.data.insert(id, v);
                }
                if workload % 7 == 4 {
                    // clean round trip
                    flush_all(&b.index, &disk, None)?;
                    let d = disk.lock().unwrap().clone();
                    let loaded = load_from(&d).map_err(|e| violation!("c12.load-error", "{ctx}: load failed: {e}"))?.ok_or_else(|| violation!("c12.load-error", "{ctx}: nothing to load"))?;
                    if loaded.len() != b.index.len() {
                        return Err(violation!("c12.len", "{ctx}: reloaded len {} != {}", loaded.len(), b.index.len()));
                    }
                    measure(&b, &loaded, &ctx)?
                } else {
                    // interrupted flush at a seeded position, then re-indexing
                    let mut pr = Rng::new(seed ^ bi as u64);
                    let total = 203; // upper bound on writes; the limit is drawn below it
                    let limit = pr.below(total) as usize;
                    flush_all(&b.index, &disk, Some(limit))?;
                    rep.fire("power_loss_in_flush", 1);
                    let d = disk.lock().unwrap().clone();
                    let loaded = load_from(&d).map_err(|e| violation!("c12.load-error", "{ctx}: load after interrupted flush failed: {e}"))?.ok_or_else(|| violation!("c12.load-error", "{ctx}: nothing to load"))?;
                    for id in loaded.node_ids() {
                        let keep = b.data.get(&id).map(|v| loaded.get_node_with(id, |n| n.vector.iter().map(|x| x.to_f32()).collect::<Vec<f32>>() == *v).unwrap_or(false)).unwrap_or(false);
                        if !keep {
                            loaded.remove(id, 9);
                        }
                    }
                    let have: BTreeSet<u64> = loaded.node_ids().into_iter().collect();
                    for (id, v) in &b.data {
                        if !have.contains(id) {
                            loaded.insert_f32(*id, v.clone(), 9).map_err(|e| violation!("c12.reindex-error", "{ctx}: re-insert of {id} failed: {e:?}"))?;
                        }
                    }
                    if loaded.len() != b.data.len() {
                        return Err(violation!("c12.len", "{ctx}: after re-indexing len {} != {}", loaded.len(), b.data.len()));
                    }
                    measure(&b, &loaded, &ctx)?
                }
            }
        };
        sum += r;
        n += 1;
        all.push((r * 10000.0).round() / 10000.0);
    }
    let mean = sum / n.max(1) as f64;
    rep.probe(&format!("recall_x1000:{}", workload % 7), (mean * 1000.0) as u64);
    rep.probe("recall_workloads_measured", 1);
    if mean < floor {
        return Err(violation!(format!("c12.recall.{}", workload % 7), "recall workload '{name}': mean recall@10 over {n} builds = {mean:.4} (builds: {all:?}) is below {floor}"));
    }
    rep.evaluations = n as u64;
    let mut s = Sig::default();
    s.add(workload as u64);
    s.add_str(&format!("{all:?}"));
    rep.nontrivial_sigs.push(s.0);
    rep.trace_hash = s.0;
    rep.sample = Some(serde_json::json!({"kind": "recall", "workload": name, "floor": floor, "builds": all, "mean": mean}));
    Ok(())
}

pub fn execute(case: &HCase, rep: &mut RunReport) -> Result<(), Violation> {
    match case {
        HCase::Sound { seed, dim, metric, heuristic, repair, m, ops } => run_sound(*seed, *dim, *metric, *heuristic, *repair, *m, ops, rep),
        HCase::Persist { seed, dim, metric, ops } => run_persist(*seed, *dim, *metric, ops, rep),
        HCase::Recall { seed, workload, builds } => run_recall(*seed, *workload, *builds, rep),
    }
}

pub fn shrink(case: &HCase) -> Vec<HCase> {
    let mut out = Vec::new();
    match case {
        HCase::Sound { seed, dim, metric, heuristic, repair, m, ops } => {
            // halves first, then single ops
            if ops.len() > 8 {
                out.push(HCase::Sound { seed: *seed, dim: *dim, metric: *metric, heuristic: *heuristic, repair: *repair, m: *m, ops: ops[..ops.len() / 2].to_vec() });
                out.push(HCase::Sound { seed: *seed, dim: *dim, metric: *metric, heuristic: *heuristic, repair: *repair, m: *m, ops: ops[ops.len() / 2..].to_vec() });
            }
            for i in (0..ops.len()).rev() {
                let mut o = ops.clone();
                o.remove(i);
                out.push(HCase::Sound { seed: *seed, dim: *dim, metric: *metric, heuristic: *heuristic, repair: *repair, m: *m, ops: o });
            }
        }
        HCase::Persist { seed, dim, metric, ops } => {
            for i in (0..ops.len()).rev() {
                let mut o = ops.clone();
                o.remove(i);
                out.push(HCase::Persist { seed: *seed, dim: *dim, metric: *metric, ops: o });
            }
        }
        HCase::Recall { .. } => {}
    }
    out
}
