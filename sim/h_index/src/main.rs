//! H-index: anda_db_btree / anda_db_tfs / anda_db_hnsw and their persistence
//! wrappers (C10 C11 C12).
simcore::install_libc_seams!();

mod bm25;
mod btree;
mod hnsw;

use serde::{Deserialize, Serialize};
use simcore::batch::{CheckSpec, Harness, PhaseSpec, RunReport, Tier, Violation, parse_args, standard_main};
use std::sync::Arc;

#[derive(Clone, Debug, Serialize, Deserialize)]
pub enum Case {
    B(btree::BCase),
    T(bm25::TCase),
    V(hnsw::HCase),
}

pub struct H {
    kind: &'static str,
}

impl Harness for H {
    type Case = Case;
    fn generate(&self, case_seed: u64, idx: u64, tier: Tier) -> Case {
        match self.kind {
            "bm25" => Case::T(bm25::generate(case_seed, idx, tier)),
            "hnsw" => Case::V(hnsw::generate(case_seed, idx, tier)),
            "btree-unique" => Case::B(btree::generate_unique_contention(case_seed, idx, tier)),
            _ => Case::B(btree::generate(case_seed, idx, tier)),
        }
    }
    fn entropy_seed(&self, case: &Case) -> u64 {
        match case {
            Case::B(c) => simcore::rng::derive(btree::seed_of(c), "entropy"),
            Case::T(c) => simcore::rng::derive(bm25::seed_of(c), "entropy"),
            Case::V(c) => simcore::rng::derive(hnsw::seed_of(c), "entropy"),
        }
    }
    fn execute(&self, case: &Case, rep: &mut RunReport) -> Result<(), Violation> {
        match case {
            Case::B(c) => btree::execute(c, rep),
            Case::T(c) => bm25::execute(c, rep),
            Case::V(c) => hnsw::execute(c, rep),
        }
    }
    fn shrink(&self, case: &Case) -> Vec<Case> {
        match case {
            Case::B(c) => btree::shrink(c).into_iter().map(Case::B).collect(),
            Case::T(c) => bm25::shrink(c).into_iter().map(Case::T).collect(),
            Case::V(c) => hnsw::shrink(c).into_iter().map(Case::V).collect(),
        }
    }
}

const STUB: &[&str] = &[
    "SimStore under anda_db::storage::Storage (persist cases); in-memory object map with explicit write sequences (core flush sweeps)",
    "thread scheduling: baton scheduler at verif_point! yield points (one thread runs at a time, seeded choice)",
    "wall clock / entropy (libc seams)",
];

fn main() {
    anda_db_utils::verif::set_hook(simcore::threads::yield_hook);
    let opts = parse_args();
    let code = match opts.property.as_str() {
        "C10" => standard_main(
            &opts,
            &CheckSpec {
                harness_name: "h_index",
                level: "fault_enumeration",
                rule: "one evaluation = one checked step of a sequential history (full query battery vs the ordered multimap), one crash prefix of a flush's bucket/metadata/obsolete-deletion write sequence (core index) or one disk fork before a backend mutation (wrapper over Storage), or one thread run under a seeded schedule; distinct = distinct (write-prefix position, surviving object set) / disk signatures / thread-schedule signatures with at least one context switch",
                real: &["anda_db_btree::BTreeIndex (insert/remove/array/batch/compact/flush/load, all query entry points)", "anda_db::index::BTree + anda_db::storage::Storage (manifest CAS commit, obsolete-object deletion, bootstrap)"],
                stub: STUB,
                assumptions: &["batch calls are sequences of per-value steps under concurrency (documented contract); threads mode uses insert/remove/compact only", "flush is never concurrent with mutations (documented contract)"],
                required_probes: &["range_queries_checked", "early_stop_positions_checked", "bucket_split_or_migration", "flush_retired_obsolete_buckets", "thread_switches", "yield:btree.compact.cleared", "yield:gate-wait"],
                required_faults: &["power_loss", "power_loss_in_flush", "power_loss_in_obsolete_deletion"],
            },
            vec![(
                PhaseSpec { label: "btree", quick_runs: 30000, thorough_runs: 600000, quick_budget_s: 60.0, thorough_budget_s: 1200.0 },
                Arc::new(H { kind: "btree" }),
            )],
        ),
        "C04" => standard_main(
            &opts,
            &CheckSpec {
                harness_name: "h_index",
                level: "exploration",
                rule: "thread-level half of C04 (the other half is h_db): one evaluation = one run of 2-3 real threads contending for ONE value of a unique BTreeIndex (distinct claimant ids; the holder may be removed and the value re-claimed) under a seeded baton schedule at the index's yield points; the history must be linearizable against the unique multimap, at most one owner may remain, flush -> reload must agree; distinct = distinct thread-schedule signatures with at least one context switch",
                real: &["anda_db_btree::BTreeIndex insert/remove on a unique index (the structure every unique field and multi-field index of a Collection is enforced by)"],
                stub: STUB,
                assumptions: &["anda_db::Collection runs these calls from tokio worker threads; here the threads are real and exactly one runs at a time, switched at the verif_point! hooks"],
                required_probes: &["thread_switches", "unique_insert_refused_under_threads", "unique_insert_accepted_under_threads", "yield:btree.insert.start"],
                required_faults: &[],
            },
            vec![(
                PhaseSpec { label: "unique-threads", quick_runs: 8000, thorough_runs: 300000, quick_budget_s: 30.0, thorough_budget_s: 600.0 },
                Arc::new(H { kind: "btree-unique" }),
            )],
        ),
        "C11" => standard_main(
            &opts,
            &CheckSpec {
                harness_name: "h_index",
                level: "fault_enumeration",
                rule: "one evaluation = one checked step of a sequential history (every vocabulary term x BM25 parameter battery incl. non-finite, top-k prefix for every k, boolean trees to depth 3), one crash prefix of a flush's write sequence / disk fork before a backend mutation, or one thread run under a seeded schedule; distinct = distinct (write-prefix position, surviving object set) / disk signatures / thread-schedule signatures with a context switch",
                real: &["anda_db_tfs::BM25Index (insert/remove/purge_ids/compact/flush/load/search/search_advanced)", "anda_db::index::BM25 + anda_db::storage::Storage (manifest CAS commit, obsolete-object deletion, bootstrap)", "tantivy tokenizer chain (default_tokenizer)"],
                stub: STUB,
                assumptions: &["vocabulary validated to be a fixpoint of the tokenizer", "flush is never concurrent with mutations (documented contract)", "thread runs use disjoint insert ids per thread and original-text removes so the final state is schedule-independent"],
                required_probes: &["term_queries_checked", "boolean_queries_checked", "bucket_split_or_migration", "flush_retired_obsolete_buckets", "thread_switches", "yield:bm25.compact.cleared", "yield:gate-wait", "remove_with_non_original_text"],
                required_faults: &["power_loss", "power_loss_in_flush", "power_loss_in_obsolete_deletion"],
            },
            vec![(
                PhaseSpec { label: "bm25", quick_runs: 15000, thorough_runs: 300000, quick_budget_s: 60.0, thorough_budget_s: 1200.0 },
                Arc::new(H { kind: "bm25" }),
            )],
        ),
        "C12" => standard_main(
            &opts,
            &CheckSpec {
                harness_name: "h_index",
                level: "fault_enumeration",
                rule: "one evaluation = one checked step of an insert/remove/re-insert history (searches for k across 1..n+1 with stored, random, zero and out-of-distribution queries), one crash prefix of a flush's node/ids/metadata write sequence (core) or one disk fork before a backend mutation (wrapper), each followed by re-indexing, or one build of a documented recall workload; distinct = distinct (write-prefix position, run) / disk signatures / recall measurement vectors",
                real: &["anda_db_hnsw::HnswIndex (insert/remove/search/flush_with/load_all/purge_removed_nodes)", "anda_db::index::Hnsw + anda_db::storage::Storage (node puts, ids and metadata CAS, orphan sweep, bootstrap)"],
                stub: STUB,
                assumptions: &[
                    "soundness clauses (<=k distinct live ids, non-decreasing distance, distance = configured metric within bf16/f32 tolerance, len) are exact; the recall clause is statistical: mean recall@10 over a fixed number of builds per documented workload must clear the documented floor (floor - 0.10 for interrupted-flush + re-indexing); level generation draws from the seeded entropy seam, so each measurement is a deterministic function of VERIF_SEED",
                    "after an interrupted flush the harness accepts for each id either the committed or the interrupted snapshot's vector",
                ],
                required_probes: &["searches_checked", "recall_workloads_measured"],
                required_faults: &["power_loss", "power_loss_in_flush"],
            },
            vec![(
                PhaseSpec { label: "hnsw", quick_runs: 480, thorough_runs: 40000, quick_budget_s: 80.0, thorough_budget_s: 1500.0 },
                Arc::new(H { kind: "hnsw" }),
            )],
        ),
        other => {
            eprintln!("harness error: h_index does not serve property {other:?}");
            2
        }
    };
    std::process::exit(code);
}
