//! C10 — the B-tree index equals an ordered multimap, across flush, crash and
//! threads.

use anda_db::index::BTree;
use anda_db::schema::{Fe, Ft, Fv};
use anda_db::storage::{Storage, StorageConfig};
use anda_db_btree::{BTreeConfig, BTreeIndex, BucketObject, RangeQuery};
use object_store::memory::InMemory;
use serde::{Deserialize, Serialize};
use simcore::batch::{RunReport, Tier, Violation};
use simcore::lin::{self, Event, Model};
use simcore::rng::{Rng, Sig};
use simcore::threads::{ThreadOutcome, ThreadSchedule, ThreadSim, tag_counts};
use simcore::{ClockMode, Sim, SimConfig, SimStore, violation};
use std::collections::{BTreeMap, BTreeSet, HashMap};
use std::sync::atomic::{AtomicU64, Ordering};
use std::sync::{Arc, Mutex};

pub fn block<T>(f: impl std::future::Future<Output = T>) -> T {
    futures::executor::block_on(f)
}

pub type MM = BTreeMap<String, BTreeSet<u64>>;

fn key(k: u8) -> String {
    // a mix of lengths so prefix queries are interesting
    match k % 8 {
        0 => "k0".into(),
        1 => "k1".into(),
        2 => "k10".into(),
        3 => "k2".into(),
        4 => "m".into(),
        5 => "ma".into(),
        6 => "k".into(),
        _ => "z9".into(),
    }
}

#[derive(Clone, Debug, Serialize, Deserialize, PartialEq, Eq, Hash)]
pub enum BOp {
    Insert { id: u64, key: u8 },
    Remove { id: u64, key: u8 },
    InsertArray { id: u64, keys: Vec<u8> },
    RemoveArray { id: u64, keys: Vec<u8> },
    BatchUpdate { id: u64, old: Vec<u8>, new: Vec<u8> },
    Compact,
    Flush,
    Reload,
    /// Sequential mode only: flush, then rewrite the stored objects into the
    /// legacy (pre-manifest) layout - metadata without a bucket manifest, every
    /// bucket object at generation 0 - and load the index from it. The next
    /// flush is the upgrade to the manifest format and is swept like any other.
    Legacify,
}

#[derive(Clone, Debug, Serialize, Deserialize, PartialEq)]
pub enum Q {
    Eq(u8),
    Gt(u8),
    Ge(u8),
    Lt(u8),
    Le(u8),
    Between(u8, u8),
    Include(Vec<u8>),
    And(Vec<Q>),
    Or(Vec<Q>),
    Not(Box<Q>),
}

impl Q {
    fn gen_leaf(rng: &mut Rng) -> Q {
        let k = |rng: &mut Rng| rng.below(9) as u8; // 8 = a key not in the universe ("zz")
        match rng.below(7) {
            0 => Q::Eq(k(rng)),
            1 => Q::Gt(k(rng)),
            2 => Q::Ge(k(rng)),
            3 => Q::Lt(k(rng)),
            4 => Q::Le(k(rng)),
            5 => Q::Between(k(rng), k(rng)),
            _ => Q::Include((0..rng.below(4)).map(|_| k(rng)).collect()),
        }
    }
    pub fn generate(rng: &mut Rng, depth: u32) -> Q {
        if depth == 0 || rng.chance(2, 5) {
            return Q::gen_leaf(rng);
        }
        match rng.below(3) {
            0 => Q::And((0..rng.range(1, 3)).map(|_| Q::generate(rng, depth - 1)).collect()),
            1 => Q::Or((0..rng.range(1, 3)).map(|_| Q::generate(rng, depth - 1)).collect()),
            _ => Q::Not(Box::new(Q::generate(rng, depth - 1))),
        }
    }
    fn k(k: u8) -> String {
        if k == 8 { "l5".into() } else { key(k) }
    }
    pub fn to_range(&self) -> RangeQuery<String> {
        match self {
            Q::Eq(k) => RangeQuery::Eq(Q::k(*k)),
            Q::Gt(k) => RangeQuery::Gt(Q::k(*k)),
            Q::Ge(k) => RangeQuery::Ge(Q::k(*k)),
            Q::Lt(k) => RangeQuery::Lt(Q::k(*k)),
            Q::Le(k) => RangeQuery::Le(Q::k(*k)),
            Q::Between(a, b) => RangeQuery::Between(Q::k(*a), Q::k(*b)),
            Q::Include(v) => RangeQuery::Include(v.iter().map(|k| Q::k(*k)).collect()),
            Q::And(v) => RangeQuery::And(v.iter().map(|q| Box::new(q.to_range())).collect()),
            Q::Or(v) => RangeQuery::Or(v.iter().map(|q| Box::new(q.to_range())).collect()),
            Q::Not(q) => RangeQuery::Not(Box::new(q.to_range())),
        }
    }
    /// The ordered-map reading: matching keys among the model's keys.
    pub fn eval(&self, m: &MM) -> BTreeSet<String> {
        let all = || m.keys().cloned().collect::<BTreeSet<_>>();
        match self {
            Q::Eq(k) => all().into_iter().filter(|x| *x == Q::k(*k)).collect(),
            Q::Gt(k) => all().into_iter().filter(|x| *x > Q::k(*k)).collect(),
            Q::Ge(k) => all().into_iter().filter(|x| *x >= Q::k(*k)).collect(),
            Q::Lt(k) => all().into_iter().filter(|x| *x < Q::k(*k)).collect(),
            Q::Le(k) => all().into_iter().filter(|x| *x <= Q::k(*k)).collect(),
            Q::Between(a, b) => all().into_iter().filter(|x| *x >= Q::k(*a) && *x <= Q::k(*b)).collect(),
            Q::Include(v) => all().into_iter().filter(|x| v.iter().any(|k| Q::k(*k) == *x)).collect(),
            Q::And(v) => {
                let mut it = v.iter().map(|q| q.eval(m));
                let mut acc = it.next().unwrap_or_default();
                for s in it {
                    acc = acc.intersection(&s).cloned().collect();
                }
                acc
            }
            Q::Or(v) => v.iter().flat_map(|q| q.eval(m)).collect(),
            Q::Not(q) => {
                let ex = q.eval(m);
                all().into_iter().filter(|x| !ex.contains(x)).collect()
            }
        }
    }
}

// ---------------------------------------------------------------------------
// model

pub fn model_apply(m: &mut MM, op: &BOp, unique: bool) -> Result<u64, ()> {
    // returns number of new/removed associations; Err = AlreadyExists
    match op {
        BOp::Insert { id, key: k } => {
            let e = m.entry(key(*k)).or_default();
            if unique && !e.is_empty() && !e.contains(id) {
                if e.is_empty() {
                    m.remove(&key(*k));
                }
                return Err(());
            }
            Ok(e.insert(*id) as u64)
        }
        BOp::Remove { id, key: k } => {
            let kk = key(*k);
            let mut n = 0;
            if let Some(e) = m.get_mut(&kk) {
                if e.remove(id) {
                    n = 1;
                }
                if e.is_empty() {
                    m.remove(&kk);
                }
            }
            Ok(n)
        }
        BOp::InsertArray { id, keys } => {
            if unique {
                for k in keys {
                    if let Some(e) = m.get(&key(*k)) {
                        if !e.is_empty() && !e.contains(id) {
                            return Err(());
                        }
                    }
                }
            }
            let mut n = 0;
            for k in keys {
                if m.entry(key(*k)).or_default().insert(*id) {
                    n += 1;
                }
            }
            Ok(n)
        }
        BOp::RemoveArray { id, keys } => {
            let mut n = 0;
            for k in keys {
                let kk = key(*k);
                if let Some(e) = m.get_mut(&kk) {
                    if e.remove(id) {
                        n += 1;
                    }
                    if e.is_empty() {
                        m.remove(&kk);
                    }
                }
            }
            Ok(n)
        }
        BOp::BatchUpdate { id, old, new } => {
            let o: BTreeSet<String> = old.iter().map(|k| key(*k)).collect();
            let nw: BTreeSet<String> = new.iter().map(|k| key(*k)).collect();
            let to_insert: Vec<&String> = nw.difference(&o).collect();
            let to_remove: Vec<&String> = o.difference(&nw).collect();
            if unique {
                for k in &to_insert {
                    if let Some(e) = m.get(*k) {
                        if !e.is_empty() && !e.contains(id) {
                            return Err(());
                        }
                    }
                }
            }
            let mut n = 0;
            for k in to_insert {
                if m.entry(k.clone()).or_default().insert(*id) {
                    n += 1;
                }
            }
            for k in to_remove {
                if let Some(e) = m.get_mut(k) {
                    if e.remove(id) {
                        n += 1;
                    }
                    if e.is_empty() {
                        m.remove(k);
                    }
                }
            }
            Ok(n)
        }
        BOp::Compact | BOp::Flush | BOp::Reload | BOp::Legacify => Ok(0),
    }
}

pub fn real_apply(idx: &BTreeIndex<u64, String>, op: &BOp, now: u64) -> Result<u64, String> {
    match op {
        BOp::Insert { id, key: k } => idx.insert(*id, key(*k), now).map(|b| b as u64).map_err(|e| format!("{e:?}")),
        BOp::Remove { id, key: k } => Ok(idx.remove(*id, key(*k), now) as u64),
        BOp::InsertArray { id, keys } => idx.insert_array(*id, keys.iter().map(|k| key(*k)).collect(), now).map(|n| n as u64).map_err(|e| format!("{e:?}")),
        BOp::RemoveArray { id, keys } => Ok(idx.remove_array(*id, keys.iter().map(|k| key(*k)).collect(), now) as u64),
        BOp::BatchUpdate { id, old, new } => idx
            .batch_update(*id, old.iter().map(|k| key(*k)).collect(), new.iter().map(|k| key(*k)).collect(), now)
            .map(|(r, i)| (r + i) as u64)
            .map_err(|e| format!("{e:?}")),
        BOp::Compact => {
            idx.compact_buckets();
            Ok(0)
        }
        BOp::Flush | BOp::Reload | BOp::Legacify => Ok(0),
    }
}

pub fn contents(idx: &BTreeIndex<u64, String>) -> MM {
    let mut m = MM::new();
    for (k, ids) in idx.range_query_with(RangeQuery::Ge(String::new()), |k, ids| (true, vec![(k.clone(), ids.clone())])) {
        m.insert(k, ids.into_iter().collect());
    }
    m
}

/// Every query of the battery against the model.
pub fn check_queries(idx: &BTreeIndex<u64, String>, m: &MM, queries: &[Q], ctx: &str, rep: &mut RunReport) -> Result<(), Violation> {
    // structural: keys(), len(), point lookups
    let all_keys: Vec<String> = m.keys().cloned().collect();
    if idx.keys(None, None) != all_keys {
        return Err(violation!("c10.keys", "{ctx}: keys() = {:?}, model keys = {:?}", idx.keys(None, None), all_keys));
    }
    for k in 0..9u8 {
        let kk = Q::k(k);
        let got: Option<BTreeSet<u64>> = idx.query_with(&kk, |ids| Some(ids.iter().copied().collect()));
        let want = m.get(&kk).cloned();
        if got != want {
            return Err(violation!("c10.point", "{ctx}: query_with({kk}) = {got:?}, model = {want:?}"));
        }
        for limit in [None, Some(0usize), Some(1), Some(2), Some(all_keys.len() + 1)] {
            let got = idx.keys(Some(kk.clone()), limit);
            let mut want: Vec<String> = all_keys.iter().filter(|x| **x > kk).cloned().collect();
            if let Some(l) = limit {
                want.truncate(l);
            }
            if got != want {
                return Err(violation!("c10.keys-page", "{ctx}: keys(cursor={kk}, limit={limit:?}) = {got:?}, model = {want:?}"));
            }
        }
    }
    for p in ["", "k", "k1", "m", "x", "k10"] {
        let got: Vec<(String, BTreeSet<u64>)> = idx.prefix_query_with(p, |k, ids| (true, Some((k.to_string(), ids.iter().copied().collect()))));
        let want: Vec<(String, BTreeSet<u64>)> = m.iter().filter(|(k, _)| k.starts_with(p)).map(|(k, v)| (k.clone(), v.clone())).collect();
        if got != want {
            return Err(violation!("c10.prefix", "{ctx}: prefix_query({p:?}) = {got:?}, model = {want:?}"));
        }
    }
    for q in queries {
        let want_keys: Vec<String> = q.eval(m).into_iter().collect();
        let want: Vec<(String, BTreeSet<u64>)> = want_keys.iter().map(|k| (k.clone(), m[k].clone())).collect();
        for rev in [false, true] {
            let f = |k: &String, ids: &Vec<u64>| (true, vec![(k.clone(), ids.iter().copied().collect::<BTreeSet<u64>>())]);
            let got = if rev { idx.range_query_rev_with(q.to_range(), f) } else { idx.range_query_with(q.to_range(), f) };
            if got != want {
                return Err(violation!("c10.range", "{ctx}: {q:?} (descending={rev}) = {got:?}, ordered-map reading = {want:?}"));
            }
            // duplicates in postings
            for (k, ids) in idx.range_query_with(q.to_range(), |k, ids| (true, vec![(k.clone(), ids.clone())])) {
                let s: BTreeSet<u64> = ids.iter().copied().collect();
                if s.len() != ids.len() {
                    return Err(violation!("c10.duplicate-id", "{ctx}: posting of {k} holds a duplicate id: {ids:?}"));
                }
            }
            // early termination at every position (Eq ignores the flag by definition)
            if !matches!(q, Q::Eq(_)) {
                for stop in 0..want.len() {
                    let mut seen = 0usize;
                    let f = |k: &String, _ids: &Vec<u64>| {
                        seen += 1;
                        (seen <= stop, vec![k.clone()])
                    };
                    let got = if rev { idx.range_query_rev_with(q.to_range(), f) } else { idx.range_query_with(q.to_range(), f) };
                    let want_stop: Vec<String> = if rev {
                        want_keys[want_keys.len() - (stop + 1)..].to_vec()
                    } else {
                        want_keys[..stop + 1].to_vec()
                    };
                    if got != want_stop {
                        return Err(violation!(
                            "c10.early-stop",
                            "{ctx}: {q:?} (descending={rev}) stopped after {} keys = {got:?}, expected {want_stop:?}",
                            stop + 1
                        ));
                    }
                    rep.probe("early_stop_positions_checked", 1);
                }
            }
        }
        rep.probe("range_queries_checked", 1);
    }
    Ok(())
}

// ---------------------------------------------------------------------------
// cases

#[derive(Clone, Debug, Serialize, Deserialize)]
pub enum BCase {
    /// low-level index: sequential ops, full query battery after every step,
    /// memory-sink flush with every crash prefix, reload
    Seq { seed: u64, unique: bool, bucket: usize, ops: Vec<BOp>, queries: Vec<Q> },
    /// anda_db::index::BTree over Storage over SimStore: crash fork at every backend mutation
    Persist { seed: u64, unique: bool, text_keys: bool, bucket: usize, compress: i32, ops: Vec<BOp> },
    /// 2–3 threads at the instrumented yield points
    Threads { seed: u64, unique: bool, bucket: usize, prefix: Vec<BOp>, threads: Vec<Vec<BOp>>, schedule: u8, sched_seed: u64, explicit: Option<Vec<u32>> },
}

fn gen_op(rng: &mut Rng, allow_persist: bool, arrays: bool) -> BOp {
    let id = |rng: &mut Rng| rng.range(1, 10);
    let k = |rng: &mut Rng| rng.below(8) as u8;
    let ks = |rng: &mut Rng| (0..rng.range(1, 4)).map(|_| rng.below(8) as u8).collect::<Vec<u8>>();
    let w: [u32; 9] = [40, 20, if arrays { 10 } else { 0 }, if arrays { 6 } else { 0 }, if arrays { 8 } else { 0 }, 6, if allow_persist { 10 } else { 0 }, if allow_persist { 4 } else { 0 }, if allow_persist && arrays { 3 } else { 0 }];
    match rng.weighted(&w) {
        0 => BOp::Insert { id: id(rng), key: k(rng) },
        1 => BOp::Remove { id: id(rng), key: k(rng) },
        2 => BOp::InsertArray { id: id(rng), keys: ks(rng) },
        3 => BOp::RemoveArray { id: id(rng), keys: ks(rng) },
        4 => BOp::BatchUpdate { id: id(rng), old: ks(rng), new: ks(rng) },
        5 => BOp::Compact,
        6 => BOp::Flush,
        7 => BOp::Reload,
        _ => BOp::Legacify,
    }
}

pub fn generate(case_seed: u64, idx: u64, tier: Tier) -> BCase {
    let mut rng = Rng::stream(case_seed, "btree");
    let unique = rng.chance(1, 3);
    let bucket = *rng.pick(&[64usize, 96, 160, 256]);
    match idx % 3 {
        0 => {
            let ops: Vec<BOp> = if rng.chance(1, 3) {
                // flush-heavy regime: almost every mutation meets fully persisted
                // (clean) buckets, so a missing dirty mark cannot hide behind a
                // neighbouring mutation; one hot key grows until its posting migrates
                let hot = rng.below(8) as u8;
                let n = rng.range(10, if tier == Tier::Thorough { 60 } else { 36 });
                let mut ops = Vec::new();
                // ids the generator believes the hot key holds (refusals on a
                // unique index make this an over-approximation, which is harmless)
                let mut hot_ids: BTreeSet<u64> = BTreeSet::new();
                for _ in 0..n {
                    if hot_ids.len() >= 2 && rng.chance(1, 7) {
                        // empty the hot key completely, then persist: whatever an
                        // earlier flush left behind for it must not come back
                        for id in std::mem::take(&mut hot_ids) {
                            ops.push(BOp::Remove { id, key: hot });
                            if rng.chance(1, 3) {
                                ops.push(BOp::Flush);
                            }
                        }
                        ops.push(BOp::Flush);
                        continue;
                    }
                    let mut op = gen_op(&mut rng, true, true);
                    match &mut op {
                        BOp::Insert { key, .. } | BOp::Remove { key, .. } if rng.chance(2, 3) => *key = hot,
                        _ => {}
                    }
                    if matches!(op, BOp::Compact) && rng.chance(2, 3) {
                        op = BOp::Insert { id: rng.range(1, 10), key: hot };
                    }
                    match &op {
                        BOp::Insert { id, key } if *key == hot => {
                            hot_ids.insert(*id);
                        }
                        BOp::Remove { id, key } if *key == hot => {
                            hot_ids.remove(id);
                        }
                        BOp::InsertArray { id, keys } | BOp::BatchUpdate { id, new: keys, .. } if keys.contains(&hot) => {
                            hot_ids.insert(*id);
                        }
                        _ => {}
                    }
                    let mutation = !matches!(op, BOp::Flush | BOp::Reload | BOp::Legacify);
                    ops.push(op);
                    if mutation && rng.chance(3, 4) {
                        ops.push(BOp::Flush);
                    }
                }
                ops
            } else {
                let n = rng.range(4, if tier == Tier::Thorough { 24 } else { 14 });
                (0..n).map(|_| gen_op(&mut rng, true, true)).collect()
            };
            BCase::Seq { seed: case_seed, unique, bucket, ops, queries: (0..8).map(|_| Q::generate(&mut rng, 3)).collect() }
        }
        1 => {
            let n = rng.range(4, 16);
            let mut ops: Vec<BOp> = (0..n).map(|_| gen_op(&mut rng, true, false)).collect();
            ops.push(BOp::Flush);
            BCase::Persist { seed: case_seed, unique, text_keys: rng.bool(), bucket, compress: if rng.bool() { 0 } else { 3 }, ops }
        }
        _ => {
            let np = rng.range(6, 30);
            let prefix: Vec<BOp> = (0..np)
                .map(|_| if rng.chance(2, 3) { BOp::Insert { id: rng.range(1, 10), key: rng.below(8) as u8 } } else { gen_op(&mut rng, false, false) })
                .filter(|o| !matches!(o, BOp::Compact))
                .collect();
            let nt = rng.range(2, 3);
            let mut threads: Vec<Vec<BOp>> = (0..nt)
                .map(|_| (0..rng.range(2, 4)).map(|_| gen_op(&mut rng, false, false)).filter(|o| !matches!(o, BOp::Compact)).collect())
                .collect();
            if rng.chance(2, 3) {
                let t = rng.usize(threads.len());
                let pos = rng.usize(threads[t].len() + 1);
                threads[t].insert(pos, BOp::Compact);
            }
            BCase::Threads { seed: case_seed, unique, bucket, prefix, threads, schedule: rng.below(3) as u8, sched_seed: rng.next_u64(), explicit: None }
        }
    }
}

/// C04's thread-level half: 2-3 threads contend for ONE value of a unique
/// index (distinct ids; the holder may be removed and the value re-claimed).
pub fn generate_unique_contention(case_seed: u64, _idx: u64, _tier: Tier) -> BCase {
    let mut rng = Rng::stream(case_seed, "btree.unique");
    let bucket = *rng.pick(&[64usize, 96, 160, 256]);
    let hot = rng.below(8) as u8;
    let mut prefix: Vec<BOp> = (0..rng.range(0, 6)).map(|_| BOp::Insert { id: rng.range(1, 10), key: rng.below(8) as u8 }).filter(|o| !matches!(o, BOp::Insert { key, .. } if *key == hot)).collect();
    let holder = if rng.bool() {
        let id = rng.range(1, 3);
        prefix.push(BOp::Insert { id, key: hot });
        Some(id)
    } else {
        None
    };
    let nt = rng.range(2, 3);
    let threads: Vec<Vec<BOp>> = (0..nt)
        .map(|t| {
            let my = 10 + t; // each thread claims with its own id
            (0..rng.range(1, 3))
                .map(|_| match rng.below(6) {
                    0 => match holder {
                        Some(h) => BOp::Remove { id: h, key: hot },
                        None => BOp::Remove { id: my, key: hot },
                    },
                    1 => BOp::Remove { id: my, key: hot },
                    2 => BOp::Insert { id: my, key: rng.below(8) as u8 },
                    _ => BOp::Insert { id: my, key: hot },
                })
                .collect()
        })
        .collect();
    BCase::Threads { seed: case_seed, unique: true, bucket, prefix, threads, schedule: rng.below(3) as u8, sched_seed: rng.next_u64(), explicit: None }
}

type Disk = HashMap<String, Vec<u8>>;

fn bucket_name(o: BucketObject) -> String {
    format!("b_{}_{}", o.bucket_id, o.generation)
}

fn load_from(disk: &Disk) -> Result<Option<BTreeIndex<u64, String>>, String> {
    let Some(meta) = disk.get("meta") else { return Ok(None) };
    let d2 = disk.clone();
    let r = block(BTreeIndex::<u64, String>::load_all(&meta[..], async move |o: BucketObject| Ok(d2.get(&bucket_name(o)).cloned())));
    r.map(Some).map_err(|e| format!("{e:?}"))
}

/// Flushes into `disk`, sweeping every crash prefix of the write sequence.
fn flush_with_prefix_sweep(idx: &BTreeIndex<u64, String>, disk: &mut Disk, committed: &MM, now_model: &MM, ctx: &str, rep: &mut RunReport, sigs: &mut Vec<u64>) -> Result<bool, Violation> {
    let writes: Arc<Mutex<Vec<(String, Vec<u8>)>>> = Arc::new(Mutex::new(Vec::new()));
    let w2 = writes.clone();
    let mut meta_buf: Vec<u8> = Vec::new();
    let out = block(idx.flush(&mut meta_buf, 1_700_000_000_000, move |o: BucketObject, data: Vec<u8>| {
        let w2 = w2.clone();
        async move {
            w2.lock().unwrap().push((bucket_name(o), data));
            Ok(())
        }
    }))
    .map_err(|e| violation!("c10.flush-error", "{ctx}: flush failed: {e:?}"))?;
    if !out.saved {
        return Ok(false);
    }
    let mut seq = writes.lock().unwrap().clone();
    seq.push(("meta".into(), meta_buf));
    // every prefix of the bucket/metadata writes
    for j in 0..=seq.len() {
        let mut d = disk.clone();
        for (p, b) in &seq[..j] {
            d.insert(p.clone(), b.clone());
        }
        let want = if j == seq.len() { now_model } else { committed };
        let loaded = load_from(&d).map_err(|e| violation!("c10.load-error", "{ctx}: load after flush interrupted at write {j}/{} failed: {e}", seq.len()))?;
        let got = loaded.as_ref().map(contents).unwrap_or_default();
        if &got != want {
            return Err(violation!(
                "c10.crash-prefix",
                "{ctx}: load after flush interrupted at write {j}/{} yields {got:?}; committed {committed:?}, interrupted {now_model:?}",
                seq.len()
            ));
        }
        let mut s = Sig::default();
        s.add(j as u64);
        s.add(seq.len() as u64);
        s.add_str(&format!("{:?}", d.keys().collect::<BTreeSet<_>>()));
        sigs.push(s.0);
        rep.fire("power_loss_in_flush", 1);
    }
    for (p, b) in seq {
        disk.insert(p, b);
    }
    // obsolete-object deletion: every prefix
    for (j, o) in out.obsolete.iter().enumerate() {
        disk.remove(&bucket_name(*o));
        let loaded = load_from(disk).map_err(|e| violation!("c10.load-error", "{ctx}: load after deleting {} obsolete objects failed: {e}", j + 1))?;
        let got = loaded.as_ref().map(contents).unwrap_or_default();
        if &got != now_model {
            return Err(violation!("c10.crash-prefix", "{ctx}: after deleting {} obsolete bucket objects a load yields {got:?}, expected {now_model:?}", j + 1));
        }
        rep.fire("power_loss_in_obsolete_deletion", 1);
    }
    if !out.obsolete.is_empty() {
        rep.probe("flush_retired_obsolete_buckets", out.obsolete.len() as u64);
    }
    Ok(true)
}

fn run_seq(seed: u64, unique: bool, bucket: usize, ops: &[BOp], queries: &[Q], rep: &mut RunReport) -> Result<(), Violation> {
    let cfg = BTreeConfig { bucket_overload_size: bucket, allow_duplicates: !unique };
    let mut idx: BTreeIndex<u64, String> = BTreeIndex::new("t".into(), Some(cfg));
    let mut m = MM::new();
    let mut disk = Disk::new();
    let mut committed = MM::new();
    let mut sigs = Vec::new();
    let mut trace = Sig::default();
    trace.add(seed);
    for (i, op) in ops.iter().enumerate() {
        let ctx = format!("after op#{i} {op:?}");
        match op {
            BOp::Flush => {
                if flush_with_prefix_sweep(&idx, &mut disk, &committed, &m, &ctx, rep, &mut sigs)? {
                    committed = m.clone();
                }
            }
            BOp::Legacify => {
                if flush_with_prefix_sweep(&idx, &mut disk, &committed, &m, &ctx, rep, &mut sigs)? {
                    committed = m.clone();
                }
                if let Some(cur) = load_from(&disk).map_err(|e| violation!("c10.load-error", "{ctx}: load before the legacy rewrite failed: {e}"))? {
                    // keep exactly the objects the manifest references, at generation 0
                    #[derive(Serialize)]
                    struct MetaRef<'a> {
                        metadata: &'a anda_db_btree::BTreeMetadata,
                    }
                    let mut meta = cur.metadata();
                    let manifest = std::mem::take(&mut meta.buckets);
                    let mut legacy = Disk::new();
                    for (bucket_id, generation) in &manifest {
                        if let Some(data) = disk.get(&bucket_name(BucketObject { bucket_id: *bucket_id, generation: *generation })) {
                            legacy.insert(bucket_name(BucketObject { bucket_id: *bucket_id, generation: 0 }), data.clone());
                        }
                    }
                    let mut buf = Vec::new();
                    cbor2::to_writer(&MetaRef { metadata: &meta }, &mut buf).map_err(|e| violation!("harness.legacy", "encoding legacy metadata failed: {e}"))?;
                    legacy.insert("meta".into(), buf);
                    disk = legacy;
                    let l = load_from(&disk).map_err(|e| violation!("c10.load-error", "{ctx}: loading the legacy (manifest-less) layout failed: {e}"))?;
                    let Some(l) = l else { return Err(violation!("c10.load-error", "{ctx}: the legacy layout did not load")) };
                    let got = contents(&l);
                    if got != committed {
                        return Err(violation!("c10.legacy-load", "{ctx}: the legacy (manifest-less) layout loads as {got:?}, the committed contents are {committed:?}"));
                    }
                    idx = l;
                    m = committed.clone();
                    rep.probe("legacy_layout_loaded", 1);
                }
            }
            BOp::Reload => {
                // crash without flushing: the reloaded index is the committed snapshot
                if let Some(l) = load_from(&disk).map_err(|e| violation!("c10.load-error", "{ctx}: reload failed: {e}"))? {
                    idx = l;
                    m = committed.clone();
                } else {
                    idx = BTreeIndex::new("t".into(), Some(BTreeConfig { bucket_overload_size: bucket, allow_duplicates: !unique }));
                    m = MM::new();
                }
                rep.probe("reloads", 1);
            }
            _ => {
                let mut m2 = m.clone();
                let want = model_apply(&mut m2, op, unique);
                let buckets_before = idx.stats().max_bucket_id;
                let got = real_apply(&idx, op, 1_700_000_000_000 + i as u64);
                match (&want, &got) {
                    (Ok(a), Ok(b)) => {
                        if a != b && !matches!(op, BOp::Compact) {
                            return Err(violation!("c10.return", "op#{i} {op:?} returned {b}, the ordered multimap says {a}"));
                        }
                        m = m2;
                    }
                    (Err(()), Err(_)) => {}
                    (Err(()), Ok(b)) => return Err(violation!("c10.unique", "op#{i} {op:?} must be refused (uniqueness) but returned Ok({b})")),
                    (Ok(a), Err(e)) => return Err(violation!("c10.return", "op#{i} {op:?} failed ({e}), the ordered multimap says Ok({a})")),
                }
                if idx.stats().max_bucket_id > buckets_before {
                    rep.probe("bucket_split_or_migration", 1);
                }
                trace.add_str(&format!("{got:?}"));
            }
        }
        if contents(&idx) != m {
            return Err(violation!("c10.contents", "{ctx}: index contents {:?} differ from the ordered multimap {:?}", contents(&idx), m));
        }
        check_queries(&idx, &m, queries, &ctx, rep)?;
    }
    rep.evaluations = ops.len() as u64 + sigs.len() as u64;
    sigs.push(trace.0);
    rep.nontrivial_sigs = sigs;
    rep.trace_hash = trace.0;
    rep.sample = Some(serde_json::json!({"kind": "seq", "unique": unique, "bucket": bucket, "ops": ops.iter().map(|o| format!("{o:?}")).collect::<Vec<_>>(), "queries": queries.iter().take(3).map(|q| format!("{q:?}")).collect::<Vec<_>>()}));
    Ok(())
}

// --- Persist: wrapper over Storage over SimStore

fn fv_key(k: u8, text: bool) -> Fv {
    if text { Fv::Text(key(k)) } else { Fv::U64((k % 8) as u64 * 3) }
}
fn key_of_fv(f: &Fv) -> String {
    match f {
        Fv::Text(s) => s.clone(),
        Fv::U64(u) => format!("{u:04}"),
        o => format!("{o:?}"),
    }
}

fn wrapper_contents(b: &BTree, text: bool) -> MM {
    let lo = if text { Fv::Text(String::new()) } else { Fv::U64(0) };
    let mut m = MM::new();
    for (k, ids) in b.range_query_with(RangeQuery::Ge(lo), |k, ids| (true, vec![(k, ids.clone())])) {
        m.insert(key_of_fv(&k), ids.into_iter().collect());
    }
    m
}

fn storage_for(store: &SimStore, bucket: usize, compress: i32) -> Result<Storage, String> {
    let cfg = StorageConfig { cache_max_capacity: 0, compress_level: compress, bucket_overload_size: bucket, ..Default::default() };
    block(Storage::connect("ix".to_string(), Arc::new(store.clone()), cfg)).map_err(|e| format!("{e:?}"))
}

fn run_persist(seed: u64, unique: bool, text: bool, bucket: usize, compress: i32, ops: &[BOp], rep: &mut RunReport) -> Result<(), Violation> {
    let mut cfg = SimConfig::simple(seed);
    cfg.park = false;
    cfg.clock = ClockMode::Tick(2);
    cfg.record_trace = false;
    let sim = Sim::new(&cfg);
    sim.install_clock_here();
    let store = SimStore::new(sim.clone(), InMemory::new());
    let storage = storage_for(&store, bucket, compress).map_err(|e| violation!("c10.setup", "storage connect failed: {e}"))?;
    let ft = if text { Ft::Text } else { Ft::U64 };
    let mut fe = Fe::new("f".to_string(), ft.clone()).map_err(|e| violation!("c10.setup", "field entry: {e:?}"))?;
    if unique {
        fe = fe.with_unique();
    }
    store.set_record_forks(true);
    store.set_marker(0);
    let mut b = block(BTree::new(fe.clone(), storage.clone(), 1)).map_err(|e| violation!("c10.setup", "BTree::new failed: {e:?}"))?;
    let mut m = MM::new();
    // snapshots[k] = model when op k started (the state an interrupted write-op would persist)
    let mut committed_at: Vec<MM> = vec![MM::new()]; // committed_at[marker]
    let mut now_at: Vec<MM> = vec![MM::new()];
    let mut committed = MM::new();
    let key_s = |k: u8| key_of_fv(&fv_key(k, text));
    for (i, op) in ops.iter().enumerate() {
        store.set_marker(i as u64 + 1);
        committed_at.push(committed.clone());
        now_at.push(m.clone());
        match op {
            BOp::Insert { id, key: k } => {
                let e = m.entry(key_s(*k)).or_default();
                let conflict = unique && !e.is_empty() && !e.contains(id);
                if e.is_empty() && conflict {
                    m.remove(&key_s(*k));
                }
                let r = b.insert(*id, &fv_key(*k, text), 2 + i as u64);
                match (conflict, r) {
                    (true, Err(_)) => {}
                    (false, Ok(_)) => {
                        m.entry(key_s(*k)).or_default().insert(*id);
                    }
                    (c, r) => return Err(violation!("c10.return", "op#{i} {op:?}: conflict={c} but wrapper returned {r:?}")),
                }
            }
            BOp::Remove { id, key: k } => {
                let had = m.get(&key_s(*k)).map(|e| e.contains(id)).unwrap_or(false);
                let r = b.remove(*id, &fv_key(*k, text), 2 + i as u64);
                if r != had {
                    return Err(violation!("c10.return", "op#{i} {op:?}: wrapper returned {r}, model says {had}"));
                }
                if let Some(e) = m.get_mut(&key_s(*k)) {
                    e.remove(id);
                    if e.is_empty() {
                        m.remove(&key_s(*k));
                    }
                }
            }
            BOp::Compact => {
                now_at[i + 1] = m.clone();
                block(b.compact_index()).map_err(|e| violation!("c10.compact-error", "op#{i}: compact_index failed: {e:?}"))?;
                // compact may persist: if it wrote anything, it committed the current state
                if !b.has_pending_flush() {
                    committed = m.clone();
                }
            }
            BOp::Flush => {
                block(b.flush(2 + i as u64)).map_err(|e| violation!("c10.flush-error", "op#{i}: flush failed: {e:?}"))?;
                committed = m.clone();
            }
            BOp::Reload => {
                // clean restart from storage without flushing: committed snapshot
                let st2 = storage_for(&store, bucket, compress).map_err(|e| violation!("c10.setup", "storage connect failed: {e}"))?;
                // two reloads in three meet one failing backend read (a transient
                // error, not NotFound): the bootstrap may refuse - and must then get
                // through on the next, fault-free attempt - but it must not come up
                // with part of what the last flush committed (checked right below)
                let k = simcore::rng::derive(seed ^ (i as u64) << 20, "reload-read-fault") % 30;
                let fired0: u64 = sim.fired().values().sum();
                if k < 20 {
                    sim.set_faults(vec![simcore::FaultSpec { site: simcore::Site::Call(sim.calls() + k), kind: simcore::FaultKind::FailBefore }]);
                }
                let r = block(BTree::bootstrap("f".to_string(), &ft, st2));
                let fired = sim.fired().values().sum::<u64>() > fired0;
                sim.clear_faults();
                b = match r {
                    Ok(b2) => {
                        if fired {
                            rep.probe("bootstrap_survived_a_read_fault", 1);
                        }
                        b2
                    }
                    Err(_) if fired => {
                        rep.probe("bootstrap_refused_on_read_fault", 1);
                        rep.fire("read_error_in_bootstrap", 1);
                        let st3 = storage_for(&store, bucket, compress).map_err(|e| violation!("c10.setup", "storage connect failed: {e}"))?;
                        block(BTree::bootstrap("f".to_string(), &ft, st3)).map_err(|e| violation!("c10.load-error", "op#{i}: bootstrap failed on an injected read error and again without any fault: {e:?}"))?
                    }
                    Err(e) => return Err(violation!("c10.load-error", "op#{i}: bootstrap failed: {e:?}")),
                };
                m = committed.clone();
            }
            _ => {}
        }
        let got = wrapper_contents(&b, text);
        if got != m {
            return Err(violation!("c10.contents", "after op#{i} {op:?}: wrapper contents {got:?} differ from the model {m:?}"));
        }
    }
    store.set_record_forks(false);
    let forks = store.take_forks();
    rep.merge_fired(&sim.fired());
    rep.steps += sim.calls();
    let mut sigs = Vec::new();
    let nf = forks.len();
    for f in forks {
        let mk = f.marker as usize;
        let ctx = format!(
            "crash before backend mutation #{} ({} {}) inside {}",
            f.mutations_before,
            f.next_kind.short(),
            f.next_path,
            if mk == 0 { "index creation".to_string() } else { format!("op#{} {:?}", mk - 1, ops[mk - 1]) }
        );
        let mut cfg2 = SimConfig::simple(seed ^ 0xF0);
        cfg2.park = false;
        cfg2.record_trace = false;
        cfg2.start_ms = f.clock_ms + 3;
        let sim2 = Sim::new(&cfg2);
        sim2.install_clock_here();
        let st = SimStore::new(sim2, f.disk);
        sigs.push(SimStore::disk_signature(st.disk()) ^ simcore::rng::mix(mk as u64));
        let storage2 = storage_for(&st, bucket, compress).map_err(|e| violation!("c10.load-error", "{ctx}: storage connect failed: {e}"))?;
        match block(BTree::bootstrap("f".to_string(), &ft, storage2)) {
            Ok(b2) => {
                let got = wrapper_contents(&b2, text);
                let (old, new) = (&committed_at[mk], &now_at[mk]);
                if &got != old && &got != new {
                    return Err(violation!("c10.crash-prefix", "{ctx}: bootstrap yields {got:?}; last committed flush {old:?}, interrupted flush {new:?}"));
                }
                // the recovered index must still work: insert + flush + reload
                b2.insert(99, &fv_key(7, text), 5).map_err(|e| violation!("c10.no-progress", "{ctx}: insert after recovery failed: {e:?}")).ok();
                block(b2.flush(6)).map_err(|e| violation!("c10.no-progress", "{ctx}: flush after recovery failed: {e:?}"))?;
                // what the recovered index holds survives its own next flush and a clean reload
                let want = wrapper_contents(&b2, text);
                let storage3 = storage_for(&st, bucket, compress).map_err(|e| violation!("c10.load-error", "{ctx}: storage connect failed: {e}"))?;
                let b3 = block(BTree::bootstrap("f".to_string(), &ft, storage3)).map_err(|e| violation!("c10.lost-after-recovery-flush", "{ctx}: after the recovered index flushed once more, loading it again failed: {e:?}"))?;
                let back = wrapper_contents(&b3, text);
                if back != want {
                    return Err(violation!("c10.lost-after-recovery-flush", "{ctx}: the recovered index held {want:?} after its next flush, but a clean reload yields {back:?}"));
                }
                rep.probe("recovered_then_flushed_then_reloaded", 1);
            }
            Err(e) => {
                // only a crash inside the very creation of the index may leave nothing to load
                if mk != 0 {
                    return Err(violation!("c10.load-error", "{ctx}: bootstrap failed: {e:?}"));
                }
            }
        }
        rep.fire("power_loss", 1);
    }
    sim.install_clock_here();
    rep.evaluations = nf as u64 + 1;
    rep.nontrivial_sigs = sigs;
    rep.trace_hash = sim.full_signature();
    rep.sample = Some(serde_json::json!({"kind": "persist", "unique": unique, "text_keys": text, "bucket": bucket, "ops": ops.iter().map(|o| format!("{o:?}")).collect::<Vec<_>>(), "crash_points": nf}));
    Ok(())
}

// --- Threads

#[derive(Clone, Debug, PartialEq, Eq, Hash)]
pub enum TRes {
    Count(u64),
    Refused,
}

struct TModel {
    unique: bool,
}
impl Model for TModel {
    type State = MM;
    type Op = BOp;
    type Res = TRes;
    fn step(&self, st: &MM, op: &BOp, res: Option<&TRes>) -> Vec<MM> {
        let mut m = st.clone();
        let want = model_apply(&mut m, op, self.unique);
        match (want, res) {
            (Ok(_), Some(TRes::Count(_))) if matches!(op, BOp::Compact) => vec![st.clone()],
            (Ok(a), Some(TRes::Count(b))) if a == *b => vec![m],
            (Err(()), Some(TRes::Refused)) => vec![st.clone()],
            (Ok(_), None) => vec![st.clone(), m],
            (Err(()), None) => vec![st.clone()],
            _ => vec![],
        }
    }
}

fn run_threads(seed: u64, unique: bool, bucket: usize, prefix: &[BOp], threads: &[Vec<BOp>], schedule: u8, sched_seed: u64, explicit: &Option<Vec<u32>>, rep: &mut RunReport) -> Result<(), Violation> {
    let cfg = BTreeConfig { bucket_overload_size: bucket, allow_duplicates: !unique };
    let idx: Arc<BTreeIndex<u64, String>> = Arc::new(BTreeIndex::new("t".into(), Some(cfg)));
    let mut m = MM::new();
    let clock = Arc::new(AtomicU64::new(0));
    let mut hist: Vec<Event<BOp, TRes>> = Vec::new();
    for op in prefix {
        let inv = clock.fetch_add(1, Ordering::SeqCst);
        let r = real_apply(&idx, op, 1);
        let ret = clock.fetch_add(1, Ordering::SeqCst);
        let mut m2 = m.clone();
        let want = model_apply(&mut m2, op, unique);
        let res = match (&want, &r) {
            (Ok(a), Ok(b)) if a == b || matches!(op, BOp::Compact) => {
                m = m2;
                TRes::Count(*b)
            }
            (Err(()), Err(_)) => TRes::Refused,
            _ => return Err(violation!("c10.return", "prefix {op:?} returned {r:?}, model says {want:?}")),
        };
        hist.push(Event { client: 0, invoke: inv, ret: Some(ret), op: op.clone(), res: Some(res) });
    }
    let recs: Arc<Mutex<Vec<Event<BOp, TRes>>>> = Arc::new(Mutex::new(Vec::new()));
    let mut bodies: Vec<Box<dyn FnOnce() + Send>> = Vec::new();
    for (ti, ops) in threads.iter().enumerate() {
        let idx = idx.clone();
        let ops = ops.clone();
        let clock = clock.clone();
        let recs = recs.clone();
        bodies.push(Box::new(move || {
            for op in ops {
                let inv = clock.fetch_add(1, Ordering::SeqCst);
                let r = real_apply(&idx, &op, 2);
                let ret = clock.fetch_add(1, Ordering::SeqCst);
                let res = match r {
                    Ok(n) => TRes::Count(n),
                    Err(_) => TRes::Refused,
                };
                recs.lock().unwrap().push(Event { client: ti + 1, invoke: inv, ret: Some(ret), op, res: Some(res) });
                simcore::threads::point("harness.between-ops");
            }
        }));
    }
    let mode = match explicit {
        Some(v) => ThreadSchedule::Explicit(v.clone()),
        None => match schedule {
            0 => ThreadSchedule::Uniform(sched_seed),
            1 => ThreadSchedule::Pct(sched_seed, 3, 60),
            _ => ThreadSchedule::Sticky(sched_seed, 4),
        },
    };
    let r = ThreadSim::run(mode, seed, None, bodies);
    rep.steps += r.steps;
    for (t, n) in tag_counts(&r.trace) {
        rep.probe(&format!("yield:{t}"), n);
    }
    rep.probe("thread_switches", r.switches);
    match &r.outcome {
        ThreadOutcome::Done => {}
        ThreadOutcome::Panic(p) => return Err(violation!("c10.thread-panic", "a thread panicked: {p}")),
        o => return Err(violation!("c10.thread-liveness", "threads did not finish: {o:?}")),
    }
    hist.extend(recs.lock().unwrap().iter().cloned());
    if unique {
        rep.probe("unique_insert_refused_under_threads", hist.iter().filter(|e| e.client > 0 && matches!(e.res, Some(TRes::Refused))).count() as u64);
        rep.probe("unique_insert_accepted_under_threads", hist.iter().filter(|e| e.client > 0 && matches!((&e.op, &e.res), (BOp::Insert { .. }, Some(TRes::Count(1))))).count() as u64);
        for (k, owners) in contents(&idx) {
            if owners.len() > 1 {
                let lines: Vec<String> = hist.iter().map(|e| format!("t{} [{},{}] {:?} -> {:?}", e.client, e.invoke, e.ret.unwrap_or(0), e.op, e.res)).collect();
                return Err(violation!("c04.unique-violated-under-threads", "unique index: value {k} is held by {owners:?} after the threads finished: {}", lines.join(" | ")));
            }
        }
    }
    let tm = TModel { unique };
    let lr = lin::check(&tm, MM::new(), &hist, true);
    if !lr.ok {
        let lines: Vec<String> = hist.iter().map(|e| format!("t{} [{},{}] {:?} -> {:?}", e.client, e.invoke, e.ret.unwrap_or(0), e.op, e.res)).collect();
        return Err(violation!("c10.not-linearizable", "thread history is not linearizable against the ordered multimap: {}", lines.join(" | ")));
    }
    let got = contents(&idx);
    if !lr.final_states.iter().any(|s| *s == got) {
        return Err(violation!("c10.thread-final", "after the threads finished the index holds {got:?}, which no linearization produces (e.g. {:?})", lr.final_states.first()));
    }
    // flush -> reload equals the in-memory contents (nothing re-binned into no bucket)
    let mut disk = Disk::new();
    let mut sigs = Vec::new();
    flush_with_prefix_sweep(&idx, &mut disk, &MM::new(), &got, "after threads", rep, &mut sigs)?;
    let loaded = load_from(&disk).map_err(|e| violation!("c10.load-error", "reload after threads failed: {e}"))?;
    let back = loaded.as_ref().map(contents).unwrap_or_default();
    if back != got {
        return Err(violation!("c10.lost-in-flush", "after the threads finished the index holds {got:?} but flush -> reload yields {back:?}"));
    }
    rep.evaluations = 1;
    if r.switches > 0 {
        rep.nontrivial_sigs.push(r.signature);
    }
    rep.trace_hash = r.signature;
    rep.sample = Some(serde_json::json!({"kind": "threads", "unique": unique, "bucket": bucket, "prefix": prefix.len(), "threads": threads.iter().map(|t| t.iter().map(|o| format!("{o:?}")).collect::<Vec<_>>()).collect::<Vec<_>>(), "steps": r.steps, "switches": r.switches,
        "trace_head": r.trace.iter().take(30).map(|(t, g)| format!("t{t}:{g}")).collect::<Vec<_>>()}));
    Ok(())
}

pub fn execute(case: &BCase, rep: &mut RunReport) -> Result<(), Violation> {
    match case {
        BCase::Seq { seed, unique, bucket, ops, queries } => run_seq(*seed, *unique, *bucket, ops, queries, rep),
        BCase::Persist { seed, unique, text_keys, bucket, compress, ops } => run_persist(*seed, *unique, *text_keys, *bucket, *compress, ops, rep),
        BCase::Threads { seed, unique, bucket, prefix, threads, schedule, sched_seed, explicit } => run_threads(*seed, *unique, *bucket, prefix, threads, *schedule, *sched_seed, explicit, rep),
    }
}

pub fn seed_of(case: &BCase) -> u64 {
    match case {
        BCase::Seq { seed, .. } | BCase::Persist { seed, .. } | BCase::Threads { seed, .. } => *seed,
    }
}

pub fn shrink(case: &BCase) -> Vec<BCase> {
    let mut out = Vec::new();
    match case {
        BCase::Seq { seed, unique, bucket, ops, queries } => {
            for i in (0..ops.len()).rev() {
                let mut o = ops.clone();
                o.remove(i);
                out.push(BCase::Seq { seed: *seed, unique: *unique, bucket: *bucket, ops: o, queries: queries.clone() });
            }
            for i in (0..queries.len()).rev() {
                let mut q = queries.clone();
                q.remove(i);
                out.push(BCase::Seq { seed: *seed, unique: *unique, bucket: *bucket, ops: ops.clone(), queries: q });
            }
        }
        BCase::Persist { seed, unique, text_keys, bucket, compress, ops } => {
            for i in (0..ops.len()).rev() {
                let mut o = ops.clone();
                o.remove(i);
                out.push(BCase::Persist { seed: *seed, unique: *unique, text_keys: *text_keys, bucket: *bucket, compress: *compress, ops: o });
            }
        }
        BCase::Threads { seed, unique, bucket, prefix, threads, schedule, sched_seed, explicit } => {
            for i in (0..prefix.len()).rev() {
                let mut p = prefix.clone();
                p.remove(i);
                out.push(BCase::Threads { seed: *seed, unique: *unique, bucket: *bucket, prefix: p, threads: threads.clone(), schedule: *schedule, sched_seed: *sched_seed, explicit: explicit.clone() });
            }
            for t in 0..threads.len() {
                for i in (0..threads[t].len()).rev() {
                    let mut th = threads.clone();
                    th[t].remove(i);
                    out.push(BCase::Threads { seed: *seed, unique: *unique, bucket: *bucket, prefix: prefix.clone(), threads: th, schedule: *schedule, sched_seed: *sched_seed, explicit: explicit.clone() });
                }
            }
        }
    }
    out
}
