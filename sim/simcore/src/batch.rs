//! Batch runner: seeded search over many simulated runs, in parallel, each on
//! a fresh OS thread; shrinking; replay files; evidence; known findings.

use serde::de::DeserializeOwned;
use serde::{Deserialize, Serialize};
use serde_json::{Value, json};
use std::collections::{BTreeMap, BTreeSet, HashMap, HashSet};
use std::path::{Path, PathBuf};
use std::sync::atomic::{AtomicBool, AtomicU64, Ordering};
use std::sync::{Arc, Mutex};
use std::time::{Duration, Instant};

use crate::rng::derive2;

#[derive(Clone, Copy, Debug, PartialEq, Eq)]
pub enum Tier {
    Quick,
    Thorough,
}
impl Tier {
    pub fn name(self) -> &'static str {
        match self {
            Tier::Quick => "quick",
            Tier::Thorough => "thorough",
        }
    }
}

#[derive(Clone, Debug, Serialize, Deserialize)]
pub struct Violation {
    /// Stable class: oracle id + property clause. Shrinking preserves it and
    /// known findings are keyed by it.
    pub class: String,
    pub message: String,
}

impl Violation {
    pub fn new(class: impl Into<String>, message: impl Into<String>) -> Self {
        Violation {
            class: class.into(),
            message: message.into(),
        }
    }
}

#[macro_export]
macro_rules! violation {
    ($class:expr, $($arg:tt)*) => {
        $crate::batch::Violation::new($class, format!($($arg)*))
    };
}

/// What one simulated run (possibly many sub-evaluations) reports.
#[derive(Clone, Debug, Default)]
pub struct RunReport {
    /// Number of evaluations in this run (1 + sub-runs such as crash forks).
    pub evaluations: u64,
    /// Signatures of the non-trivial evaluations (schedule+fault signature,
    /// crash-state signature, …; the rule is stated by the harness).
    pub nontrivial_sigs: Vec<u64>,
    pub fired: BTreeMap<String, u64>,
    pub probes: BTreeMap<String, u64>,
    pub sim_ms: i64,
    pub steps: u64,
    pub sample: Option<Value>,
    /// Hash of the full event trace (determinism self-test compares these).
    pub trace_hash: u64,
}

impl RunReport {
    pub fn fire(&mut self, k: &str, n: u64) {
        if n > 0 {
            *self.fired.entry(k.to_string()).or_insert(0) += n;
        }
    }
    pub fn probe(&mut self, k: &str, n: u64) {
        if n > 0 {
            *self.probes.entry(k.to_string()).or_insert(0) += n;
        }
    }
    pub fn merge_fired(&mut self, m: &BTreeMap<&'static str, u64>) {
        for (k, v) in m {
            self.fire(k, *v);
        }
    }
}

pub trait Harness: Send + Sync + 'static {
    type Case: Serialize + DeserializeOwned + Clone + Send + 'static;
    /// Generates run `idx` of a batch (pure function of its arguments).
    fn generate(&self, case_seed: u64, idx: u64, tier: Tier) -> Self::Case;
    /// Seed for the run thread's entropy stream.
    fn entropy_seed(&self, case: &Self::Case) -> u64;
    /// Executes one case on the *current* (fresh) thread.
    fn execute(&self, case: &Self::Case, report: &mut RunReport) -> Result<(), Violation>;
    /// Simpler variants of a failing case, most aggressive first.
    fn shrink(&self, _case: &Self::Case) -> Vec<Self::Case> {
        Vec::new()
    }
}

// ---------------------------------------------------------------------------
// panic capture

static PANIC_MSGS: Mutex<Option<HashMap<std::thread::ThreadId, String>>> = Mutex::new(None);

pub fn install_panic_hook() {
    std::panic::set_hook(Box::new(|info| {
        let msg = if let Some(s) = info.payload().downcast_ref::<&str>() {
            s.to_string()
        } else if let Some(s) = info.payload().downcast_ref::<String>() {
            s.clone()
        } else {
            "<non-string panic>".to_string()
        };
        let loc = info
            .location()
            .map(|l| format!("{}:{}", l.file(), l.line()))
            .unwrap_or_default();
        let mut g = PANIC_MSGS.lock().unwrap_or_else(|e| e.into_inner());
        g.get_or_insert_with(HashMap::new)
            .insert(std::thread::current().id(), format!("{msg} @ {loc}"));
    }));
}

fn take_panic_msg(id: std::thread::ThreadId) -> String {
    let mut g = PANIC_MSGS.lock().unwrap_or_else(|e| e.into_inner());
    g.as_mut()
        .and_then(|m| m.remove(&id))
        .unwrap_or_else(|| "<panic>".into())
}

/// Executes one case on a fresh thread with seeded entropy installed.
pub fn execute_isolated<H: Harness>(h: &Arc<H>, case: &H::Case) -> (RunReport, Option<Violation>) {
    let h2 = h.clone();
    let case2 = case.clone();
    let handle = std::thread::Builder::new()
        .stack_size(32 << 20)
        .spawn(move || {
            crate::seams::install_entropy(h2.entropy_seed(&case2));
            let mut rep = RunReport::default();
            let r = h2.execute(&case2, &mut rep);
            crate::seams::uninstall_entropy();
            crate::seams::uninstall_clock();
            (rep, r.err())
        })
        .expect("spawn run thread");
    let tid = handle.thread().id();
    match handle.join() {
        Ok(x) => x,
        Err(_) => {
            let msg = take_panic_msg(tid);
            let mut rep = RunReport::default();
            rep.evaluations = 1;
            // class: panic location without message details
            let loc = msg.rsplit(" @ ").next().unwrap_or("").to_string();
            (
                rep,
                Some(Violation::new(format!("panic@{loc}"), format!("panic: {msg}"))),
            )
        }
    }
}

// ---------------------------------------------------------------------------
// options

#[derive(Clone, Debug)]
pub struct Opts {
    pub property: String,
    pub tier: Tier,
    pub seed: u64,
    pub runs: Option<u64>,
    pub budget_s: Option<f64>,
    pub workers: usize,
    pub evidence: Option<PathBuf>,
    pub replay: Option<PathBuf>,
    pub verif_dir: PathBuf,
    pub extra: BTreeMap<String, String>,
}

pub fn parse_args() -> Opts {
    let mut o = Opts {
        property: String::new(),
        tier: match std::env::var("VERIF_TIER").as_deref() {
            Ok("thorough") => Tier::Thorough,
            _ => Tier::Quick,
        },
        seed: std::env::var("VERIF_SEED")
            .ok()
            .and_then(|s| s.trim().parse::<u64>().ok())
            .unwrap_or(1),
        runs: None,
        budget_s: None,
        workers: std::env::var("VERIF_WORKERS")
            .ok()
            .and_then(|s| s.parse().ok())
            .unwrap_or(16),
        evidence: None,
        replay: None,
        verif_dir: PathBuf::from(
            std::env::var("VERIF_DIR").unwrap_or_else(|_| "/verif".to_string()),
        ),
        extra: BTreeMap::new(),
    };
    let args: Vec<String> = std::env::args().skip(1).collect();
    let mut i = 0;
    while i < args.len() {
        let a = &args[i];
        let mut val = || {
            i += 1;
            args.get(i).cloned().unwrap_or_else(|| {
                eprintln!("missing value for {a}");
                std::process::exit(2)
            })
        };
        match a.as_str() {
            "--property" => o.property = val(),
            "--tier" => {
                o.tier = match val().as_str() {
                    "thorough" => Tier::Thorough,
                    _ => Tier::Quick,
                }
            }
            "--seed" => o.seed = val().parse().unwrap_or(1),
            "--runs" => o.runs = val().parse().ok(),
            "--budget" => o.budget_s = val().parse().ok(),
            "--workers" => o.workers = val().parse().unwrap_or(16),
            "--evidence" => o.evidence = Some(PathBuf::from(val())),
            "--replay" => o.replay = Some(PathBuf::from(val())),
            s if s.starts_with("--") => {
                let k = s.trim_start_matches("--").to_string();
                let v = val();
                o.extra.insert(k, v);
            }
            _ => {}
        }
        i += 1;
    }
    o
}

// ---------------------------------------------------------------------------
// known findings

#[derive(Clone, Debug, Serialize, Deserialize)]
pub struct KnownFinding {
    pub kind: String, // "finding" | "fixed"
    pub property: String,
    /// Violation-class prefix this entry identifies.
    pub signature: String,
    pub what: String,
    #[serde(default)]
    pub commit: Option<String>,
}

pub fn load_known_findings(verif_dir: &Path) -> Vec<KnownFinding> {
    let p = verif_dir.join("known_findings.jsonl");
    let Ok(s) = std::fs::read_to_string(p) else {
        return vec![];
    };
    s.lines()
        .filter(|l| !l.trim().is_empty() && !l.trim_start().starts_with('#'))
        .filter_map(|l| serde_json::from_str(l).ok())
        .collect()
}

// ---------------------------------------------------------------------------
// batch

pub struct BatchResult {
    pub runs: u64,
    pub evaluations: u64,
    pub distinct_nontrivial: u64,
    pub fired: BTreeMap<String, u64>,
    pub probes: BTreeMap<String, u64>,
    pub sim_ms: i64,
    pub steps: u64,
    pub wall_s: f64,
    pub samples: Vec<Value>,
    pub violation: Option<(u64, Value, Violation)>, // (run idx, case json, violation)
    pub known_hits: Vec<(KnownFinding, String)>,
    pub trace_hashes: Vec<(u64, u64)>,
}

pub struct Phase<H: Harness> {
    pub harness: Arc<H>,
    pub label: String,
    pub runs: u64,
    pub budget: Duration,
}

/// Runs up to `runs` cases (indexes 0..runs) within `budget`, 16-way parallel.
/// Stops early at the first violation that is not a known finding.
pub fn run_phase<H: Harness>(
    h: &Arc<H>,
    opts: &Opts,
    label: &str,
    runs: u64,
    budget: Duration,
    known: &[KnownFinding],
    keep_hashes: bool,
) -> BatchResult {
    let start = Instant::now();
    let next = Arc::new(AtomicU64::new(0));
    let stop = Arc::new(AtomicBool::new(false));
    struct Acc {
        runs: u64,
        evaluations: u64,
        sigs: HashSet<u64>,
        fired: BTreeMap<String, u64>,
        probes: BTreeMap<String, u64>,
        sim_ms: i64,
        steps: u64,
        samples: BTreeMap<u64, Value>,
        violations: BTreeMap<u64, (Value, Violation)>,
        known_hits: Vec<(KnownFinding, String)>,
        hashes: Vec<(u64, u64)>,
    }
    let acc = Arc::new(Mutex::new(Acc {
        runs: 0,
        evaluations: 0,
        sigs: HashSet::new(),
        fired: BTreeMap::new(),
        probes: BTreeMap::new(),
        sim_ms: 0,
        steps: 0,
        samples: BTreeMap::new(),
        violations: BTreeMap::new(),
        known_hits: Vec::new(),
        hashes: Vec::new(),
    }));
    let root = derive2(opts.seed, &format!("{}/{}", opts.property, label), 0);
    let workers = opts.workers.max(1);
    let mut handles = Vec::new();
    for _w in 0..workers {
        let h = h.clone();
        let next = next.clone();
        let stop = stop.clone();
        let acc = acc.clone();
        let tier = opts.tier;
        let known: Vec<KnownFinding> = known.to_vec();
        let prop = opts.property.clone();
        handles.push(std::thread::spawn(move || {
            loop {
                if stop.load(Ordering::SeqCst) {
                    break;
                }
                if start.elapsed() > budget {
                    break;
                }
                let idx = next.fetch_add(1, Ordering::SeqCst);
                if idx >= runs {
                    break;
                }
                let case_seed = derive2(root, "case", idx);
                let case = h.generate(case_seed, idx, tier);
                let (rep, viol) = execute_isolated(&h, &case);
                let mut a = acc.lock().unwrap_or_else(|e| e.into_inner());
                a.runs += 1;
                a.evaluations += rep.evaluations.max(1);
                for s in &rep.nontrivial_sigs {
                    a.sigs.insert(*s);
                }
                for (k, v) in &rep.fired {
                    *a.fired.entry(k.clone()).or_insert(0) += v;
                }
                for (k, v) in &rep.probes {
                    *a.probes.entry(k.clone()).or_insert(0) += v;
                }
                a.sim_ms += rep.sim_ms;
                a.steps += rep.steps;
                if keep_hashes {
                    a.hashes.push((idx, rep.trace_hash));
                }
                if let Some(s) = rep.sample {
                    if a.samples.len() < 4 || idx < 4 {
                        a.samples.insert(idx, s);
                        while a.samples.len() > 4 {
                            let last = *a.samples.keys().next_back().unwrap();
                            a.samples.remove(&last);
                        }
                    }
                }
                if let Some(v) = viol {
                    let kf = known.iter().find(|k| {
                        k.kind == "finding" && k.property == prop && v.class.starts_with(&k.signature)
                    });
                    match kf {
                        Some(k) => {
                            if !a.known_hits.iter().any(|(x, _)| x.signature == k.signature) {
                                a.known_hits.push((k.clone(), v.message.clone()));
                            }
                        }
                        None => {
                            let cj = serde_json::to_value(&case).unwrap_or(Value::Null);
                            a.violations.insert(idx, (cj, v));
                            stop.store(true, Ordering::SeqCst);
                        }
                    }
                }
            }
        }));
    }
    for hd in handles {
        let _ = hd.join();
    }
    let a = Arc::try_unwrap(acc)
        .ok()
        .expect("acc")
        .into_inner()
        .unwrap_or_else(|e| e.into_inner());
    let violation = a
        .violations
        .into_iter()
        .next()
        .map(|(idx, (c, v))| (idx, c, v));
    let mut hashes = a.hashes;
    hashes.sort();
    BatchResult {
        runs: a.runs,
        evaluations: a.evaluations,
        distinct_nontrivial: a.sigs.len() as u64,
        fired: a.fired,
        probes: a.probes,
        sim_ms: a.sim_ms,
        steps: a.steps,
        wall_s: start.elapsed().as_secs_f64(),
        samples: a.samples.into_values().collect(),
        violation,
        known_hits: a.known_hits,
        trace_hashes: hashes,
    }
}

/// Greedy shrinking: accept the first candidate that still fails with the
/// same violation class; repeat until a fixpoint or the budget is exhausted.
pub fn shrink_case<H: Harness>(
    h: &Arc<H>,
    case: H::Case,
    viol: Violation,
    max_execs: u64,
    budget: Duration,
) -> (H::Case, Violation, u64) {
    let start = Instant::now();
    let mut cur = case;
    let mut cur_v = viol;
    let mut execs = 0u64;
    'outer: loop {
        let cands = h.shrink(&cur);
        for c in cands {
            if execs >= max_execs || start.elapsed() > budget {
                break 'outer;
            }
            execs += 1;
            let (_rep, v) = execute_isolated(h, &c);
            if let Some(v) = v {
                if v.class == cur_v.class {
                    cur = c;
                    cur_v = v;
                    continue 'outer;
                }
            }
        }
        break;
    }
    (cur, cur_v, execs)
}

#[derive(Serialize, Deserialize)]
pub struct ReplayFile {
    pub property: String,
    pub harness: String,
    pub mode: String,
    pub seed: u64,
    pub run_index: u64,
    pub case: Value,
    pub violation: Violation,
    pub shrink_executions: u64,
    pub note: String,
}

pub fn write_replay(
    opts: &Opts,
    harness: &str,
    mode: &str,
    run_index: u64,
    case: Value,
    v: &Violation,
    shrink_executions: u64,
) -> PathBuf {
    let dir = opts.verif_dir.join("replays");
    let _ = std::fs::create_dir_all(&dir);
    let p = dir.join(format!("{}-{}-{}-{}.json", opts.property, mode, opts.seed, run_index));
    let rf = ReplayFile {
        property: opts.property.clone(),
        harness: harness.to_string(),
        mode: mode.to_string(),
        seed: opts.seed,
        run_index,
        case,
        violation: v.clone(),
        shrink_executions,
        note: "replay with: ./check <property> --replay <this file>; the case is complete (workload, knobs, fault plan, schedule) and needs no seed".into(),
    };
    let _ = std::fs::write(&p, serde_json::to_vec_pretty(&rf).unwrap());
    p
}

pub fn read_replay(p: &Path) -> Result<ReplayFile, String> {
    let s = std::fs::read_to_string(p).map_err(|e| format!("read {p:?}: {e}"))?;
    serde_json::from_str(&s).map_err(|e| format!("parse {p:?}: {e}"))
}

// ---------------------------------------------------------------------------
// evidence accumulation across phases

pub struct Evidence {
    pub property: String,
    pub level: String,
    pub tier: Tier,
    pub seed: u64,
    pub start: Instant,
    pub evaluations: u64,
    pub runs: u64,
    pub distinct: u64,
    pub fired: BTreeMap<String, u64>,
    pub probes: BTreeMap<String, u64>,
    pub sim_ms: i64,
    pub steps: u64,
    pub samples: Vec<Value>,
    pub phases: Vec<Value>,
    pub rule: String,
    pub assumptions: Vec<String>,
    pub real: Vec<String>,
    pub stub: Vec<String>,
    pub violations: u64,
    pub known_findings: Vec<String>,
    pub extra: BTreeMap<String, Value>,
}

impl Evidence {
    pub fn new(opts: &Opts, level: &str, rule: &str) -> Self {
        Evidence {
            property: opts.property.clone(),
            level: level.to_string(),
            tier: opts.tier,
            seed: opts.seed,
            start: Instant::now(),
            evaluations: 0,
            runs: 0,
            distinct: 0,
            fired: BTreeMap::new(),
            probes: BTreeMap::new(),
            sim_ms: 0,
            steps: 0,
            samples: vec![],
            phases: vec![],
            rule: rule.to_string(),
            assumptions: vec![],
            real: vec![],
            stub: vec![],
            violations: 0,
            known_findings: vec![],
            extra: BTreeMap::new(),
        }
    }
    pub fn absorb(&mut self, label: &str, r: &BatchResult) {
        self.evaluations += r.evaluations;
        self.runs += r.runs;
        self.distinct += r.distinct_nontrivial;
        for (k, v) in &r.fired {
            *self.fired.entry(k.clone()).or_insert(0) += v;
        }
        for (k, v) in &r.probes {
            *self.probes.entry(k.clone()).or_insert(0) += v;
        }
        self.sim_ms += r.sim_ms;
        self.steps += r.steps;
        for s in r.samples.iter().take(2) {
            if self.samples.len() < 8 {
                self.samples.push(json!({"phase": label, "case": s}));
            }
        }
        self.phases.push(json!({
            "phase": label, "runs": r.runs, "evaluations": r.evaluations,
            "distinct_nontrivial": r.distinct_nontrivial, "wall_s": (r.wall_s*1000.0).round()/1000.0,
            "scheduling_steps": r.steps,
        }));
        if r.violation.is_some() {
            self.violations += 1;
        }
        for (k, msg) in &r.known_hits {
            self.known_findings
                .push(format!("{} :: {} :: {}", k.signature, k.what, msg));
        }
    }
    pub fn write(&self, path: &Path) {
        let wall = self.start.elapsed().as_secs_f64();
        let per_hour = if wall > 0.0 { 3600.0 / wall } else { 0.0 };
        let mut cov = serde_json::Map::new();
        cov.insert("evaluations".into(), json!(self.evaluations));
        cov.insert("distinct_nontrivial".into(), json!(self.distinct));
        cov.insert("rule".into(), json!(self.rule));
        cov.insert("samples".into(), json!(self.samples));
        cov.insert("simulated_runs".into(), json!(self.runs));
        cov.insert(
            "runs_per_hour".into(),
            json!((self.runs as f64 * per_hour).round()),
        );
        cov.insert(
            "evaluations_per_hour".into(),
            json!((self.evaluations as f64 * per_hour).round()),
        );
        cov.insert("simulated_time_ms".into(), json!(self.sim_ms));
        cov.insert("scheduling_steps".into(), json!(self.steps));
        cov.insert("faults_fired".into(), json!(self.fired));
        cov.insert("reach_probes".into(), json!(self.probes));
        cov.insert("phases".into(), json!(self.phases));
        cov.insert("real_code".into(), json!(self.real));
        cov.insert("stubbed".into(), json!(self.stub));
        cov.insert("known_findings_reproduced".into(), json!(self.known_findings));
        for (k, v) in &self.extra {
            cov.insert(k.clone(), v.clone());
        }
        let ev = json!({
            "property_id": self.property,
            "tier": self.tier.name(),
            "seed": self.seed,
            "level": self.level,
            "coverage": Value::Object(cov),
            "assumptions": self.assumptions,
            "wall_s": (wall*1000.0).round()/1000.0,
            "violations": self.violations,
        });
        if let Some(dir) = path.parent() {
            let _ = std::fs::create_dir_all(dir);
        }
        let _ = std::fs::write(path, serde_json::to_vec_pretty(&ev).unwrap());
    }
}

/// Standard handling of a phase result: shrink + write replay + print the
/// VIOLATION line. Returns true if a (non-known) violation was reported.
pub fn report_violation<H: Harness>(
    h: &Arc<H>,
    opts: &Opts,
    harness_name: &str,
    mode: &str,
    r: &BatchResult,
) -> bool {
    let Some((idx, case_json, viol)) = &r.violation else {
        return false;
    };
    let case: H::Case = match serde_json::from_value(case_json.clone()) {
        Ok(c) => c,
        Err(e) => {
            eprintln!("harness error: cannot re-read case: {e}");
            std::process::exit(2);
        }
    };
    // confirm it reproduces (determinism) before shrinking
    let (_r, v2) = execute_isolated(h, &case);
    let reproducible = v2.as_ref().map(|v| v.class == viol.class).unwrap_or(false);
    let (min_case, min_v, execs) = if reproducible {
        shrink_case(h, case, viol.clone(), 400, Duration::from_secs(120))
    } else {
        eprintln!(
            "warning: violation did not reproduce on immediate re-execution (class {}); reporting unshrunk",
            viol.class
        );
        (case, viol.clone(), 0)
    };
    let p = write_replay(
        opts,
        harness_name,
        mode,
        *idx,
        serde_json::to_value(&min_case).unwrap(),
        &min_v,
        execs,
    );
    println!("violation class={} message={}", min_v.class, min_v.message);
    println!("VIOLATION property={} replay={}", opts.property, p.display());
    true
}

pub fn print_known_findings(opts: &Opts, known: &[KnownFinding], reproduced: &[String]) {
    for k in known {
        if k.property == opts.property && k.kind == "finding" {
            let hit = reproduced.iter().any(|r| r.starts_with(&k.signature));
            println!(
                "KNOWN-FINDING: property={} {} [{}; signature={}]",
                opts.property,
                k.what,
                if hit { "reproduced in this run" } else { "not reproduced in this run" },
                k.signature
            );
        }
    }
}

/// Replays a file through a harness. Exit code semantics are the caller's.
pub fn replay_file<H: Harness>(h: &Arc<H>, rf: &ReplayFile) -> Option<Violation> {
    let case: H::Case = match serde_json::from_value(rf.case.clone()) {
        Ok(c) => c,
        Err(e) => {
            eprintln!("harness error: replay case does not parse: {e}");
            std::process::exit(2);
        }
    };
    let (_rep, v) = execute_isolated(h, &case);
    v
}

pub fn distinct_count(xs: &[u64]) -> usize {
    xs.iter().collect::<BTreeSet<_>>().len()
}

// ---------------------------------------------------------------------------
// standard driver

pub struct PhaseSpec {
    pub label: &'static str,
    pub quick_runs: u64,
    pub thorough_runs: u64,
    pub quick_budget_s: f64,
    pub thorough_budget_s: f64,
}

pub struct CheckSpec<'a> {
    pub harness_name: &'a str,
    pub level: &'a str,
    pub rule: &'a str,
    pub real: &'a [&'a str],
    pub stub: &'a [&'a str],
    pub assumptions: &'a [&'a str],
    /// Probes that must be non-zero over the batch, else it is inconclusive.
    pub required_probes: &'a [&'a str],
    pub required_faults: &'a [&'a str],
}

/// Runs one harness over its phases; handles --replay, known findings,
/// evidence and the exit code. `mode_of` maps a phase label to the harness
/// instance for that phase (harnesses may be parameterised by mode).
pub fn standard_main<H: Harness>(
    opts: &Opts,
    spec: &CheckSpec,
    phases: Vec<(PhaseSpec, Arc<H>)>,
) -> i32 {
    install_panic_hook();
    crate::logprobe::install_global();
    let known = load_known_findings(&opts.verif_dir);
    if let Some(p) = &opts.replay {
        let rf = match read_replay(p) {
            Ok(r) => r,
            Err(e) => {
                eprintln!("harness error: {e}");
                return 2;
            }
        };
        let Some((_, h)) = phases.iter().find(|(ps, _)| ps.label == rf.mode) else {
            eprintln!("harness error: replay mode {} unknown to this harness", rf.mode);
            return 2;
        };
        println!("replaying {} (property {}, mode {})", p.display(), rf.property, rf.mode);
        return match replay_file(h, &rf) {
            Some(v) => {
                println!("violation class={} message={}", v.class, v.message);
                if v.class != rf.violation.class {
                    println!("note: recorded class was {}", rf.violation.class);
                }
                println!("VIOLATION property={} replay={}", rf.property, p.display());
                1
            }
            None => {
                println!("REPLAY-PASS: the recorded case no longer violates the property");
                0
            }
        };
    }
    println!(
        "check property={} tier={} VERIF_SEED={} workers={}",
        opts.property,
        opts.tier.name(),
        opts.seed,
        opts.workers
    );
    let mut ev = Evidence::new(opts, spec.level, spec.rule);
    ev.real = spec.real.iter().map(|s| s.to_string()).collect();
    ev.stub = spec.stub.iter().map(|s| s.to_string()).collect();
    ev.assumptions = spec.assumptions.iter().map(|s| s.to_string()).collect();
    let mut violated = false;
    let mut all_hashes: Vec<(String, u64, u64)> = Vec::new();
    let keep_hashes = opts.extra.contains_key("hashes-out");
    for (ps, h) in &phases {
        let (runs, budget) = match opts.tier {
            Tier::Quick => (ps.quick_runs, ps.quick_budget_s),
            Tier::Thorough => (ps.thorough_runs, ps.thorough_budget_s),
        };
        let runs = opts.runs.unwrap_or(runs);
        let budget = opts.budget_s.unwrap_or(budget);
        if runs == 0 {
            continue;
        }
        let r = run_phase(
            h,
            opts,
            ps.label,
            runs,
            Duration::from_secs_f64(budget),
            &known,
            keep_hashes,
        );
        println!(
            "phase {}: runs={} evaluations={} distinct_nontrivial={} wall={:.1}s",
            ps.label, r.runs, r.evaluations, r.distinct_nontrivial, r.wall_s
        );
        ev.absorb(ps.label, &r);
        for (i, hsh) in &r.trace_hashes {
            all_hashes.push((ps.label.to_string(), *i, *hsh));
        }
        if report_violation(h, opts, spec.harness_name, ps.label, &r) {
            violated = true;
            break;
        }
    }
    if let Some(p) = opts.extra.get("hashes-out") {
        let mut s = String::new();
        for (l, i, h) in &all_hashes {
            s.push_str(&format!("{l} {i} {h:016x}\n"));
        }
        let _ = std::fs::write(p, s);
    }
    let reproduced: Vec<String> = ev.known_findings.clone();
    print_known_findings(opts, &known, &reproduced);
    let ev_path = opts
        .evidence
        .clone()
        .unwrap_or_else(|| opts.verif_dir.join("evidence").join(format!("{}.json", opts.property)));
    if !violated {
        // reach: required probes / faults must have fired (full-size batches only)
        let full = opts.runs.is_none();
        if full {
            let mut missing = Vec::new();
            for p in spec.required_probes {
                if ev.probes.get(*p).copied().unwrap_or(0) == 0 {
                    missing.push(format!("probe:{p}"));
                }
            }
            for f in spec.required_faults {
                if ev.fired.get(*f).copied().unwrap_or(0) == 0 {
                    missing.push(format!("fault:{f}"));
                }
            }
            if !missing.is_empty() {
                ev.extra.insert("inconclusive_missing_reach".into(), json!(missing));
                ev.write(&ev_path);
                eprintln!(
                    "harness error: batch inconclusive, reach probes stuck at zero: {missing:?}"
                );
                return 2;
            }
        }
    }
    ev.write(&ev_path);
    println!(
        "evidence: {} (evaluations={} distinct_nontrivial={} violations={})",
        ev_path.display(),
        ev.evaluations,
        ev.distinct,
        ev.violations
    );
    if violated { 1 } else { 0 }
}
