//! `SimStore`: the simulated disk.
//!
//! Durable state is a real `object_store::memory::InMemory` (the reference
//! store the repository's own tests run on), so the stub cannot drift from the
//! reference semantics. `SimStore` adds what a simulator needs around it:
//! every call is a parked scheduling/fault point (see [`crate::sim`]), mutating
//! calls can fork the disk immediately before they apply (crash-point sweeps),
//! listings can be paged (non-snapshot, S3-like), and a mutation log records
//! who wrote what, for write-silence oracles.

use async_trait::async_trait;
use bytes::Bytes;
use futures::stream::{self, BoxStream, StreamExt};
use object_store::memory::InMemory;
use object_store::path::Path;
use object_store::{
    CopyOptions, Error, GetOptions, GetResult, ListResult, MultipartUpload, ObjectMeta,
    ObjectStore, ObjectStoreExt, PutMultipartOptions, PutOptions, PutPayload, PutResult, Result,
    UploadPart,
};
use std::fmt;
use std::ops::Range;
use std::sync::atomic::{AtomicBool, AtomicU32, Ordering};
use std::sync::{Arc, Mutex};

use crate::sim::{OpKind, Sim, Verdict};

pub struct Fork {
    /// Number of backend mutations applied before this snapshot.
    pub mutations_before: u64,
    /// The mutation about to be applied (kind, path) — i.e. the one that is
    /// lost by a crash at this point.
    pub next_kind: OpKind,
    pub next_path: String,
    pub disk: InMemory,
    /// Harness-defined marker at the time of the fork (e.g. client op index).
    pub marker: u64,
    pub clock_ms: i64,
}

struct Shared {
    inner: InMemory,
    sim: Sim,
    record_forks: AtomicBool,
    forks: Mutex<Vec<Fork>>,
    marker: std::sync::atomic::AtomicU64,
    /// 0 = snapshot listings; n>0 = pages of n keys, each page a new call.
    list_page: AtomicU32,
    applied_mutations: std::sync::atomic::AtomicU64,
    /// Torn writes only apply to paths with one of these prefixes (payload
    /// objects); elsewhere a `Tear` verdict degrades to fail-before, because
    /// the crash model of the code under test is atomic puts.
    tear_prefixes: Mutex<Vec<String>>,
    /// When set (and calls are parked) every successful backend call has a
    /// second scheduling point *after* its effect: the response is in flight
    /// while other tasks run, so a call takes effect anywhere between its
    /// invocation and the caller's resumption, not only at resumption.
    resp_delay: AtomicBool,
}

#[derive(Clone)]
pub struct SimStore(Arc<Shared>);

impl fmt::Debug for SimStore {
    fn fmt(&self, f: &mut fmt::Formatter<'_>) -> fmt::Result {
        write!(f, "SimStore")
    }
}
impl fmt::Display for SimStore {
    fn fmt(&self, f: &mut fmt::Formatter<'_>) -> fmt::Result {
        write!(f, "SimStore")
    }
}

fn injected(what: &str, path: &str) -> Error {
    Error::Generic {
        store: "SimStore",
        source: format!("injected fault: {what} at {path}").into(),
    }
}

/// Per-run choice (a pure function of the case seed) of whether responses are
/// delayed; half of the concurrent runs keep the coarser, cheaper schedule space.
pub fn seeded_response_delay(case_seed: u64) -> bool {
    crate::rng::derive(case_seed, "respdelay") % 2 == 1
}

pub fn is_injected(err: &Error) -> bool {
    err.to_string().contains("injected fault")
}

impl SimStore {
    pub fn new(sim: Sim, disk: InMemory) -> Self {
        SimStore(Arc::new(Shared {
            inner: disk,
            sim,
            record_forks: AtomicBool::new(false),
            forks: Mutex::new(Vec::new()),
            marker: std::sync::atomic::AtomicU64::new(0),
            list_page: AtomicU32::new(0),
            resp_delay: AtomicBool::new(false),
            applied_mutations: std::sync::atomic::AtomicU64::new(0),
            tear_prefixes: Mutex::new(Vec::new()),
        }))
    }
    pub fn sim(&self) -> &Sim {
        &self.0.sim
    }
    /// The durable state (what survives a crash).
    pub fn disk(&self) -> &InMemory {
        &self.0.inner
    }
    pub fn set_record_forks(&self, on: bool) {
        self.0.record_forks.store(on, Ordering::SeqCst);
    }
    pub fn set_marker(&self, m: u64) {
        self.0.marker.store(m, Ordering::SeqCst);
    }
    pub fn set_tear_prefixes(&self, p: &[&str]) {
        *self.0.tear_prefixes.lock().unwrap() = p.iter().map(|s| s.to_string()).collect();
    }
    fn may_tear(&self, path: &str) -> bool {
        self.0.tear_prefixes.lock().unwrap().iter().any(|p| path.starts_with(p.as_str()))
    }
    /// See `Shared::resp_delay`.
    pub fn set_response_delay(&self, on: bool) {
        self.0.resp_delay.store(on, Ordering::SeqCst);
    }
    /// The response of a completed backend call travels back to the caller.
    async fn response(&self, p: &str) {
        if self.0.resp_delay.load(Ordering::SeqCst) && self.0.sim.parking() {
            let _ = self.0.sim.ticket(OpKind::Yield, p).await;
        }
    }
    pub fn set_list_page(&self, n: u32) {
        self.0.list_page.store(n, Ordering::SeqCst);
    }
    pub fn take_forks(&self) -> Vec<Fork> {
        std::mem::take(&mut *self.0.forks.lock().unwrap_or_else(|e| e.into_inner()))
    }
    pub fn applied_mutations(&self) -> u64 {
        self.0.applied_mutations.load(Ordering::SeqCst)
    }

    fn before_mutation(&self, kind: OpKind, path: &str) {
        if self.0.record_forks.load(Ordering::SeqCst) {
            let f = Fork {
                mutations_before: self.0.applied_mutations.load(Ordering::SeqCst),
                next_kind: kind,
                next_path: path.to_string(),
                disk: self.0.inner.fork(),
                marker: self.0.marker.load(Ordering::SeqCst),
                clock_ms: self.0.sim.clock().now_ms(),
            };
            self.0.forks.lock().unwrap_or_else(|e| e.into_inner()).push(f);
        }
        self.0.applied_mutations.fetch_add(1, Ordering::SeqCst);
    }

    /// Sorted dump of the durable state: (path, bytes).
    pub fn dump(disk: &InMemory) -> Vec<(String, Bytes)> {
        futures::executor::block_on(async {
            let metas: Vec<ObjectMeta> = disk
                .list(None)
                .collect::<Vec<_>>()
                .await
                .into_iter()
                .filter_map(|r| r.ok())
                .collect();
            let mut out = Vec::with_capacity(metas.len());
            for m in metas {
                if let Ok(r) = disk.get(&m.location).await {
                    if let Ok(b) = r.bytes().await {
                        out.push((m.location.to_string(), b));
                    }
                }
            }
            out.sort_by(|a, b| a.0.cmp(&b.0));
            out
        })
    }

    pub fn disk_signature(disk: &InMemory) -> u64 {
        let mut sig = crate::rng::Sig::default();
        for (p, b) in Self::dump(disk) {
            sig.add_str(crate::sim::path_class(&p));
            sig.add(b.len() as u64);
        }
        sig.0
    }
}

#[derive(Debug)]
struct SimUpload {
    inner: Box<dyn MultipartUpload>,
    store: SimStore,
    path: String,
}

#[async_trait]
impl MultipartUpload for SimUpload {
    fn put_part(&mut self, data: PutPayload) -> UploadPart {
        let ticket = self.store.0.sim.ticket(OpKind::MpPart, &self.path);
        // InMemory buffers the part synchronously when the inner future is
        // created; decide first so a failed part is not buffered.
        let path = self.path.clone();
        // We cannot await before touching `inner` (the returned future must be
        // 'static), so create the inner future lazily through a shared slot.
        let fut_inner = self.inner.put_part(data);
        Box::pin(async move {
            match ticket.await {
                Verdict::Proceed => fut_inner.await,
                Verdict::FailAfter => {
                    let _ = fut_inner.await;
                    Err(injected("unknown outcome (part)", &path))
                }
                Verdict::FailBefore | Verdict::Tear(_) => Err(injected("part failed", &path)),
                Verdict::Crashed => Err(injected("power loss", &path)),
            }
        })
    }

    async fn complete(&mut self) -> Result<PutResult> {
        match self.store.0.sim.ticket(OpKind::MpComplete, &self.path).await {
            Verdict::Proceed => {
                self.store.before_mutation(OpKind::MpComplete, &self.path);
                let r = self.inner.complete().await;
                self.store.response(&self.path).await;
                r
            }
            Verdict::FailAfter => {
                self.store.before_mutation(OpKind::MpComplete, &self.path);
                let _ = self.inner.complete().await;
                Err(injected("unknown outcome", &self.path))
            }
            Verdict::FailBefore | Verdict::Tear(_) => Err(injected("fail before", &self.path)),
            Verdict::Crashed => Err(injected("power loss", &self.path)),
        }
    }

    async fn abort(&mut self) -> Result<()> {
        match self.store.0.sim.ticket(OpKind::MpAbort, &self.path).await {
            Verdict::Crashed => Err(injected("power loss", &self.path)),
            Verdict::FailBefore => Err(injected("fail before", &self.path)),
            _ => self.inner.abort().await,
        }
    }
}

#[async_trait]
impl ObjectStore for SimStore {
    async fn put_opts(
        &self,
        location: &Path,
        payload: PutPayload,
        opts: PutOptions,
    ) -> Result<PutResult> {
        let p = location.as_ref();
        match self.0.sim.ticket(OpKind::Put, p).await {
            Verdict::Proceed => {
                self.before_mutation(OpKind::Put, p);
                let r = self.0.inner.put_opts(location, payload, opts).await;
                self.response(p).await;
                r
            }
            Verdict::FailAfter => {
                self.before_mutation(OpKind::Put, p);
                // Precondition failures are still reported faithfully: the
                // write did not land, so there is no unknown outcome to hide.
                self.0.inner.put_opts(location, payload, opts).await?;
                Err(injected("unknown outcome", p))
            }
            Verdict::Tear(_) if !self.may_tear(p) => {
                self.0.sim.note_fired("torn_write_degraded_to_fail_before");
                Err(injected("fail before", p))
            }
            Verdict::Tear(permille) => {
                self.0.sim.note_fired("torn_write_applied");
                self.before_mutation(OpKind::Put, p);
                let all: Bytes = payload.into();
                let keep = (all.len() as u64 * permille as u64 / 1000) as usize;
                let torn = all.slice(0..keep.min(all.len()));
                self.0.inner.put_opts(location, torn.into(), opts).await?;
                Err(injected("torn write", p))
            }
            Verdict::FailBefore => Err(injected("fail before", p)),
            Verdict::Crashed => Err(injected("power loss", p)),
        }
    }

    async fn put_multipart_opts(
        &self,
        location: &Path,
        opts: PutMultipartOptions,
    ) -> Result<Box<dyn MultipartUpload>> {
        let p = location.as_ref();
        match self.0.sim.ticket(OpKind::MpCreate, p).await {
            Verdict::Proceed | Verdict::FailAfter | Verdict::Tear(_) => {
                let inner = self.0.inner.put_multipart_opts(location, opts).await?;
                Ok(Box::new(SimUpload {
                    inner,
                    store: self.clone(),
                    path: p.to_string(),
                }))
            }
            Verdict::FailBefore => Err(injected("fail before", p)),
            Verdict::Crashed => Err(injected("power loss", p)),
        }
    }

    async fn get_opts(&self, location: &Path, options: GetOptions) -> Result<GetResult> {
        let p = location.as_ref();
        let kind = if options.head { OpKind::Head } else { OpKind::Get };
        match self.0.sim.ticket(kind, p).await {
            Verdict::Proceed | Verdict::Tear(_) => {
                let r = self.0.inner.get_opts(location, options).await;
                self.response(p).await;
                r
            }
            Verdict::FailBefore | Verdict::FailAfter => Err(injected("read failed", p)),
            Verdict::Crashed => Err(injected("power loss", p)),
        }
    }

    async fn get_ranges(&self, location: &Path, ranges: &[Range<u64>]) -> Result<Vec<Bytes>> {
        let p = location.as_ref();
        match self.0.sim.ticket(OpKind::Get, p).await {
            Verdict::Proceed | Verdict::Tear(_) => {
                let r = self.0.inner.get_ranges(location, ranges).await;
                self.response(p).await;
                r
            }
            Verdict::FailBefore | Verdict::FailAfter => Err(injected("read failed", p)),
            Verdict::Crashed => Err(injected("power loss", p)),
        }
    }

    fn delete_stream(
        &self,
        locations: BoxStream<'static, Result<Path>>,
    ) -> BoxStream<'static, Result<Path>> {
        let this = self.clone();
        locations
            .then(move |location| {
                let this = this.clone();
                async move {
                    let location = location?;
                    let p = location.as_ref().to_string();
                    match this.0.sim.ticket(OpKind::Delete, &p).await {
                        Verdict::Proceed => {
                            this.before_mutation(OpKind::Delete, &p);
                            let r = this.0.inner.delete(&location).await;
                            this.response(&p).await;
                            r?;
                            Ok(location)
                        }
                        Verdict::FailAfter | Verdict::Tear(_) => {
                            this.before_mutation(OpKind::Delete, &p);
                            this.0.inner.delete(&location).await?;
                            Err(injected("unknown outcome", &p))
                        }
                        Verdict::FailBefore => Err(injected("fail before", &p)),
                        Verdict::Crashed => Err(injected("power loss", &p)),
                    }
                }
            })
            .boxed()
    }

    fn list(&self, prefix: Option<&Path>) -> BoxStream<'static, Result<ObjectMeta>> {
        self.list_impl(prefix.cloned(), None)
    }

    fn list_with_offset(
        &self,
        prefix: Option<&Path>,
        offset: &Path,
    ) -> BoxStream<'static, Result<ObjectMeta>> {
        self.list_impl(prefix.cloned(), Some(offset.clone()))
    }

    async fn list_with_delimiter(&self, prefix: Option<&Path>) -> Result<ListResult> {
        let p = prefix.map(|p| p.as_ref().to_string()).unwrap_or_default();
        match self.0.sim.ticket(OpKind::ListDelim, &p).await {
            Verdict::Proceed | Verdict::Tear(_) => {
                let r = self.0.inner.list_with_delimiter(prefix).await;
                self.response(&p).await;
                r
            }
            Verdict::FailBefore | Verdict::FailAfter => Err(injected("list failed", &p)),
            Verdict::Crashed => Err(injected("power loss", &p)),
        }
    }

    async fn copy_opts(&self, from: &Path, to: &Path, options: CopyOptions) -> Result<()> {
        let p = to.as_ref();
        match self.0.sim.ticket(OpKind::Copy, p).await {
            Verdict::Proceed => {
                self.before_mutation(OpKind::Copy, p);
                let r = self.0.inner.copy_opts(from, to, options).await;
                self.response(p).await;
                r
            }
            Verdict::FailAfter | Verdict::Tear(_) => {
                self.before_mutation(OpKind::Copy, p);
                self.0.inner.copy_opts(from, to, options).await?;
                Err(injected("unknown outcome", p))
            }
            Verdict::FailBefore => Err(injected("fail before", p)),
            Verdict::Crashed => Err(injected("power loss", p)),
        }
    }
    // rename_opts: the trait default (copy then delete) — two separate backend
    // steps, as on S3-class stores.
}

impl SimStore {
    fn list_impl(
        &self,
        prefix: Option<Path>,
        offset: Option<Path>,
    ) -> BoxStream<'static, Result<ObjectMeta>> {
        let this = self.clone();
        let page = self.0.list_page.load(Ordering::SeqCst) as usize;
        let pstr = prefix
            .as_ref()
            .map(|p| p.as_ref().to_string())
            .unwrap_or_default();
        if page == 0 {
            // snapshot at grant time
            stream::once(async move {
                let v = this.0.sim.ticket(OpKind::List, &pstr).await;
                let items: Vec<Result<ObjectMeta>> = match v {
                    Verdict::Proceed | Verdict::Tear(_) => {
                        let s = match &offset {
                            Some(o) => this.0.inner.list_with_offset(prefix.as_ref(), o),
                            None => this.0.inner.list(prefix.as_ref()),
                        };
                        let items = s.collect::<Vec<_>>().await;
                        this.response(&pstr).await;
                        items
                    }
                    Verdict::FailBefore | Verdict::FailAfter => {
                        vec![Err(injected("list failed", &pstr))]
                    }
                    Verdict::Crashed => vec![Err(injected("power loss", &pstr))],
                };
                stream::iter(items)
            })
            .flatten()
            .boxed()
        } else {
            // paged: each page re-reads the then-current disk after `last`
            struct PState {
                this: SimStore,
                prefix: Option<Path>,
                last: Option<Path>,
                pstr: String,
                page: usize,
                done: bool,
            }
            let st = PState {
                this,
                prefix,
                last: offset,
                pstr,
                page,
                done: false,
            };
            stream::unfold(st, |mut st| async move {
                if st.done {
                    return None;
                }
                let v = st.this.0.sim.ticket(OpKind::ListPage, &st.pstr).await;
                let items: Vec<Result<ObjectMeta>> = match v {
                    Verdict::Proceed | Verdict::Tear(_) => {
                        let s = match &st.last {
                            Some(o) => st.this.0.inner.list_with_offset(st.prefix.as_ref(), o),
                            None => st.this.0.inner.list(st.prefix.as_ref()),
                        };
                        let mut all: Vec<Result<ObjectMeta>> = s.collect::<Vec<_>>().await;
                        // InMemory returns sorted keys; keep the first page
                        all.sort_by(|a, b| match (a, b) {
                            (Ok(a), Ok(b)) => a.location.cmp(&b.location),
                            _ => std::cmp::Ordering::Equal,
                        });
                        if all.len() <= st.page {
                            st.done = true;
                        } else {
                            all.truncate(st.page);
                        }
                        if let Some(Ok(m)) = all.last() {
                            st.last = Some(m.location.clone());
                        }
                        all
                    }
                    Verdict::FailBefore | Verdict::FailAfter => {
                        st.done = true;
                        vec![Err(injected("list failed", &st.pstr))]
                    }
                    Verdict::Crashed => {
                        st.done = true;
                        vec![Err(injected("power loss", &st.pstr))]
                    }
                };
                Some((stream::iter(items), st))
            })
            .flatten()
            .boxed()
        }
    }
}
