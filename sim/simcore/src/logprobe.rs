//! Reach probes without hooks: the code under test logs with structured
//! `action=` keys; this logger counts records per (action, message stem) in a
//! thread-local map that the harness reads per run.

use log::kv::{Key, Value, VisitSource};
use std::cell::RefCell;
use std::collections::BTreeMap;

thread_local! {
    static COUNTS: RefCell<Option<BTreeMap<String, u64>>> = const { RefCell::new(None) };
}

struct Probe;

struct ActionVisitor(Option<String>);
impl<'kvs> VisitSource<'kvs> for ActionVisitor {
    fn visit_pair(&mut self, key: Key<'kvs>, value: Value<'kvs>) -> Result<(), log::kv::Error> {
        if key.as_str() == "action" {
            self.0 = Some(value.to_string());
        }
        Ok(())
    }
}

fn stem(msg: &str) -> String {
    let mut out = String::new();
    let mut words = 0;
    for w in msg.split_whitespace() {
        if w.chars().any(|c| c.is_ascii_digit()) || w.contains('{') || w.contains('"') {
            continue;
        }
        if words > 0 {
            out.push(' ');
        }
        out.push_str(w.trim_matches(|c: char| !c.is_alphanumeric()));
        words += 1;
        if words >= 4 {
            break;
        }
    }
    out
}

impl log::Log for Probe {
    fn enabled(&self, _m: &log::Metadata) -> bool {
        COUNTS
            .try_with(|c| c.try_borrow().map(|c| c.is_some()).unwrap_or(false))
            .unwrap_or(false)
    }
    fn log(&self, record: &log::Record) {
        let _ = COUNTS.try_with(|c| {
            let Ok(mut c) = c.try_borrow_mut() else { return };
            let Some(map) = c.as_mut() else { return };
            let mut v = ActionVisitor(None);
            let _ = record.key_values().visit(&mut v);
            let msg = format!("{}", record.args());
            let key = format!(
                "{}|{}|{}",
                record.level().as_str().to_ascii_lowercase(),
                v.0.unwrap_or_else(|| record.target().to_string()),
                stem(&msg)
            );
            *map.entry(key).or_insert(0) += 1;
        });
    }
    fn flush(&self) {}
}

static PROBE: Probe = Probe;

pub fn install_global() {
    let _ = log::set_logger(&PROBE);
    log::set_max_level(log::LevelFilter::Info);
}

/// Start counting on this thread.
pub fn begin() {
    COUNTS.with(|c| *c.borrow_mut() = Some(BTreeMap::new()));
}
/// Stop counting on this thread and return the counts.
pub fn end() -> BTreeMap<String, u64> {
    COUNTS.with(|c| c.borrow_mut().take()).unwrap_or_default()
}
/// Peek at a counter by substring match of the key.
pub fn count_matching(sub: &str) -> u64 {
    COUNTS.with(|c| {
        c.borrow()
            .as_ref()
            .map(|m| m.iter().filter(|(k, _)| k.contains(sub)).map(|(_, v)| *v).sum())
            .unwrap_or(0)
    })
}
