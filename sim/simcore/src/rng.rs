//! Seeded randomness: one integer decides everything.
//!
//! `Rng` is SplitMix64 (state = one u64). Independent labelled streams are
//! derived by hashing a label into the parent seed, so adding a draw to one
//! stream never shifts another.

#[derive(Clone, Debug)]
pub struct Rng(u64);

pub fn mix(mut z: u64) -> u64 {
    z = z.wrapping_add(0x9E37_79B9_7F4A_7C15);
    z = (z ^ (z >> 30)).wrapping_mul(0xBF58_476D_1CE4_E5B9);
    z = (z ^ (z >> 27)).wrapping_mul(0x94D0_49BB_1331_11EB);
    z ^ (z >> 31)
}

/// FNV-1a over bytes, folded through `mix`.
pub fn hash_bytes(seed: u64, data: &[u8]) -> u64 {
    let mut h: u64 = 0xcbf2_9ce4_8422_2325 ^ mix(seed);
    for b in data {
        h ^= *b as u64;
        h = h.wrapping_mul(0x0000_0100_0000_01B3);
    }
    mix(h)
}

pub fn derive(seed: u64, label: &str) -> u64 {
    hash_bytes(seed, label.as_bytes())
}

pub fn derive2(seed: u64, label: &str, n: u64) -> u64 {
    mix(derive(seed, label) ^ mix(n.wrapping_add(0x1234_5678_9abc_def1)))
}

impl Rng {
    pub fn new(seed: u64) -> Self {
        Rng(seed)
    }
    pub fn stream(seed: u64, label: &str) -> Self {
        Rng(derive(seed, label))
    }
    pub fn next_u64(&mut self) -> u64 {
        self.0 = self.0.wrapping_add(0x9E37_79B9_7F4A_7C15);
        let mut z = self.0;
        z = (z ^ (z >> 30)).wrapping_mul(0xBF58_476D_1CE4_E5B9);
        z = (z ^ (z >> 27)).wrapping_mul(0x94D0_49BB_1331_11EB);
        z ^ (z >> 31)
    }
    /// Uniform in `0..n` (n > 0).
    pub fn below(&mut self, n: u64) -> u64 {
        debug_assert!(n > 0);
        // multiply-shift; bias is irrelevant at these sizes
        ((self.next_u64() as u128 * n as u128) >> 64) as u64
    }
    pub fn range(&mut self, lo: u64, hi_incl: u64) -> u64 {
        lo + self.below(hi_incl - lo + 1)
    }
    pub fn usize(&mut self, n: usize) -> usize {
        self.below(n as u64) as usize
    }
    pub fn chance(&mut self, num: u64, den: u64) -> bool {
        self.below(den) < num
    }
    pub fn bool(&mut self) -> bool {
        self.next_u64() & 1 == 1
    }
    pub fn pick<'a, T>(&mut self, xs: &'a [T]) -> &'a T {
        &xs[self.usize(xs.len())]
    }
    pub fn f32(&mut self) -> f32 {
        (self.next_u64() >> 40) as f32 / (1u64 << 24) as f32
    }
    pub fn fill(&mut self, buf: &mut [u8]) {
        for chunk in buf.chunks_mut(8) {
            let v = self.next_u64().to_le_bytes();
            chunk.copy_from_slice(&v[..chunk.len()]);
        }
    }
    pub fn shuffle<T>(&mut self, xs: &mut [T]) {
        for i in (1..xs.len()).rev() {
            let j = self.usize(i + 1);
            xs.swap(i, j);
        }
    }
    /// Weighted index choice.
    pub fn weighted(&mut self, weights: &[u32]) -> usize {
        let total: u64 = weights.iter().map(|w| *w as u64).sum();
        let mut x = self.below(total.max(1));
        for (i, w) in weights.iter().enumerate() {
            if x < *w as u64 {
                return i;
            }
            x -= *w as u64;
        }
        weights.len() - 1
    }
}

/// Incremental order-sensitive signature hash (for schedule / state signatures).
#[derive(Clone, Debug)]
pub struct Sig(pub u64);
impl Default for Sig {
    fn default() -> Self {
        Sig(0x5151_5151_5151_5151)
    }
}
impl Sig {
    pub fn add(&mut self, v: u64) {
        self.0 = mix(self.0 ^ mix(v));
    }
    pub fn add_bytes(&mut self, b: &[u8]) {
        self.0 = hash_bytes(self.0, b);
    }
    pub fn add_str(&mut self, s: &str) {
        self.add_bytes(s.as_bytes())
    }
}
