//! Clock and entropy seams at the libc boundary.
//!
//! The harness *binary* must invoke [`install_libc_seams!`] once at crate
//! root (and have a build.rs that exports `getrandom` dynamically). The two
//! exported C functions then route through the thread-local state here:
//!
//! * `clock_gettime(CLOCK_REALTIME)` on a thread with an installed simulated
//!   clock returns simulated time; everything else is the real syscall.
//! * `getrandom` on a thread with an installed entropy stream returns bytes
//!   from that stream (SplitMix64 from the run seed); otherwise the real
//!   syscall.
//!
//! Every simulated run executes on a fresh OS thread, so thread-local
//! `RandomState` keys and `ThreadRng` instances start from the run's seed.

use std::cell::{Cell, RefCell};
use std::sync::Arc;
use std::sync::atomic::{AtomicI64, AtomicU64, Ordering};

use crate::rng::Rng;

/// A shareable simulated wall clock (milliseconds since the Unix epoch).
#[derive(Clone, Debug)]
pub struct SimClock(Arc<AtomicI64>);

pub const EPOCH_MS: i64 = 1_700_000_000_000; // 2023-11-14T22:13:20Z

impl SimClock {
    pub fn new(start_ms: i64) -> Self {
        SimClock(Arc::new(AtomicI64::new(start_ms)))
    }
    pub fn now_ms(&self) -> i64 {
        self.0.load(Ordering::SeqCst)
    }
    pub fn set_ms(&self, ms: i64) {
        self.0.store(ms, Ordering::SeqCst)
    }
    pub fn advance(&self, delta_ms: i64) -> i64 {
        self.0.fetch_add(delta_ms, Ordering::SeqCst) + delta_ms
    }
}

thread_local! {
    static CLOCK: RefCell<Option<SimClock>> = const { RefCell::new(None) };
    static ENTROPY: RefCell<Option<Rng>> = const { RefCell::new(None) };
    static ENTROPY_BYTES: Cell<u64> = const { Cell::new(0) };
    static CLOCK_READS: Cell<u64> = const { Cell::new(0) };
}

static TOTAL_ENTROPY_CALLS: AtomicU64 = AtomicU64::new(0);

pub fn install_clock(clock: SimClock) {
    CLOCK.with(|c| *c.borrow_mut() = Some(clock));
}
pub fn uninstall_clock() {
    CLOCK.with(|c| *c.borrow_mut() = None);
}
pub fn install_entropy(seed: u64) {
    ENTROPY.with(|e| *e.borrow_mut() = Some(Rng::new(seed)));
}
pub fn uninstall_entropy() {
    ENTROPY.with(|e| *e.borrow_mut() = None);
}
pub fn current_clock() -> Option<SimClock> {
    CLOCK.with(|c| c.borrow().clone())
}
pub fn entropy_bytes_served() -> u64 {
    ENTROPY_BYTES.with(|c| c.get())
}
pub fn clock_reads_served() -> u64 {
    CLOCK_READS.with(|c| c.get())
}
pub fn total_entropy_calls() -> u64 {
    TOTAL_ENTROPY_CALLS.load(Ordering::Relaxed)
}

/// Called from the exported `getrandom`. Returns `true` if it filled `buf`.
#[doc(hidden)]
pub fn seam_getrandom(buf: &mut [u8]) -> bool {
    // try_with: may be called during thread teardown
    ENTROPY
        .try_with(|e| {
            let Ok(mut e) = e.try_borrow_mut() else {
                return false;
            };
            match e.as_mut() {
                Some(rng) => {
                    rng.fill(buf);
                    let _ = ENTROPY_BYTES.try_with(|c| c.set(c.get() + buf.len() as u64));
                    TOTAL_ENTROPY_CALLS.fetch_add(1, Ordering::Relaxed);
                    true
                }
                None => false,
            }
        })
        .unwrap_or(false)
}

/// Called from the exported `clock_gettime` for CLOCK_REALTIME.
#[doc(hidden)]
pub fn seam_realtime_ms() -> Option<i64> {
    CLOCK
        .try_with(|c| {
            let Ok(c) = c.try_borrow() else {
                return None;
            };
            c.as_ref().map(|c| {
                let _ = CLOCK_READS.try_with(|n| n.set(n.get() + 1));
                c.now_ms()
            })
        })
        .unwrap_or(None)
}

/// Defines the two libc overrides in the invoking (binary) crate.
#[macro_export]
macro_rules! install_libc_seams {
    () => {
        #[unsafe(no_mangle)]
        pub unsafe extern "C" fn getrandom(
            buf: *mut ::libc::c_void,
            buflen: ::libc::size_t,
            flags: ::libc::c_uint,
        ) -> ::libc::ssize_t {
            if buflen > 0 && !buf.is_null() {
                let slice = unsafe { ::std::slice::from_raw_parts_mut(buf as *mut u8, buflen) };
                if $crate::seams::seam_getrandom(slice) {
                    return buflen as ::libc::ssize_t;
                }
            }
            unsafe { ::libc::syscall(::libc::SYS_getrandom, buf, buflen, flags) as ::libc::ssize_t }
        }

        #[unsafe(no_mangle)]
        pub unsafe extern "C" fn clock_gettime(
            clk: ::libc::clockid_t,
            ts: *mut ::libc::timespec,
        ) -> ::libc::c_int {
            if clk == ::libc::CLOCK_REALTIME && !ts.is_null() {
                if let Some(ms) = $crate::seams::seam_realtime_ms() {
                    unsafe {
                        (*ts).tv_sec = (ms.div_euclid(1000)) as ::libc::time_t;
                        (*ts).tv_nsec = (ms.rem_euclid(1000) * 1_000_000) as _;
                    }
                    return 0;
                }
            }
            unsafe { ::libc::syscall(::libc::SYS_clock_gettime, clk, ts) as ::libc::c_int }
        }
    };
}
