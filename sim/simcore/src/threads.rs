//! Baton scheduler for synchronous code under test (index crates).
//!
//! Each simulated task is a real OS thread, but exactly ONE runs at a time:
//! a thread runs until it reaches a yield point (`verif_point!` in the code
//! under test, or the start/end of its body), where the seeded chooser picks
//! who continues. Real threads parked and released one at a time replay; what
//! is never real is the choice of who runs.

use std::cell::RefCell;
use std::collections::BTreeMap;
use std::sync::{Arc, Condvar, Mutex};

use crate::rng::{Rng, Sig};

#[derive(Clone, Debug)]
pub enum ThreadSchedule {
    Uniform(u64),
    /// PCT-like: random priorities, `depth` change points over ~`horizon` steps
    Pct(u64, u32, u64),
    /// run the current thread on; switch with probability 1/`n` per point
    Sticky(u64, u32),
    Explicit(Vec<u32>),
}

struct TS {
    n: usize,
    running: Option<usize>,
    /// per thread: None = not started/finished; Some(tag) = parked at a point
    parked: Vec<Option<&'static str>>,
    finished: Vec<bool>,
    started: usize,
    rng: Rng,
    mode: ThreadSchedule,
    prio: Vec<u64>,
    change_points: Vec<u64>,
    low: u64,
    explicit_pos: usize,
    step: u64,
    step_cap: u64,
    pub decisions: Vec<u32>,
    sig: Sig,
    trace: Vec<(usize, &'static str)>,
    deadlock: bool,
    all_waiting_rounds: u32,
    panicked: Option<String>,
}

#[derive(Clone)]
pub struct ThreadSim(Arc<(Mutex<TS>, Condvar)>);

thread_local! {
    static CURRENT: RefCell<Option<(ThreadSim, usize)>> = const { RefCell::new(None) };
}

#[derive(Debug, Clone, PartialEq)]
pub enum ThreadOutcome {
    Done,
    Deadlock,
    StepCap,
    Panic(String),
}

pub struct ThreadRunResult {
    pub outcome: ThreadOutcome,
    pub steps: u64,
    pub signature: u64,
    pub decisions: Vec<u32>,
    pub trace: Vec<(usize, &'static str)>,
    pub switches: u64,
}

/// The hook installed into `anda_db_utils::verif::set_hook`.
pub fn yield_hook(tag: &'static str) {
    let cur = CURRENT.with(|c| c.borrow().clone());
    if let Some((sim, id)) = cur {
        sim.yield_point(id, tag);
    }
}

/// A yield point callable from harness code running inside a task.
pub fn point(tag: &'static str) {
    yield_hook(tag)
}

impl ThreadSim {
    fn choose_next(ts: &mut TS, current: Option<usize>) -> Option<usize> {
        // candidates: parked, unfinished threads
        let cands: Vec<usize> = (0..ts.n).filter(|i| !ts.finished[*i] && ts.parked[*i].is_some()).collect();
        if cands.is_empty() {
            return None;
        }
        // prefer threads not spinning on a gate
        let active: Vec<usize> = cands.iter().copied().filter(|i| ts.parked[*i] != Some("gate-wait")).collect();
        let pool = if active.is_empty() {
            ts.all_waiting_rounds += 1;
            if ts.all_waiting_rounds > 2000 {
                ts.deadlock = true;
                return None;
            }
            cands.clone()
        } else {
            ts.all_waiting_rounds = 0;
            active
        };
        let idx = if pool.len() == 1 {
            0
        } else {
            let c = match &ts.mode {
                ThreadSchedule::Uniform(_) => ts.rng.usize(pool.len()),
                ThreadSchedule::Sticky(_, n) => {
                    let stay = current.and_then(|c| pool.iter().position(|p| *p == c));
                    match stay {
                        Some(i) if ts.rng.below(*n as u64) != 0 => i,
                        _ => ts.rng.usize(pool.len()),
                    }
                }
                ThreadSchedule::Pct(..) => {
                    while let Some(cp) = ts.change_points.first().copied() {
                        if cp <= ts.step {
                            ts.change_points.remove(0);
                            ts.low += 1;
                            if let Some(c) = current {
                                ts.prio[c] = 1000 - ts.low.min(999);
                            }
                        } else {
                            break;
                        }
                    }
                    let mut best = 0;
                    for i in 1..pool.len() {
                        if ts.prio[pool[i]] > ts.prio[pool[best]] {
                            best = i;
                        }
                    }
                    best
                }
                ThreadSchedule::Explicit(v) => {
                    let c = if ts.explicit_pos < v.len() { v[ts.explicit_pos] as usize % pool.len() } else { 0 };
                    ts.explicit_pos += 1;
                    c
                }
            };
            ts.decisions.push(c as u32);
            c
        };
        Some(pool[idx])
    }

    fn yield_point(&self, id: usize, tag: &'static str) {
        let (m, cv) = &*self.0;
        let mut ts = m.lock().unwrap_or_else(|e| e.into_inner());
        if ts.deadlock || ts.panicked.is_some() {
            return; // tearing down: let everyone run free to completion
        }
        ts.step += 1;
        if ts.step > ts.step_cap {
            ts.deadlock = true;
            cv.notify_all();
            return;
        }
        ts.sig.add(id as u64);
        ts.sig.add_str(tag);
        if ts.trace.len() < 3000 {
            ts.trace.push((id, tag));
        }
        ts.parked[id] = Some(tag);
        let next = Self::choose_next(&mut ts, Some(id));
        match next {
            Some(n) if n == id => {
                ts.parked[id] = None;
            }
            Some(n) => {
                ts.running = Some(n);
                cv.notify_all();
                while ts.running != Some(id) && !ts.deadlock && ts.panicked.is_none() {
                    ts = cv.wait(ts).unwrap_or_else(|e| e.into_inner());
                }
                ts.parked[id] = None;
            }
            None => {
                // deadlock: release everyone
                cv.notify_all();
                ts.parked[id] = None;
            }
        }
    }

    /// Runs `bodies` as simulated threads to completion.
    pub fn run(mode: ThreadSchedule, entropy_seed: u64, clock: Option<crate::seams::SimClock>, bodies: Vec<Box<dyn FnOnce() + Send>>) -> ThreadRunResult {
        let n = bodies.len();
        let seed = match &mode {
            ThreadSchedule::Uniform(s) | ThreadSchedule::Pct(s, _, _) | ThreadSchedule::Sticky(s, _) => *s,
            ThreadSchedule::Explicit(_) => 0,
        };
        let mut rng = Rng::stream(seed, "threads");
        let prio: Vec<u64> = (0..n).map(|_| 1000 + rng.below(1_000_000)).collect();
        let change_points = match &mode {
            ThreadSchedule::Pct(_, d, h) => {
                let mut v: Vec<u64> = (0..*d).map(|_| rng.below((*h).max(1))).collect();
                v.sort();
                v
            }
            _ => vec![],
        };
        let sim = ThreadSim(Arc::new((
            Mutex::new(TS {
                n,
                running: None,
                parked: vec![None; n],
                finished: vec![false; n],
                started: 0,
                rng,
                mode,
                prio,
                change_points,
                low: 0,
                explicit_pos: 0,
                step: 0,
                step_cap: 200_000,
                decisions: vec![],
                sig: Sig::default(),
                trace: vec![],
                deadlock: false,
                all_waiting_rounds: 0,
                panicked: None,
            }),
            Condvar::new(),
        )));
        let mut handles = Vec::new();
        for (id, body) in bodies.into_iter().enumerate() {
            let sim2 = sim.clone();
            let clock = clock.clone();
            let h = std::thread::Builder::new()
                .stack_size(8 << 20)
                .spawn(move || {
                    crate::seams::install_entropy(crate::rng::derive2(entropy_seed, "thread", id as u64));
                    if let Some(c) = clock {
                        crate::seams::install_clock(c);
                    }
                    CURRENT.with(|c| *c.borrow_mut() = Some((sim2.clone(), id)));
                    // park at "start" until chosen
                    {
                        let (m, cv) = &*sim2.0;
                        let mut ts = m.lock().unwrap_or_else(|e| e.into_inner());
                        ts.parked[id] = Some("start");
                        ts.started += 1;
                        cv.notify_all();
                        while ts.running != Some(id) && !ts.deadlock && ts.panicked.is_none() {
                            ts = cv.wait(ts).unwrap_or_else(|e| e.into_inner());
                        }
                        ts.parked[id] = None;
                    }
                    let r = std::panic::catch_unwind(std::panic::AssertUnwindSafe(body));
                    // finish: hand the baton on
                    let (m, cv) = &*sim2.0;
                    let mut ts = m.lock().unwrap_or_else(|e| e.into_inner());
                    ts.finished[id] = true;
                    if let Err(p) = r {
                        let msg = p.downcast_ref::<&str>().map(|s| s.to_string()).or_else(|| p.downcast_ref::<String>().cloned()).unwrap_or_else(|| "<panic>".into());
                        ts.panicked = Some(msg);
                    }
                    let next = Self::choose_next(&mut ts, None);
                    ts.running = next;
                    cv.notify_all();
                    CURRENT.with(|c| *c.borrow_mut() = None);
                    crate::seams::uninstall_entropy();
                    crate::seams::uninstall_clock();
                })
                .expect("spawn sim thread");
            handles.push(h);
        }
        // wait until all are parked at start, then pick the first
        {
            let (m, cv) = &*sim.0;
            let mut ts = m.lock().unwrap_or_else(|e| e.into_inner());
            while ts.started < n {
                ts = cv.wait(ts).unwrap_or_else(|e| e.into_inner());
            }
            let first = Self::choose_next(&mut ts, None);
            ts.running = first;
            cv.notify_all();
        }
        for h in handles {
            let _ = h.join();
        }
        let (m, _) = &*sim.0;
        let ts = m.lock().unwrap_or_else(|e| e.into_inner());
        let outcome = if let Some(p) = &ts.panicked {
            ThreadOutcome::Panic(p.clone())
        } else if ts.step > ts.step_cap {
            ThreadOutcome::StepCap
        } else if ts.deadlock {
            ThreadOutcome::Deadlock
        } else {
            ThreadOutcome::Done
        };
        let mut switches = 0u64;
        for w in ts.trace.windows(2) {
            if w[0].0 != w[1].0 {
                switches += 1;
            }
        }
        ThreadRunResult { outcome, steps: ts.step, signature: ts.sig.0, decisions: ts.decisions.clone(), trace: ts.trace.clone(), switches }
    }
}

/// Per-tag counts of a trace (reach accounting).
pub fn tag_counts(trace: &[(usize, &'static str)]) -> BTreeMap<&'static str, u64> {
    let mut m = BTreeMap::new();
    for (_, t) in trace {
        *m.entry(*t).or_insert(0) += 1;
    }
    m
}
