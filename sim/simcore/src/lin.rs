//! Wing–Gong linearizability search with memoisation.
//!
//! Events are stamped with the simulator's global event sequence number.
//! The model may be nondeterministic (`step` returns every legal successor),
//! which is how documented latitude is expressed. Operations still pending at
//! the end of the history (in flight at a crash/cancel) may linearize or not.

use std::collections::HashSet;
use std::hash::{Hash, Hasher};

#[derive(Clone, Debug)]
pub struct Event<O, R> {
    pub client: usize,
    pub invoke: u64,
    /// `None`: never returned (in flight at the end).
    pub ret: Option<u64>,
    pub op: O,
    pub res: Option<R>,
}

pub trait Model {
    type State: Clone + Hash + Eq;
    type Op;
    type Res;
    /// All states reachable by applying `op` in `state` such that the
    /// observed result `res` is legal (`None` = result unknown/any).
    fn step(&self, state: &Self::State, op: &Self::Op, res: Option<&Self::Res>) -> Vec<Self::State>;
}

fn hash_of<T: Hash>(t: &T) -> u64 {
    let mut h = std::collections::hash_map::DefaultHasher::new();
    t.hash(&mut h);
    h.finish()
}

pub struct LinResult<S> {
    pub ok: bool,
    /// A witness order (indexes into the history) when ok.
    pub order: Vec<usize>,
    pub final_states: Vec<S>,
    pub explored: u64,
}

/// Checks the history; returns a witness linearization and the possible final
/// states (all final states over all linearizations when `all_finals`).
pub fn check<M: Model>(
    model: &M,
    init: M::State,
    hist: &[Event<M::Op, M::Res>],
    all_finals: bool,
) -> LinResult<M::State> {
    assert!(hist.len() <= 64, "history too long for the checker");
    let n = hist.len();
    let must: u64 = hist
        .iter()
        .enumerate()
        .filter(|(_, e)| e.ret.is_some())
        .fold(0u64, |m, (i, _)| m | (1 << i));
    let mut memo: HashSet<(u64, u64)> = HashSet::new();
    let mut finals: Vec<M::State> = Vec::new();
    let mut final_hashes: HashSet<u64> = HashSet::new();
    let mut witness: Vec<usize> = Vec::new();
    let mut explored = 0u64;

    // iterative DFS
    struct Frame<S> {
        done: u64,
        state: S,
        order: Vec<usize>,
    }
    let mut stack = vec![Frame {
        done: 0u64,
        state: init,
        order: vec![],
    }];
    let mut found = false;
    while let Some(f) = stack.pop() {
        explored += 1;
        if explored > 2_000_000 {
            break;
        }
        if f.done & must == must {
            // all completed ops linearized; pending ones may be dropped here
            let h = hash_of(&f.state);
            if final_hashes.insert(h) {
                finals.push(f.state.clone());
            }
            if !found {
                found = true;
                witness = f.order.clone();
            }
            if !all_finals {
                break;
            }
            // continue exploring: pending ops may also be linearized after
        }
        // earliest return among not-yet-linearized completed ops
        let mut min_ret = u64::MAX;
        for i in 0..n {
            if f.done & (1 << i) == 0 {
                if let Some(r) = hist[i].ret {
                    min_ret = min_ret.min(r);
                }
            }
        }
        for i in 0..n {
            if f.done & (1 << i) != 0 {
                continue;
            }
            if hist[i].invoke > min_ret {
                continue; // some other op returned before this one was invoked
            }
            let res = if hist[i].ret.is_some() {
                hist[i].res.as_ref()
            } else {
                None
            };
            for s2 in model.step(&f.state, &hist[i].op, res) {
                let done2 = f.done | (1 << i);
                let key = (done2, hash_of(&s2));
                if memo.insert(key) {
                    let mut o = f.order.clone();
                    o.push(i);
                    stack.push(Frame {
                        done: done2,
                        state: s2,
                        order: o,
                    });
                }
            }
        }
    }
    LinResult {
        ok: found,
        order: witness,
        final_states: finals,
        explored,
    }
}
