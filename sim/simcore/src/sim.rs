//! The deterministic scheduler for async code under test.
//!
//! Client futures ("tasks") run on ONE thread, driven by [`Sim::run`]; no
//! tokio runtime exists. Every backend call made through a `SimStore` first
//! awaits a [`Ticket`]: the first poll parks the call (registers a pending
//! operation and returns `Pending`), and the driver later *grants* exactly one
//! parked call per step, chosen by the seeded [`Schedule`]. The grant also
//! decides the call's fate from the fault plan (proceed / fail before / fail
//! after applying = unknown outcome / torn write / power loss).
//!
//! A run is a pure function of (code, SimConfig): every decision comes from
//! the chooser, every decision is recorded, and a recorded decision list can
//! be replayed with `Schedule::Explicit`.

use serde::{Deserialize, Serialize};
use std::collections::BTreeMap;
use std::future::Future;
use std::pin::Pin;
use std::sync::atomic::{AtomicBool, Ordering};
use std::sync::{Arc, Mutex, MutexGuard};
use std::task::{Context, Poll, Wake, Waker};

use crate::rng::{Rng, Sig};
use crate::seams::SimClock;

pub type TaskId = usize;
pub const NO_TASK: TaskId = usize::MAX;

#[derive(Clone, Copy, Debug, PartialEq, Eq, Hash, PartialOrd, Ord, Serialize, Deserialize)]
pub enum OpKind {
    Put,
    Get,
    Head,
    Delete,
    List,
    ListPage,
    ListDelim,
    Copy,
    Rename,
    MpCreate,
    MpPart,
    MpComplete,
    MpAbort,
    Yield,
}

impl OpKind {
    pub fn is_mutation(self) -> bool {
        matches!(
            self,
            OpKind::Put | OpKind::Delete | OpKind::Copy | OpKind::Rename | OpKind::MpComplete
        )
    }
    pub fn short(self) -> &'static str {
        match self {
            OpKind::Put => "put",
            OpKind::Get => "get",
            OpKind::Head => "head",
            OpKind::Delete => "del",
            OpKind::List => "list",
            OpKind::ListPage => "page",
            OpKind::ListDelim => "lsd",
            OpKind::Copy => "copy",
            OpKind::Rename => "ren",
            OpKind::MpCreate => "mpc",
            OpKind::MpPart => "mpp",
            OpKind::MpComplete => "mpf",
            OpKind::MpAbort => "mpa",
            OpKind::Yield => "yield",
        }
    }
}

#[derive(Clone, Debug, PartialEq, Eq, Serialize, Deserialize)]
pub enum FaultKind {
    /// Error returned, nothing written.
    FailBefore,
    /// Unknown outcome: the call is applied, then an error is returned.
    FailAfter,
    /// A prefix (per-mille of the payload) lands, then an error is returned.
    Tear(u32),
    /// Power loss: nothing is applied, the run stops, only the disk survives.
    Crash,
}

#[derive(Clone, Debug, PartialEq, Eq, Serialize, Deserialize)]
pub enum Site {
    /// n-th granted backend call (0-based, grant order).
    Call(u64),
    /// n-th granted *mutating* backend call (0-based, grant order).
    Mutation(u64),
    /// n-th granted mutating backend call whose path ends with `suffix`
    /// (0-based): aims a fault at one kind of object instead of a position.
    MutationOf { suffix: String, nth: u64 },
}

#[derive(Clone, Debug, PartialEq, Eq, Serialize, Deserialize)]
pub struct FaultSpec {
    pub site: Site,
    pub kind: FaultKind,
}

#[derive(Clone, Copy, Debug, PartialEq, Eq)]
pub enum Verdict {
    Proceed,
    FailBefore,
    FailAfter,
    Tear(u32),
    Crashed,
}

#[derive(Clone, Debug, PartialEq, Eq, Serialize, Deserialize)]
pub enum Policy {
    /// Uniform choice among enabled actions.
    Uniform,
    /// Keep granting the same task's calls with probability `stick`/16.
    Sticky(u32),
    /// PCT-like: random task priorities, `depth` priority change points.
    Pct(u32),
    /// Never grant task `t` while any other task has an enabled call.
    Starve(usize),
}

#[derive(Clone, Debug, PartialEq, Eq, Serialize, Deserialize)]
pub enum Schedule {
    Seeded { seed: u64, policy: Policy },
    /// Replay: the recorded choice at each decision point (index into the
    /// canonical enabled list, taken modulo its length); `0` once exhausted.
    Explicit(Vec<u32>),
}

#[derive(Clone, Debug, PartialEq, Eq, Serialize, Deserialize)]
pub enum ClockMode {
    /// Time never advances (every commit in one millisecond).
    Frozen,
    /// Advance by `0..=max` ms at every granted call.
    Tick(u32),
    /// Mostly small ticks, occasional forward/backward jumps of up to `max` ms.
    Jumpy(u32),
}

#[derive(Clone, Debug, Serialize, Deserialize)]
pub struct SimConfig {
    pub schedule: Schedule,
    pub clock: ClockMode,
    pub clock_seed: u64,
    pub start_ms: i64,
    /// Park every backend call (scheduling + suspension point). When false a
    /// ticket resolves immediately (single-task runs; fault plan still applies).
    pub park: bool,
    pub faults: Vec<FaultSpec>,
    pub step_cap: u64,
    pub record_trace: bool,
}

impl SimConfig {
    pub fn simple(seed: u64) -> Self {
        SimConfig {
            schedule: Schedule::Seeded {
                seed,
                policy: Policy::Uniform,
            },
            clock: ClockMode::Tick(2),
            clock_seed: seed ^ 0xC10C,
            start_ms: crate::seams::EPOCH_MS,
            park: true,
            faults: vec![],
            step_cap: 200_000,
            record_trace: true,
        }
    }
}

#[derive(Clone, Debug, Serialize)]
pub struct TraceEv {
    /// global event sequence number at the grant (same counter as `Sim::tick`)
    pub seq: u64,
    pub step: u64,
    pub task: usize,
    pub kind: OpKind,
    pub path: String,
    pub verdict: &'static str,
}

#[derive(Clone, Debug)]
pub struct MutRec {
    pub seq: u64,
    pub task: TaskId,
    pub kind: OpKind,
    pub path: String,
    pub applied: bool,
}

struct PendingOp {
    id: u64,
    task: TaskId,
    kind: OpKind,
    path: String,
    verdict: Option<Verdict>,
    waker: Waker,
}

enum Chooser {
    Uniform(Rng),
    Sticky(Rng, u32, TaskId),
    Pct {
        rng: Rng,
        prio: BTreeMap<TaskId, u64>,
        change_points: Vec<u64>,
        low: u64,
    },
    Starve(Rng, TaskId),
    Explicit(Vec<u32>, usize),
}

pub struct St {
    chooser: Chooser,
    clock: SimClock,
    clock_mode: ClockMode,
    clock_rng: Rng,
    park: bool,
    cur_task: TaskId,
    pending: Vec<PendingOp>,
    next_op_id: u64,
    pub calls: u64,
    pub mutations: u64,
    suffix_hits: std::collections::BTreeMap<String, u64>,
    pub step: u64,
    step_cap: u64,
    pub crashed: bool,
    faults: Vec<FaultSpec>,
    pub fired: BTreeMap<&'static str, u64>,
    pub decisions: Vec<u32>,
    pub trace: Vec<TraceEv>,
    record_trace: bool,
    pub sig: Sig,
    /// Like `sig` but over full paths (generation names, salts): the
    /// determinism self-test compares this one.
    pub sig_full: Sig,
    pub event_seq: u64,
    pub mut_log: Vec<MutRec>,
    pub overlap_seen: bool,
    pub max_pending: usize,
    pub sim_ms_covered: i64,
}

#[derive(Clone)]
pub struct Sim(Arc<Mutex<St>>);

#[derive(Debug, Clone, PartialEq, Eq)]
pub enum Outcome {
    Done,
    Crashed,
    Deadlock(Vec<TaskId>),
    StepCap,
}

struct TaskWaker {
    woken: AtomicBool,
}
impl Wake for TaskWaker {
    fn wake(self: Arc<Self>) {
        self.woken.store(true, Ordering::SeqCst);
    }
    fn wake_by_ref(self: &Arc<Self>) {
        self.woken.store(true, Ordering::SeqCst);
    }
}

pub type LocalTask<'a> = Pin<Box<dyn Future<Output = ()> + 'a>>;

impl Sim {
    pub fn new(cfg: &SimConfig) -> Self {
        let chooser = match &cfg.schedule {
            Schedule::Explicit(v) => Chooser::Explicit(v.clone(), 0),
            Schedule::Seeded { seed, policy } => {
                let mut rng = Rng::stream(*seed, "schedule");
                match policy {
                    Policy::Uniform => Chooser::Uniform(rng),
                    Policy::Sticky(p) => Chooser::Sticky(rng, *p, NO_TASK),
                    Policy::Starve(t) => Chooser::Starve(rng, *t),
                    Policy::Pct(depth) => {
                        let mut cps: Vec<u64> = (0..*depth).map(|_| rng.below(80)).collect();
                        cps.sort();
                        Chooser::Pct {
                            rng,
                            prio: BTreeMap::new(),
                            change_points: cps,
                            low: 0,
                        }
                    }
                }
            }
        };
        let clock = SimClock::new(cfg.start_ms);
        Sim(Arc::new(Mutex::new(St {
            chooser,
            clock,
            clock_mode: cfg.clock.clone(),
            clock_rng: Rng::stream(cfg.clock_seed, "clock"),
            park: cfg.park,
            cur_task: NO_TASK,
            pending: Vec::new(),
            next_op_id: 0,
            calls: 0,
            mutations: 0,
            suffix_hits: Default::default(),
            step: 0,
            step_cap: cfg.step_cap,
            crashed: false,
            faults: cfg.faults.clone(),
            fired: BTreeMap::new(),
            decisions: Vec::new(),
            trace: Vec::new(),
            record_trace: cfg.record_trace,
            sig: Sig::default(),
            sig_full: Sig::default(),
            event_seq: 0,
            mut_log: Vec::new(),
            overlap_seen: false,
            max_pending: 0,
            sim_ms_covered: 0,
        })))
    }

    pub fn lock(&self) -> MutexGuard<'_, St> {
        self.0.lock().unwrap_or_else(|e| e.into_inner())
    }

    pub fn clock(&self) -> SimClock {
        self.lock().clock.clone()
    }

    /// Installs this sim's clock on the current thread (libc seam).
    pub fn install_clock_here(&self) {
        crate::seams::install_clock(self.clock());
    }

    pub fn parking(&self) -> bool {
        self.lock().park
    }
    pub fn set_park(&self, park: bool) {
        self.lock().park = park;
    }
    pub fn set_faults(&self, faults: Vec<FaultSpec>) {
        self.lock().faults = faults;
    }
    pub fn take_faults(&self) -> Vec<FaultSpec> {
        std::mem::take(&mut self.lock().faults)
    }
    pub fn clear_faults(&self) {
        self.lock().faults.clear();
    }
    pub fn set_clock_mode(&self, m: ClockMode) {
        self.lock().clock_mode = m;
    }
    pub fn calls(&self) -> u64 {
        self.lock().calls
    }
    pub fn mutations(&self) -> u64 {
        self.lock().mutations
    }
    pub fn crashed(&self) -> bool {
        self.lock().crashed
    }
    pub fn reset_crashed(&self) {
        let mut st = self.lock();
        st.crashed = false;
        st.pending.clear();
    }
    /// Global event sequence number (for invoke/return stamps).
    pub fn tick(&self) -> u64 {
        let mut st = self.lock();
        st.event_seq += 1;
        st.event_seq
    }
    pub fn cur_task(&self) -> TaskId {
        self.lock().cur_task
    }
    /// Number of parked backend calls not yet granted.
    pub fn pending_count(&self) -> usize {
        self.lock().pending.iter().filter(|p| p.verdict.is_none()).count()
    }
    pub fn mut_log_len(&self) -> usize {
        self.lock().mut_log.len()
    }
    pub fn mut_log_since(&self, mark: usize) -> Vec<MutRec> {
        self.lock().mut_log[mark..].to_vec()
    }
    pub fn fired(&self) -> BTreeMap<&'static str, u64> {
        self.lock().fired.clone()
    }
    pub fn decisions(&self) -> Vec<u32> {
        self.lock().decisions.clone()
    }
    pub fn trace(&self) -> Vec<TraceEv> {
        self.lock().trace.clone()
    }
    pub fn signature(&self) -> u64 {
        self.lock().sig.0
    }
    pub fn full_signature(&self) -> u64 {
        self.lock().sig_full.0
    }
    pub fn note_fired(&self, what: &'static str) {
        *self.lock().fired.entry(what).or_insert(0) += 1;
    }

    pub fn ticket(&self, kind: OpKind, path: &str) -> Ticket {
        Ticket {
            sim: self.clone(),
            id: None,
            kind,
            path: path.to_string(),
            done: false,
        }
    }

    /// A pure scheduling point (no backend effect).
    pub async fn yield_now(&self) {
        let _ = self.ticket(OpKind::Yield, "").await;
    }

    /// Decide the fate of a granted call; advances counters and the clock.
    fn decide(st: &mut St, task: TaskId, kind: OpKind, path: &str) -> Verdict {
        // clock
        let delta: i64 = match st.clock_mode {
            ClockMode::Frozen => 0,
            ClockMode::Tick(max) => st.clock_rng.below(max as u64 + 1) as i64,
            ClockMode::Jumpy(max) => {
                if st.clock_rng.chance(1, 12) {
                    let mag = st.clock_rng.below(max as u64 + 1) as i64;
                    if st.clock_rng.bool() { mag } else { -mag }
                } else {
                    st.clock_rng.below(3) as i64
                }
            }
        };
        if delta != 0 {
            st.clock.advance(delta);
            st.sim_ms_covered += delta.abs();
            if delta < 0 {
                *st.fired.entry("clock_backward_jump").or_insert(0) += 1;
            } else if delta > 50 {
                *st.fired.entry("clock_forward_jump").or_insert(0) += 1;
            }
        } else {
            *st.fired.entry("clock_stall").or_insert(0) += 1;
        }

        let call_idx = st.calls;
        let mut_idx = st.mutations;
        if kind != OpKind::Yield {
            st.calls += 1;
            if kind.is_mutation() {
                st.mutations += 1;
            }
        }
        let mut verdict = Verdict::Proceed;
        if kind != OpKind::Yield {
            let mut hit: Option<usize> = None;
            for (i, f) in st.faults.iter().enumerate() {
                let m = match &f.site {
                    Site::Call(n) => *n == call_idx,
                    Site::Mutation(n) => kind.is_mutation() && *n == mut_idx,
                    Site::MutationOf { suffix, nth } => {
                        if kind.is_mutation() && path.ends_with(suffix.as_str()) {
                            let seen = st.suffix_hits.entry(suffix.clone()).or_insert(0);
                            *seen += 1;
                            *seen - 1 == *nth
                        } else {
                            false
                        }
                    }
                };
                if m {
                    hit = Some(i);
                    break;
                }
            }
            if let Some(i) = hit {
                let f = st.faults.remove(i);
                verdict = match f.kind {
                    FaultKind::FailBefore => Verdict::FailBefore,
                    FaultKind::FailAfter => Verdict::FailAfter,
                    FaultKind::Tear(n) => Verdict::Tear(n),
                    FaultKind::Crash => Verdict::Crashed,
                };
                let name: &'static str = match verdict {
                    Verdict::FailBefore => "fail_before",
                    Verdict::FailAfter => {
                        if kind.is_mutation() {
                            "fail_after_unknown_outcome"
                        } else {
                            "fail_after_on_read"
                        }
                    }
                    Verdict::Tear(_) => "torn_write",
                    Verdict::Crashed => "power_loss",
                    Verdict::Proceed => "",
                };
                *st.fired.entry(name).or_insert(0) += 1;
                if verdict == Verdict::Crashed {
                    st.crashed = true;
                }
            }
        }
        let vname = match verdict {
            Verdict::Proceed => "ok",
            Verdict::FailBefore => "fail-before",
            Verdict::FailAfter => "fail-after",
            Verdict::Tear(_) => "tear",
            Verdict::Crashed => "crash",
        };
        st.sig.add(task as u64);
        st.sig.add(kind as u64);
        st.sig.add_str(path_class(path));
        st.sig.add_str(vname);
        st.sig_full.add(task as u64);
        st.sig_full.add(kind as u64);
        st.sig_full.add_str(path);
        st.sig_full.add_str(vname);
        st.sig_full.add(st.clock.now_ms() as u64);
        if st.record_trace && st.trace.len() < 4000 {
            st.trace.push(TraceEv {
                seq: st.event_seq,
                step: st.step,
                task,
                kind,
                path: path.to_string(),
                verdict: vname,
            });
        }
        if kind.is_mutation() {
            let seq = st.event_seq;
            st.mut_log.push(MutRec {
                seq,
                task,
                kind,
                path: path.to_string(),
                applied: matches!(verdict, Verdict::Proceed | Verdict::FailAfter | Verdict::Tear(_)),
            });
        }
        verdict
    }

    fn choose(st: &mut St, n: usize, task_of: &dyn Fn(usize) -> TaskId) -> usize {
        if n == 1 {
            // still a decision point for replay alignment? No: a forced move
            // carries no information and is not recorded.
            return 0;
        }
        let step = st.step;
        let idx = match &mut st.chooser {
            Chooser::Uniform(r) => r.usize(n),
            Chooser::Sticky(r, p, last) => {
                let stay = (0..n).find(|i| task_of(*i) == *last);
                match stay {
                    Some(i) if r.below(16) < *p as u64 => i,
                    _ => r.usize(n),
                }
            }
            Chooser::Starve(r, t) => {
                let others: Vec<usize> = (0..n).filter(|i| task_of(*i) != *t).collect();
                if others.is_empty() {
                    r.usize(n)
                } else {
                    others[r.usize(others.len())]
                }
            }
            Chooser::Pct {
                rng,
                prio,
                change_points,
                low,
            } => {
                for i in 0..n {
                    let t = task_of(i);
                    prio.entry(t).or_insert_with(|| 1000 + rng.below(1_000_000));
                }
                let mut best = 0;
                for i in 1..n {
                    if prio[&task_of(i)] > prio[&task_of(best)] {
                        best = i;
                    }
                }
                while let Some(cp) = change_points.first() {
                    if *cp <= step {
                        change_points.remove(0);
                        *low += 1;
                        let t = task_of(best);
                        prio.insert(t, 1000 - *low);
                        // re-pick
                        best = 0;
                        for i in 1..n {
                            if prio[&task_of(i)] > prio[&task_of(best)] {
                                best = i;
                            }
                        }
                    } else {
                        break;
                    }
                }
                best
            }
            Chooser::Explicit(v, pos) => {
                let c = if *pos < v.len() { v[*pos] as usize % n } else { 0 };
                *pos += 1;
                c
            }
        };
        if let Chooser::Sticky(_, _, last) = &mut st.chooser {
            *last = task_of(idx);
        }
        st.decisions.push(idx as u32);
        idx
    }

    /// Grants one parked call. Returns false when nothing is parked.
    pub fn grant_next(&self) -> bool {
        let mut st = self.lock();
        let cand: Vec<usize> = (0..st.pending.len())
            .filter(|i| st.pending[*i].verdict.is_none())
            .collect();
        if cand.is_empty() {
            return false;
        }
        if cand.len() > 1 {
            st.overlap_seen = true;
        }
        st.max_pending = st.max_pending.max(cand.len());
        let tasks: Vec<TaskId> = cand.iter().map(|i| st.pending[*i].task).collect();
        let c = Self::choose(&mut st, cand.len(), &|i| tasks[i]);
        let pi = cand[c];
        let (task, kind, path) = {
            let p = &st.pending[pi];
            (p.task, p.kind, p.path.clone())
        };
        let v = Self::decide(&mut st, task, kind, &path);
        st.pending[pi].verdict = Some(v);
        st.step += 1;
        let w = st.pending[pi].waker.clone();
        drop(st);
        w.wake();
        true
    }

    /// Drives `tasks` to completion on the current thread.
    pub fn run<'a>(&self, tasks: Vec<LocalTask<'a>>) -> Outcome {
        let n = tasks.len();
        let mut tasks: Vec<Option<LocalTask<'a>>> = tasks.into_iter().map(Some).collect();
        let wakers: Vec<Arc<TaskWaker>> = (0..n)
            .map(|_| {
                Arc::new(TaskWaker {
                    woken: AtomicBool::new(true),
                })
            })
            .collect();
        let outcome = loop {
            // poll phase: poll woken tasks until none is woken
            loop {
                let woken: Vec<usize> = (0..n)
                    .filter(|i| tasks[*i].is_some() && wakers[*i].woken.load(Ordering::SeqCst))
                    .collect();
                if woken.is_empty() {
                    break;
                }
                let pick = {
                    let mut st = self.lock();
                    if st.crashed {
                        break;
                    }
                    let c = Self::choose(&mut st, woken.len(), &|i| woken[i]);
                    st.cur_task = woken[c];
                    woken[c]
                };
                wakers[pick].woken.store(false, Ordering::SeqCst);
                let waker = Waker::from(wakers[pick].clone());
                let mut cx = Context::from_waker(&waker);
                let fut = tasks[pick].as_mut().unwrap();
                if let Poll::Ready(()) = fut.as_mut().poll(&mut cx) {
                    tasks[pick] = None;
                }
                self.lock().cur_task = NO_TASK;
            }
            if self.lock().crashed {
                break Outcome::Crashed;
            }
            if tasks.iter().all(|t| t.is_none()) {
                break Outcome::Done;
            }
            {
                let st = self.lock();
                if st.step >= st.step_cap {
                    break Outcome::StepCap;
                }
            }
            if !self.grant_next() {
                let blocked = (0..n).filter(|i| tasks[*i].is_some()).collect();
                break Outcome::Deadlock(blocked);
            }
            if self.lock().crashed {
                break Outcome::Crashed;
            }
        };
        // Dropping the remaining futures is the "power loss"/cancellation of
        // whatever was in flight (memory-only drop handlers run).
        {
            self.lock().cur_task = NO_TASK;
        }
        drop(tasks);
        self.lock().pending.clear();
        outcome
    }

    /// Runs one future to completion (single task).
    pub fn run1<'a, T: 'a>(&self, fut: impl Future<Output = T> + 'a) -> Result<T, Outcome> {
        let mut slot: Option<T> = None;
        let out = {
            let slot_ref = &mut slot;
            self.run(vec![Box::pin(async move {
                *slot_ref = Some(fut.await);
            })])
        };
        match (out, slot) {
            (Outcome::Done, Some(v)) => Ok(v),
            (o, _) => Err(o),
        }
    }
}

/// Coarse class of a path for signatures (digits collapsed).
pub fn path_class(p: &str) -> &str {
    // keep it cheap: class = up to the first digit
    match p.find(|c: char| c.is_ascii_digit()) {
        Some(i) => &p[..i],
        None => p,
    }
}

pub struct Ticket {
    sim: Sim,
    id: Option<u64>,
    kind: OpKind,
    path: String,
    done: bool,
}

impl Future for Ticket {
    type Output = Verdict;
    fn poll(mut self: Pin<&mut Self>, cx: &mut Context<'_>) -> Poll<Verdict> {
        let sim = self.sim.clone();
        let mut st = sim.lock();
        if st.crashed {
            // after power loss nothing proceeds
            self.done = true;
            if let Some(id) = self.id {
                st.pending.retain(|p| p.id != id);
            }
            return Poll::Ready(Verdict::Crashed);
        }
        match self.id {
            None => {
                if !st.park {
                    let task = st.cur_task;
                    let v = Sim::decide(&mut st, task, self.kind, &self.path);
                    st.step += 1;
                    self.done = true;
                    return Poll::Ready(v);
                }
                let id = st.next_op_id;
                st.next_op_id += 1;
                let task = st.cur_task;
                st.pending.push(PendingOp {
                    id,
                    task,
                    kind: self.kind,
                    path: std::mem::take(&mut self.path),
                    verdict: None,
                    waker: cx.waker().clone(),
                });
                self.id = Some(id);
                Poll::Pending
            }
            Some(id) => {
                let pos = st.pending.iter().position(|p| p.id == id);
                match pos {
                    Some(pos) => {
                        if let Some(v) = st.pending[pos].verdict {
                            st.pending.remove(pos);
                            self.done = true;
                            Poll::Ready(v)
                        } else {
                            st.pending[pos].waker = cx.waker().clone();
                            Poll::Pending
                        }
                    }
                    None => {
                        // cleared by a crash/reset
                        self.done = true;
                        Poll::Ready(Verdict::Crashed)
                    }
                }
            }
        }
    }
}

impl Drop for Ticket {
    fn drop(&mut self) {
        if let (Some(id), false) = (self.id, self.done) {
            let mut st = self.sim.lock();
            st.pending.retain(|p| p.id != id);
        }
    }
}

/// Future combinator: drops the inner future at its k-th `Pending` (0-based),
/// i.e. cancellation at suspension point k. Resolves to `Err(polls)` when the
/// cancellation fired, `Ok(v)` when the inner future completed first.
pub struct CancelAt<F> {
    inner: Option<Pin<Box<F>>>,
    k: u64,
    pendings: u64,
}

pub fn cancel_at<F: Future>(f: F, k: u64) -> CancelAt<F> {
    CancelAt {
        inner: Some(Box::pin(f)),
        k,
        pendings: 0,
    }
}

impl<F: Future> Future for CancelAt<F> {
    type Output = Result<F::Output, u64>;
    fn poll(mut self: Pin<&mut Self>, cx: &mut Context<'_>) -> Poll<Self::Output> {
        let this = &mut *self;
        let Some(inner) = this.inner.as_mut() else {
            return Poll::Ready(Err(this.pendings));
        };
        match inner.as_mut().poll(cx) {
            Poll::Ready(v) => {
                this.inner = None;
                Poll::Ready(Ok(v))
            }
            Poll::Pending => {
                if this.pendings == this.k {
                    this.inner = None; // drop = cancel
                    Poll::Ready(Err(this.pendings))
                } else {
                    this.pendings += 1;
                    Poll::Pending
                }
            }
        }
    }
}

/// Counts the suspension points (Pending returns) of a future.
pub struct CountPolls<F> {
    inner: Pin<Box<F>>,
    pub pendings: Arc<std::sync::atomic::AtomicU64>,
}
pub fn count_polls<F: Future>(f: F, ctr: Arc<std::sync::atomic::AtomicU64>) -> CountPolls<F> {
    CountPolls {
        inner: Box::pin(f),
        pendings: ctr,
    }
}
impl<F: Future> Future for CountPolls<F> {
    type Output = F::Output;
    fn poll(mut self: Pin<&mut Self>, cx: &mut Context<'_>) -> Poll<Self::Output> {
        match self.inner.as_mut().poll(cx) {
            Poll::Ready(v) => Poll::Ready(v),
            Poll::Pending => {
                self.pendings.fetch_add(1, Ordering::SeqCst);
                Poll::Pending
            }
        }
    }
}
