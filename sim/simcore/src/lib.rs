//! simcore — deterministic simulation core for the anda-db verification
//! harnesses: seeded PRNG streams, libc clock/entropy seams, the single-thread
//! async scheduler with parked backend calls and fault plans, the simulated
//! disk, a linearizability checker, the batch runner with shrinking, replay
//! files and evidence output.

pub mod batch;
pub mod lin;
pub mod logprobe;
pub mod rng;
pub mod seams;
pub mod sim;
pub mod store;
pub mod threads;

pub use batch::{Harness, Opts, RunReport, Tier, Violation};
pub use rng::Rng;
pub use sim::{ClockMode, FaultKind, FaultSpec, OpKind, Outcome, Policy, Schedule, Sim, SimConfig, Site, Verdict};
pub use store::SimStore;
