//! C17 — a KML statement is all-or-nothing and versions each element once.

use anda_kip::Json;
use object_store::memory::InMemory;
use serde::{Deserialize, Serialize};
use simcore::batch::{RunReport, Tier, Violation};
use simcore::rng::{Rng, Sig};
use simcore::sim::{LocalTask, Outcome as SimOutcome};
use simcore::{ClockMode, Policy, Schedule, Sim, SimConfig, SimStore, violation};
use std::collections::{BTreeMap, BTreeSet};
use std::sync::{Arc, Mutex};

use crate::stmt::{self as sgen, Registry, Stmt};
use crate::world::*;

#[derive(Clone, Debug, Serialize, Deserialize)]
pub struct Case {
    pub seed: u64,
    /// sequential history (statements are generated on the fly from `gen_seed`
    /// against the evolving registry; an explicit list overrides, for replay)
    pub n: usize,
    pub gen_seed: u64,
    pub explicit: Option<Vec<Stmt>>,
    /// concurrent phase after the sequential history
    pub writers: Vec<Vec<Stmt>>,
    pub readers: usize,
    pub reader_rounds: usize,
    pub clock: ClockMode,
    pub schedule: Schedule,
}

pub fn generate(case_seed: u64, idx: u64, tier: Tier) -> Case {
    let mut rng = Rng::stream(case_seed, "c17");
    let concurrent = idx % 2 == 1;
    let n = if concurrent { rng.range(4, 10) } else { rng.range(8, if tier == Tier::Thorough { 30 } else { 18 }) } as usize;
    let policy = match rng.below(4) {
        0 => Policy::Uniform,
        1 => Policy::Sticky(12),
        2 => Policy::Pct(2),
        _ => Policy::Starve(rng.usize(3)),
    };
    Case {
        seed: case_seed,
        n,
        gen_seed: rng.next_u64(),
        explicit: None,
        writers: if concurrent { vec![vec![]; rng.range(1, 2) as usize] } else { vec![] },
        readers: if concurrent { rng.range(1, 3) as usize } else { 0 },
        reader_rounds: rng.range(1, 3) as usize,
        clock: match rng.below(3) {
            0 => ClockMode::Frozen,
            1 => ClockMode::Tick(2),
            _ => ClockMode::Jumpy(4000),
        },
        schedule: Schedule::Seeded { seed: rng.next_u64(), policy },
    }
}

fn diff_dump(a: &[(String, String)], b: &[(String, String)]) -> Option<String> {
    for ((qa, ra), (_, rb)) in a.iter().zip(b.iter()) {
        if ra != rb {
            let n = ra.len().min(rb.len());
            let pos = (0..n).find(|i| ra.as_bytes()[*i] != rb.as_bytes()[*i]).unwrap_or(n);
            let from = pos.saturating_sub(60);
            return Some(format!("query `{qa}` answered differently: before …{}… after …{}…", &ra[from..(pos + 120).min(ra.len())], &rb[from..(pos + 120).min(rb.len())]));
        }
    }
    if a.len() != b.len() { Some("battery length differs".into()) } else { None }
}

/// Checks a commit's receipt against the registry; returns the changes.
fn check_commit(reg: &Registry, out: &Out, last_seq: u64, st: &Stmt) -> Result<(), Violation> {
    let Some(seq) = out.seq else {
        return Err(violation!("c17.no-receipt", "committed statement `{}` carries no space sequence number", st.text));
    };
    if seq <= last_seq {
        return Err(violation!("c17.seq-not-increasing", "statement `{}` committed with sequence {seq}, not greater than the earlier {last_seq}", st.text));
    }
    let changes = out.result["changes"].as_array().cloned().unwrap_or_default();
    let mut seen = BTreeSet::new();
    for c in &changes {
        let id = c["id"].as_str().unwrap_or("").to_string();
        let v = c["version"].as_u64().unwrap_or(0);
        let op = c["op"].as_str().unwrap_or("");
        if !seen.insert(id.clone()) {
            return Err(violation!("c17.version-twice", "statement `{}` lists element {id} twice in its changes", st.text));
        }
        match reg.versions.get(&id) {
            None => {
                if v != 1 {
                    return Err(violation!("c17.version-step", "statement `{}`: new element {id} (op {op}) has version {v}, expected 1", st.text));
                }
            }
            Some(prev) => {
                if v != prev + 1 {
                    return Err(violation!("c17.version-step", "statement `{}`: element {id} (op {op}) went from version {prev} to {v}; a commit raises it by exactly one", st.text));
                }
            }
        }
    }
    Ok(())
}

/// State-level invariants over the live battery answers.
fn check_state_invariants(session: &anda_cognitive_nexus::nexus::Session, reg: &Registry, committed_seqs: &[u64], ctx: &str) -> Result<(), Violation> {
    // one journal row per commit
    let h = block(exec(session, "HISTORY SPACE", false));
    if let Some(rows) = h.result.as_array() {
        let mut count: BTreeMap<u64, u32> = BTreeMap::new();
        for r in rows {
            if let Some(s) = r["space_seq"].as_u64() {
                *count.entry(s).or_default() += 1;
            }
        }
        for s in committed_seqs {
            let n = count.get(s).copied().unwrap_or(0);
            if n != 1 {
                return Err(violation!("c17.journal-rows", "{ctx}: the journal holds {n} rows for committed sequence {s}"));
            }
        }
        for (s, _) in &count {
            if !committed_seqs.contains(s) {
                return Err(violation!("c17.journal-phantom", "{ctx}: the journal holds a row for sequence {s}, which no acknowledged statement committed"));
            }
        }
    }
    // live versions match the receipts
    for q in [r#"FIND(?x.id, ?x._system.version) WHERE { ?x CONCEPT {} }"#, r#"FIND(?x.id, ?x._system.version) WHERE { ?x ASSERTION {} }"#, r#"FIND(?x.id, ?x._system.version) WHERE { ?x PROPOSITION (?s, ?p, ?o) }"#] {
        let o = block(exec(session, q, false));
        if let Some(rows) = o.result.as_array() {
            for r in rows {
                let (id, v) = (r[0].as_str().unwrap_or(""), r[1].as_u64().unwrap_or(0));
                if let Some(want) = reg.versions.get(id) {
                    if *want != v {
                        return Err(violation!("c17.version-drift", "{ctx}: element {id} is at version {v}, the receipts add up to {want}"));
                    }
                }
            }
        }
    }
    // one element per proposition tuple: two proposition rows that agree on
    // everything except identity and engine bookkeeping hold the same tuple
    let o = block(exec(session, r#"FIND(?p) WHERE { ?p PROPOSITION (?s, ?pred, ?o) }"#, false));
    if let Some(rows) = o.result.as_array() {
        let mut seen: BTreeMap<String, String> = BTreeMap::new();
        for r in rows {
            let id = r["id"].as_str().unwrap_or("").to_string();
            let mut t = r.clone();
            if let Some(m) = t.as_object_mut() {
                for k in ["id", "_system", "kind", "space_id"] {
                    m.remove(k);
                }
            }
            let tuple = canon(&t);
            if let Some(prev) = seen.insert(tuple.clone(), id.clone()) {
                if prev != id {
                    return Err(violation!("c17.proposition-duplicate", "{ctx}: propositions {prev} and {id} hold the same tuple {tuple}"));
                }
            }
        }
    }
    // a logical key names at most one concept per type - whatever state its
    // holder is in (a purged stub keeps no key; a pending shell is no concept)
    let mut seen: BTreeMap<String, String> = BTreeMap::new();
    for state in ["active", "archived", "tombstoned", "merged", "quarantined"] {
        let o = block(exec(session, &format!(r#"FIND(?c.id, ?c.schema_ref, ?c.key) WHERE {{ ?c CONCEPT {{state: "{state}"}} FILTER(IS_NOT_NULL(?c.key)) }}"#), false));
        let Some(rows) = o.result.as_array() else { continue };
        for r in rows {
            if r[2].as_str().map(|k| k.is_empty()).unwrap_or(true) {
                continue;
            }
            let k = format!("{}|{}", r[1], r[2]);
            let id = r[0].as_str().unwrap_or("").to_string();
            if let Some(prev) = seen.insert(k.clone(), id.clone()) {
                if prev != id {
                    return Err(violation!("c17.key-duplicate", "{ctx}: concepts {prev} and {id} (the latter {state}) share type and key {k}"));
                }
            }
        }
    }
    Ok(())
}

fn refresh_persons(session: &anda_cognitive_nexus::nexus::Session, reg: &mut Registry) {
    let o = block(exec(session, r#"FIND(?c.id) WHERE { ?c {type: "Person"} }"#, false));
    if let Some(rows) = o.result.as_array() {
        reg.persons = rows.iter().filter_map(|r| r.as_str().map(|s| s.to_string())).collect();
    }
    let o = block(exec(session, r#"FIND(?c.id) WHERE { ?c CONCEPT {} }"#, false));
    if let Some(rows) = o.result.as_array() {
        reg.concepts = rows.iter().filter_map(|r| r.as_str().map(|s| s.to_string())).collect();
    }
}

pub fn execute(case: &Case, rep: &mut RunReport) -> Result<(), Violation> {
    let mut cfg = SimConfig::simple(case.seed);
    cfg.park = false;
    cfg.clock = case.clock.clone();
    cfg.schedule = case.schedule.clone();
    cfg.start_ms = BASE_MS + 60_000;
    let sim = Sim::new(&cfg);
    sim.install_clock_here();
    // concurrent runs mostly disable the object cache: with it a whole query runs
    // between two scheduling points and cannot be interleaved with a commit
    let cache_off = if case.writers.is_empty() { simcore::rng::derive(case.seed, "cache-off") % 2 == 1 } else { simcore::rng::derive(case.seed, "cache-off") % 4 != 0 };
    let store = SimStore::new(sim.clone(), base_image_with(cache_off));
    store.set_response_delay(simcore::store::seeded_response_delay(case.seed));
    let nexus = block(open_nexus_with(&store, cache_off)).map_err(|e| violation!("c17.boot", "nexus failed to open on the base image: {e}"))?;
    let calls0 = sim.calls();
    let session = nexus.system_session();
    // two governed sessions: a writer without the destructive actions and a
    // reader; their refusals ("authorization") must leave no trace either
    crate::c19::agent(&nexus, crate::c19::WRITER)?;
    crate::c19::agent(&nexus, crate::c19::READER)?;
    crate::c19::read_grant(&nexus, crate::c19::READER, "", "", false)?;
    crate::c19::writer_grant(&nexus, &["read", "search", "discover", "project", "read_history", "create", "update", "assert", "record_attributed_assertion", "assert_as_actor", "retract_own", "supersede_own"])?;
    let governed = [nexus.session(anda_cognitive_nexus::governance::AuthContext::principal(crate::c19::WRITER)), nexus.session(anda_cognitive_nexus::governance::AuthContext::principal(crate::c19::READER))];
    let mut reg = Registry::default();
    let mut grng = Rng::stream(case.gen_seed, "stmts");
    let mut last_seq = 0u64;
    let mut committed: Vec<u64> = Vec::new();
    let mut executed: Vec<Stmt> = Vec::new();
    let mut sig = Sig::default();
    let mut refused = 0u64;
    let mut dry = 0u64;
    let known = |reg: &Registry| -> Vec<String> { reg.versions.keys().cloned().collect() };
    for i in 0..case.n {
        let st = match &case.explicit {
            Some(v) => match v.get(i) {
                Some(s) => s.clone(),
                None => break,
            },
            None => sgen::generate(&mut grng, &reg),
        };
        let before = block(dump(&session, &known(&reg), None));
        // historical reads are observations too: two committed coordinates
        let past: Vec<u64> = {
            let mut v: Vec<u64> = Vec::new();
            if let Some(l) = committed.last() {
                v.push(*l);
            }
            if committed.len() > 1 {
                v.push(committed[(i * 7 + 3) % (committed.len() - 1)]);
            }
            v
        };
        let before_past: Vec<Vec<(String, String)>> = past.iter().map(|s| block(dump(&session, &[], Some(&format!("AS OF SEQ {s}"))))).collect();
        // who sends it is a function of the statement, so shrinking keeps it
        let who = {
            let mut h = Sig::default();
            h.add_str(&st.text);
            simcore::rng::derive(case.gen_seed ^ h.0, "who") % 6
        };
        let sender = match who {
            4 => &governed[0],
            5 => &governed[1],
            _ => &session,
        };
        if who >= 4 {
            rep.probe("statements_by_governed_sessions", 1);
        }
        let out = block(exec_p(sender, &st.text, &st.params, st.dry_run));
        sig.add_str(&st.family);
        sig.add_str(&out.status);
        sig.add_str(out.error.as_deref().unwrap_or(""));
        let ctx = format!("statement #{i} ({}{}) `{}` -> {} {:?}", st.family, if st.dry_run { ", dry run" } else { "" }, st.text.replace('\n', " "), out.status, out.error);
        if st.dry_run || !out.ok() || out.seq.is_none() {
            // refused, dry run, or a no-op: nothing observable may change
            let after = block(dump(&session, &known(&reg), None));
            if let Some(d) = diff_dump(&before, &after) {
                let class = if st.dry_run { "c17.dry-run-changed-state" } else { "c17.refused-statement-left-trace" };
                return Err(violation!(class, "{ctx}: {d}"));
            }
            for (s, b) in past.iter().zip(before_past.iter()) {
                let a = block(dump(&session, &[], Some(&format!("AS OF SEQ {s}"))));
                if let Some(d) = diff_dump(b, &a) {
                    let class = if st.dry_run { "c17.dry-run-changed-history" } else { "c17.refused-statement-changed-history" };
                    return Err(violation!(class, "{ctx}: read AS OF SEQ {s}: {d}"));
                }
                rep.probe("historical_reads_compared_around_refusals", 1);
            }
            if st.dry_run {
                dry += 1;
                rep.probe("dry_runs_checked", 1);
            } else if !out.ok() {
                refused += 1;
                rep.probe(&format!("refused:{}", out.error.clone().unwrap_or_default()), 1);
            } else {
                rep.probe("no_effect_statements", 1);
            }
        } else {
            check_commit(&reg, &out, last_seq, &st).map_err(|mut v| {
                v.message = format!("{ctx}: {}", v.message);
                v
            })?;
            last_seq = out.seq.unwrap();
            committed.push(last_seq);
            reg.absorb(&out.result["changes"]);
            refresh_persons(&session, &mut reg);
            rep.probe("commits_checked", 1);
            rep.probe(&format!("committed:{}", st.family), 1);
        }
        executed.push(st);
        if i % 4 == 3 || i + 1 == case.n {
            check_state_invariants(&session, &reg, &committed, &format!("after statement #{i}"))?;
        }
    }
    rep.evaluations = executed.len() as u64;
    rep.probe(if cache_off { "runs_with_object_cache_off" } else { "runs_with_object_cache_on" }, 1);
    rep.probe(if cache_off { "backend_calls_cache_off" } else { "backend_calls_cache_on" }, sim.calls() - calls0);
    let mut sigs = vec![sig.0];

    // ---- concurrent phase: readers never observe part of a statement
    if !case.writers.is_empty() {
        let wn = case.writers.len();
        let mut wstmts: Vec<Vec<Stmt>> = case.writers.clone();
        if wstmts.iter().all(|w| w.is_empty()) {
            for w in wstmts.iter_mut() {
                let mut r = Rng::stream(grng.next_u64(), "w");
                // no physical erasure here: the oracle below reads the statement
                // boundaries back AS OF their sequence, and a purge is the one
                // thing allowed to change those
                *w = (0..r.range(1, 3))
                    .map(|_| loop {
                        let st = sgen::generate(&mut r, &reg);
                        if !st.text.contains("PURGE ") {
                            break st;
                        }
                    })
                    .collect();
            }
        }
        let ids = known(&reg);
        let queries: Vec<String> = battery(&[]).into_iter().filter(|q| q.starts_with("FIND")).collect();
        sim.set_park(true);
        let wres: Arc<Mutex<Vec<(usize, Stmt, Out)>>> = Arc::new(Mutex::new(Vec::new()));
        let rres: Arc<Mutex<Vec<(usize, String, String)>>> = Arc::new(Mutex::new(Vec::new()));
        let mut tasks: Vec<LocalTask> = Vec::new();
        for (wi, stmts) in wstmts.iter().enumerate() {
            let s = nexus.system_session();
            let wres = wres.clone();
            tasks.push(Box::pin(async move {
                for st in stmts {
                    let out = exec_p(&s, &st.text, &st.params, st.dry_run).await;
                    wres.lock().unwrap().push((wi, st.clone(), out));
                }
            }));
        }
        for ri in 0..case.readers {
            let s = nexus.system_session();
            let rres = rres.clone();
            let queries = queries.clone();
            let rounds = case.reader_rounds;
            let mut qr = Rng::stream(case.gen_seed ^ ri as u64, "reader");
            tasks.push(Box::pin(async move {
                for _ in 0..rounds {
                    let q = queries[qr.usize(queries.len())].clone();
                    let o = exec(&s, &q, false).await;
                    let ans = if o.ok() { canon(&normalize(&o.result, true)) } else { format!("ERROR:{}", o.error.unwrap_or_default()) };
                    rres.lock().unwrap().push((wn + ri, q, ans));
                }
            }));
        }
        let outc = sim.run(tasks);
        sim.set_park(false);
        if outc != SimOutcome::Done {
            return Err(violation!("c17.liveness", "concurrent phase did not complete: {outc:?}"));
        }
        {
            let st = sim.lock();
            rep.steps += st.step;
            if st.overlap_seen {
                sigs.push(st.sig.0);
                rep.probe("runs_with_overlapping_calls", 1);
            }
        }
        // commits of the concurrent phase, in sequence order
        let mut w = wres.lock().unwrap().clone();
        w.sort_by_key(|(_, _, o)| o.seq.unwrap_or(u64::MAX));
        let mut seqs: Vec<u64> = vec![last_seq];
        for (_, st, out) in &w {
            if out.ok() && out.seq.is_some() && !st.dry_run {
                let s = out.seq.unwrap();
                if s <= *seqs.last().unwrap() && seqs.len() > 1 || s <= last_seq {
                    return Err(violation!("c17.seq-not-increasing", "concurrent statement `{}` committed with sequence {s}, not above {last_seq}", st.text));
                }
                check_commit(&reg, out, last_seq.min(s - 1), st)?;
                reg.absorb(&out.result["changes"]);
                seqs.push(s);
                committed.push(s);
            }
        }
        seqs.sort();
        seqs.dedup();
        // every reader answer equals the answer at SOME statement boundary
        for (ri, q, ans) in rres.lock().unwrap().iter() {
            let mut ok = false;
            for s in &seqs {
                let o = block(exec(&session, &format!("{q} AS OF SEQ {s}"), false));
                let a = if o.ok() { canon(&normalize(&o.result, true)) } else { format!("ERROR:{}", o.error.clone().unwrap_or_default()) };
                if &a == ans {
                    ok = true;
                    break;
                }
            }
            if !ok {
                return Err(violation!(
                    "c17.partial-read",
                    "reader {ri} got for `{q}` an answer that matches no statement boundary (boundaries: sequences {seqs:?}): {}",
                    &ans[..ans.len().min(400)]
                ));
            }
            rep.probe("concurrent_reads_checked", 1);
        }
        let _ = ids;
        check_state_invariants(&session, &reg, &committed, "after the concurrent phase")?;
        rep.evaluations += 1;
    }
    rep.nontrivial_sigs = if refused + dry > 0 || sigs.len() > 1 { sigs } else { vec![] };
    rep.merge_fired(&sim.fired());
    rep.sim_ms += sim.lock().sim_ms_covered;
    rep.trace_hash = sig.0 ^ sim.full_signature();
    rep.sample = Some(serde_json::json!({
        "statements": executed.iter().take(6).map(|s| format!("[{}{}] {}", s.family, if s.dry_run { " dry" } else { "" }, s.text.replace('\n', " "))).collect::<Vec<_>>(),
        "committed_sequences": committed, "refused": refused, "dry_runs": dry, "writers": case.writers.len(), "readers": case.readers,
    }));
    let _ = Json::Null;
    // keep the executed list for replay/shrinking
    EXECUTED.with(|e| *e.borrow_mut() = executed);
    let _ = InMemory::new;
    Ok(())
}

thread_local! {
    pub static EXECUTED: std::cell::RefCell<Vec<Stmt>> = const { std::cell::RefCell::new(Vec::new()) };
}

pub fn shrink(case: &Case) -> Vec<Case> {
    // make the statement list explicit first (re-run to capture it), then drop statements
    let mut out = Vec::new();
    let explicit: Vec<Stmt> = match &case.explicit {
        Some(v) => v.clone(),
        None => {
            let mut rep = RunReport::default();
            let _ = execute(case, &mut rep);
            let v = EXECUTED.with(|e| e.borrow().clone());
            // the failing statement is the one after the executed prefix; regenerate it
            let mut c = case.clone();
            // capture statements by replaying generation against a dry registry is not possible
            // without the run; keep the generated mode if nothing was captured
            if v.is_empty() {
                return out;
            }
            c.explicit = None;
            v
        }
    };
    if case.explicit.is_some() {
        for i in (0..explicit.len()).rev() {
            let mut c = case.clone();
            let mut e = explicit.clone();
            e.remove(i);
            c.explicit = Some(e.clone());
            c.n = e.len();
            out.push(c);
        }
    } else if case.n > 2 {
        // shrink the generated history length
        let mut c = case.clone();
        c.n = case.n - 1;
        out.push(c);
        let mut c = case.clone();
        c.n = case.n / 2;
        out.push(c);
    }
    if !case.writers.is_empty() && case.readers > 1 {
        let mut c = case.clone();
        c.readers -= 1;
        out.push(c);
    }
    out
}
