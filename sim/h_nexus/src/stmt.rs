//! Template-and-slot generator of KML statements (text, always through the
//! real parser). Templates are lifted from the conformance fixtures and the
//! clause families of KIPSyntax.md.

use anda_kip::Json;
use serde::{Deserialize, Serialize};
use serde_json::json;
use simcore::rng::Rng;
use std::collections::BTreeMap;

#[derive(Clone, Debug, Serialize, Deserialize, PartialEq)]
pub struct Stmt {
    pub text: String,
    pub params: Json,
    pub dry_run: bool,
    pub family: String,
}

/// What the harness knows about committed elements (learned from receipts).
#[derive(Clone, Debug, Default)]
pub struct Registry {
    /// id -> version
    pub versions: BTreeMap<String, u64>,
    pub persons: Vec<String>,
    pub concepts: Vec<String>,
    pub props: Vec<String>,
    pub assertions: Vec<String>,
    pub keys_used: Vec<(String, String)>,
    pub evidence: Vec<String>,
}

impl Registry {
    pub fn absorb(&mut self, changes: &Json) {
        if let Some(arr) = changes.as_array() {
            for c in arr {
                let id = c["id"].as_str().unwrap_or("").to_string();
                let v = c["version"].as_u64().unwrap_or(0);
                let kind = c["kind"].as_str().unwrap_or("");
                let op = c["op"].as_str().unwrap_or("");
                self.versions.insert(id.clone(), v);
                if op == "create" {
                    match kind {
                        "concept" => self.concepts.push(id),
                        "proposition" => self.props.push(id),
                        "assertion" => self.assertions.push(id),
                        "evidence" => self.evidence.push(id),
                        _ => {}
                    }
                }
            }
        }
    }
}

pub const QUALIFIED_PREFERS: &str = "kip://profiles/cognitive-memory@2.0.0/prefers";
pub const NAMES: [&str; 6] = ["Alice", "Bob", "Carol", "Dark", "Light", "Quiet"];
pub const KEYS: [&str; 4] = ["k:one", "k:two", "k:three", "k:four"];

fn pick_or<'a>(rng: &mut Rng, v: &'a [String], fallback: &'a str) -> &'a str {
    if v.is_empty() { fallback } else { v[rng.usize(v.len())].as_str() }
}

fn concept_clause(rng: &mut Rng, handle: &str, bad: bool) -> String {
    let ty = if bad { "Spaceship" } else { *rng.pick(&["Person", "Person", "Preference", "Event"]) };
    let name = *rng.pick(&NAMES);
    let key = if rng.chance(1, 3) { format!(" SET FIELDS {{key: \"{}\"}}", rng.pick(&KEYS)) } else { String::new() };
    format!("CREATE CONCEPT ?{handle} {{ TYPE \"{ty}\" NAME \"{name}\"{key} }}")
}

fn assertion_clause(handle: &str, prop: &str, by: &str, rng: &mut Rng) -> String {
    assertion_clause_citing(handle, prop, by, rng, &[])
}

/// An assertion that may cite an existing Evidence record (a material input:
/// classification and lineage are derived from it at creation).
fn assertion_clause_citing(handle: &str, prop: &str, by: &str, rng: &mut Rng, evidence: &[String]) -> String {
    let stance = *rng.pick(&["support", "support", "reject", "uncertain"]);
    let mode = *rng.pick(&["stated", "observed", "inferred", "hypothetical"]);
    let conf = ["0.9", "0.6", "0.3", "1.0"][rng.usize(4)];
    let cite = if !evidence.is_empty() && rng.chance(1, 2) {
        format!(" SET STRUCTURAL {{(\"evidence\", {{id: \"{}\"}}) {{role: \"support\"}}}}", evidence[rng.usize(evidence.len())])
    } else {
        String::new()
    };
    format!("CREATE ASSERTION ?{handle} {{ SET FIELDS {{ proposition: {prop}, asserted_by: {by}, stance: \"{stance}\", mode: \"{mode}\", confidence: {conf} }}{cite} }}")
}

pub fn generate(rng: &mut Rng, reg: &Registry) -> Stmt {
    let dry_run = rng.chance(1, 7);
    let mut params = serde_json::Map::new();
    let mut bind = |name: &str, id: &str| -> String {
        params.insert(name.to_string(), json!({"id": id}));
        format!(":{name}")
    };
    let any_concept = |rng: &mut Rng| -> String {
        let mut all = reg.persons.clone();
        all.extend(reg.concepts.iter().cloned());
        if all.is_empty() || rng.chance(1, 12) { "C-999".to_string() } else { all[rng.usize(all.len())].clone() }
    };
    let (family, text) = match rng.weighted(&[14, 10, 22, 10, 8, 8, 8, 5, 6, 5, 3, 5]) {
        0 => {
            let bad = rng.chance(1, 8);
            ("create-concept", concept_clause(rng, "x", bad))
        }
        1 => {
            let ty = *rng.pick(&["Person", "Preference"]);
            let key = *rng.pick(&KEYS);
            let ev = match rng.below(4) {
                0 => " EXPECT VERSION 0".to_string(),
                1 => " EXPECT VERSION 99".to_string(),
                2 => format!(" EXPECT VERSION {}", rng.range(1, 3)),
                _ => String::new(),
            };
            ("upsert-concept", format!("UPSERT CONCEPT ?u {{ MATCH {{ type: \"{ty}\", key: \"{key}\" }}{ev} SET FIELDS {{ name: \"{}\" }} }}", rng.pick(&NAMES)))
        }
        2 => {
            // multi-clause block with forward references and an optional failing clause
            let mut clauses: Vec<String> = Vec::new();
            clauses.push(concept_clause(rng, "s", false).replace("\"Preference\"", "\"Person\"").replace("\"Event\"", "\"Person\""));
            clauses.push(concept_clause(rng, "o", false));
            let ev0 = if rng.chance(1, 5) { " EXPECT VERSION 0" } else { "" };
            // the same predicate under its bare and its fully qualified spelling
            let pred = if rng.chance(1, 4) { QUALIFIED_PREFERS } else { "prefers" };
            clauses.push(format!("ENSURE PROPOSITION ?p (?s, \"{pred}\", ?o){ev0}"));
            clauses.push(assertion_clause_citing("a", "?p", "?s", rng, &reg.evidence));
            if rng.chance(1, 3) {
                let p2 = any_concept(rng);
                let o2 = bind("ex", &p2);
                clauses.push(format!("ENSURE PROPOSITION ?q (?s, \"same_as\", {o2})"));
            }
            if rng.bool() {
                // forward reference: the assertion is written before the proposition it names
                clauses.swap(2, 3);
            }
            if rng.chance(1, 6) {
                // the same new tuple ensured twice in one block: one element, or a clean refusal
                let pred2 = if rng.bool() { QUALIFIED_PREFERS } else { "prefers" };
                clauses.push(format!("ENSURE PROPOSITION ?p2 (?s, \"{pred2}\", ?o)"));
            }
            if rng.chance(2, 5) {
                let bad = match rng.below(4) {
                    0 => concept_clause(rng, "bad", true),
                    1 => format!("UPSERT CONCEPT ?v {{ MATCH {{ type: \"Person\", key: \"{}\" }} EXPECT VERSION 99 SET FIELDS {{ name: \"Z\" }} }}", rng.pick(&KEYS)),
                    2 => {
                        let m = bind("missing", "C-998");
                        format!("ENSURE PROPOSITION ?dangling ({m}, \"prefers\", ?o)")
                    }
                    _ => "CREATE CONCEPT ?dup { TYPE \"Person\" NAME \"Dup\" SET FIELDS {key: \"k:dup\"} } CREATE CONCEPT ?dup2 { TYPE \"Person\" NAME \"Dup2\" SET FIELDS {key: \"k:dup\"} }".to_string(),
                };
                let pos = match rng.below(3) {
                    0 => 0,
                    1 => clauses.len() / 2,
                    _ => clauses.len(),
                };
                clauses.insert(pos, bad);
            }
            if rng.chance(1, 5) {
                // physical erasure planned inside a block that may still be refused
                let victim = any_concept(rng);
                let pos = if rng.bool() { 0 } else { rng.usize(clauses.len() + 1) };
                clauses.insert(pos, format!("PURGE \"{victim}\" REFERENCE POLICY \"tombstone_reference\" CONFIRM \"PURGE\""));
            }
            ("mutate-block", format!("MUTATE {{\n  {}\n}}", clauses.join("\n  ")))
        }
        3 => {
            let s = if rng.chance(1, 6) { any_concept(rng) } else { pick_or(rng, &reg.persons, "C-997").to_string() };
            let o = any_concept(rng);
            let (sp, op) = (bind("s", &s), bind("o", &o));
            let conf = ["0.95", "0.5", "0.2"][rng.usize(3)];
            let stance = *rng.pick(&["support", "reject"]);
            let pred = if rng.chance(1, 4) { QUALIFIED_PREFERS } else { "prefers" };
            ("assert-sugar", format!("ASSERT ({sp}, \"{pred}\", {op}) {{ by: {sp}, mode: \"stated\", confidence: {conf}, stance: \"{stance}\" }}"))
        }
        4 => {
            let target = any_concept(rng);
            let ev = match rng.below(3) {
                0 => format!(" EXPECT VERSION {}", reg.versions.get(&target).copied().unwrap_or(1)),
                1 => " EXPECT VERSION 77".to_string(),
                _ => String::new(),
            };
            ("update-concept", format!("UPDATE \"{target}\"{ev} SET FIELDS {{ name: \"{}\" }}", rng.pick(&NAMES)))
        }
        5 => {
            // illegal rewrite of an assertion's epistemic payload
            let a = pick_or(rng, &reg.assertions, "A-999").to_string();
            ("illegal-rewrite", format!("UPDATE \"{a}\" SET FIELDS {{ confidence: 0.1 }}"))
        }
        6 => {
            let a = pick_or(rng, &reg.assertions, "A-999").to_string();
            let es = match rng.below(3) {
                0 => " EXPECT STATE \"active\"",
                1 => " EXPECT STATE \"retracted\"",
                _ => "",
            };
            ("retract", format!("RETRACT ASSERTION \"{a}\"{es}"))
        }
        7 => {
            let c = match rng.below(4) {
                0 if !reg.props.is_empty() => reg.props[rng.usize(reg.props.len())].clone(),
                1 if !reg.assertions.is_empty() => reg.assertions[rng.usize(reg.assertions.len())].clone(),
                _ => any_concept(rng),
            };
            let verb = *rng.pick(&["ARCHIVE", "TOMBSTONE"]);
            let es = if rng.chance(1, 3) { " EXPECT STATE \"active\"" } else { "" };
            ("lifecycle", format!("{verb} \"{c}\"{es}"))
        }
        8 => {
            // supersession inside one block
            let old = pick_or(rng, &reg.assertions, "A-999").to_string();
            let p = pick_or(rng, &reg.props, "P-999").to_string();
            let by = pick_or(rng, &reg.persons, "C-997").to_string();
            let (pp, bp) = (bind("p", &p), bind("by", &by));
            ("supersede", format!("MUTATE {{\n  {}\n  SUPERSEDE ASSERTION \"{old}\" BY ?n\n}}", assertion_clause("n", &pp, &bp, rng)))
        }
        9 => {
            let a = any_concept(rng);
            let b = any_concept(rng);
            ("merge", format!("MERGE CONCEPT \"{a}\" INTO \"{b}\""))
        }
        11 => {
            let word = *rng.pick(&["ledger", "memo", "transcript", "photo"]);
            ("create-evidence", format!("CREATE EVIDENCE ?e {{ SET FIELDS {{evidence_class: \"Document\", payload: \"the {word}\"}} }}"))
        }
        _ => {
            // physical erasure, alone or followed by a clause that fails
            let victim = any_concept(rng);
            let policy = if rng.bool() { " REFERENCE POLICY \"tombstone_reference\"" } else { "" };
            let purge = format!("PURGE \"{victim}\"{policy} CONFIRM \"PURGE\"");
            match rng.below(3) {
                0 => ("purge", purge),
                1 => {
                    let other = any_concept(rng);
                    ("purge-then-refused", format!("MUTATE {{\n  {purge}\n  UPDATE \"{other}\" EXPECT VERSION 99 SET FIELDS {{ name: \"never\" }}\n}}"))
                }
                _ => ("purge-then-conflict", format!("MUTATE {{\n  {purge}\n  CREATE CONCEPT ?d1 {{ TYPE \"Person\" NAME \"Dup\" SET FIELDS {{key: \"k:dup\"}} }}\n  CREATE CONCEPT ?d2 {{ TYPE \"Person\" NAME \"Dup2\" SET FIELDS {{key: \"k:dup\"}} }}\n}}")),
            }
        }
    };
    Stmt { text, params: Json::Object(params), dry_run, family: family.to_string() }
}

/// Seeds the registry's notion of which concepts are Persons from a FIND dump row.
pub fn note_person(reg: &mut Registry, id: &str) {
    if !reg.persons.iter().any(|p| p == id) {
        reg.persons.push(id.to_string());
    }
}
