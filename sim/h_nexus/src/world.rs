//! The simulated world of H-nexus: a CognitiveNexus over AndaDB over SimStore,
//! booted from a process-wide base image (cognitive-memory profile installed
//! and activated), command execution through the real KIP parser, and the
//! canonical state dump.

use anda_cognitive_nexus::CognitiveNexus;
use anda_cognitive_nexus::nexus::{DEFAULT_SPACE, Session};
use anda_cognitive_nexus::schema::{PackageState, SchemaLock, SchemaPackage};
use anda_db::database::{AndaDB, DBConfig};
use anda_db::storage::StorageConfig;
use anda_kip::{Executor, Json};
use object_store::memory::InMemory;
use serde_json::json;
use simcore::batch::Violation;
use simcore::{Sim, SimConfig, SimStore, violation};
use std::sync::{Arc, OnceLock};

pub const PROFILE_ID: &str = "kip://profiles/cognitive-memory";
pub const BASE_MS: i64 = 1_700_000_000_000;
pub const STATUS_PACKAGE: &str = r#"{"format": "KIP-Schema-Package", "manifest": {"package_id": "kip://conformance/status", "version": "1.0.0"}, "definitions": {"concept_types": {"Service": {"kind": "ConceptType", "description": "A service."}, "Status": {"kind": "ConceptType", "description": "A status value."}}, "predicates": {"status": {"kind": "PredicateType", "description": "Single-valued current status.", "functional": true}}}}"#;

pub fn block<T>(f: impl std::future::Future<Output = T>) -> T {
    futures::executor::block_on(f)
}

fn db_config() -> DBConfig {
    DBConfig {
        name: "nx".to_string(),
        description: "andasim nexus".to_string(),
        storage: StorageConfig { compress_level: 0, ..Default::default() },
        lock: None,
    }
}

pub async fn open_nexus(store: &SimStore) -> Result<CognitiveNexus, String> {
    open_nexus_with(store, false).await
}

/// `cache_off`: the object cache of every collection is disabled, so every
/// document read is a backend call - and therefore a scheduling point. With the
/// default cache a whole query runs between two scheduling points and readers
/// can never be interleaved with a commit.
pub async fn open_nexus_with(store: &SimStore, cache_off: bool) -> Result<CognitiveNexus, String> {
    let mut cfg = db_config();
    if cache_off {
        cfg.storage.cache_max_capacity = 0;
        cfg.storage.cache_max_bytes = Some(0);
    }
    let db = AndaDB::connect(Arc::new(store.clone()), cfg).await.map_err(|e| format!("AndaDB::connect: {e:?}"))?;
    CognitiveNexus::connect(Arc::new(db)).await.map_err(|e| format!("CognitiveNexus::connect: {e:?}"))
}

static BASE: OnceLock<InMemory> = OnceLock::new();
static BASE_NOCACHE: OnceLock<InMemory> = OnceLock::new();

/// The base image: a database with the cognitive-memory profile installed and
/// activated, built once per process on a dedicated thread with fixed entropy
/// and clock so that it is identical in every process.
pub fn base_image() -> InMemory {
    base_image_with(false)
}

/// `cache_off`: the image whose collections were created with the object cache
/// disabled (the cache size is persisted at creation), see `open_nexus_with`.
pub fn base_image_with(cache_off: bool) -> InMemory {
    let slot = if cache_off { &BASE_NOCACHE } else { &BASE };
    slot.get_or_init(|| {
        std::thread::Builder::new()
            .stack_size(32 << 20)
            .spawn(move || {
                simcore::seams::install_entropy(0xBA5E);
                let mut cfg = SimConfig::simple(0xBA5E);
                cfg.park = false;
                cfg.record_trace = false;
                cfg.start_ms = BASE_MS;
                let sim = Sim::new(&cfg);
                sim.install_clock_here();
                let store = SimStore::new(sim, InMemory::new());
                let nexus = block(open_nexus_with(&store, cache_off)).expect("base nexus");
                let pkg = SchemaPackage::parse(anda_cognitive_nexus::profiles::COGNITIVE_MEMORY).expect("profile parses");
                block(nexus.install_package(&pkg, "andasim")).expect("install profile");
                let mut lock = SchemaLock::default();
                lock.packages.insert(PROFILE_ID.to_string(), "2.0.0".to_string());
                lock.states.insert(PROFILE_ID.to_string(), PackageState::Active);
                // a small package with a functional (single-valued) predicate, as the
                // conformance fixture epistemic-projection.json declares it
                let status_pkg = SchemaPackage::parse(STATUS_PACKAGE).expect("status package parses");
                block(nexus.install_package(&status_pkg, "andasim")).expect("install status package");
                lock.packages.insert("kip://conformance/status".to_string(), "1.0.0".to_string());
                lock.states.insert("kip://conformance/status".to_string(), PackageState::Active);
                block(nexus.activate_schema(DEFAULT_SPACE, lock)).expect("activate profile");
                block(nexus.close()).expect("close base");
                let img = store.disk().fork();
                simcore::seams::uninstall_entropy();
                simcore::seams::uninstall_clock();
                img
            })
            .unwrap()
            .join()
            .unwrap()
    })
    .fork()
}

/// The Schema Lock the base image runs under (profile + status package).
pub fn full_lock() -> SchemaLock {
    let mut lock = SchemaLock::default();
    lock.packages.insert(PROFILE_ID.to_string(), "2.0.0".to_string());
    lock.states.insert(PROFILE_ID.to_string(), PackageState::Active);
    lock.packages.insert("kip://conformance/status".to_string(), "1.0.0".to_string());
    lock.states.insert("kip://conformance/status".to_string(), PackageState::Active);
    lock
}

/// Path patterns (hop-quantified walks): forward from a pinned subject,
/// backward from a pinned object, open-ended, and counted.
pub fn path_queries() -> Vec<String> {
    vec![
        r#"FIND(?b.name) WHERE { ?a CONCEPT {name: "Alice"} (?a, "prefers"{1,3}, ?b) }"#.into(),
        r#"FIND(?a.name) WHERE { ?c CONCEPT {name: "Bob"} (?a, "prefers"{1,3}, ?c) }"#.into(),
        r#"FIND(?a.name) WHERE { ?c CONCEPT {name: "Dark"} (?a, "prefers"{1,2}, ?c) }"#.into(),
        r#"FIND(?a.name, ?b.name) WHERE { (?a, "prefers"{1,2}, ?b) }"#.into(),
        r#"FIND(COUNT(?b)) WHERE { ?a CONCEPT {name: "Alice"} (?a, "prefers"{1,2}, ?b) }"#.into(),
    ]
}

/// Outcome of one command, navigated generically from the serialized response.
#[derive(Clone, Debug, PartialEq)]
pub struct Out {
    pub status: String,
    pub error: Option<String>,
    pub result: Json,
    pub seq: Option<u64>,
    pub tx: Option<String>,
    pub raw: Json,
}

impl Out {
    pub fn ok(&self) -> bool {
        self.status == "succeeded" && self.error.is_none()
    }
}

pub async fn exec(session: &Session, command: &str, dry_run: bool) -> Out {
    exec_p(session, command, &json!({}), dry_run).await
}

/// Executes one command with bound parameters through the real parser.
pub async fn exec_p(session: &Session, command: &str, params: &Json, dry_run: bool) -> Out {
    let request: anda_kip::Request = match serde_json::from_value(json!({
        "kip": "2.0",
        "options": {"dry_run": dry_run},
        "operations": [{"command": command, "parameters": params}]
    })) {
        Ok(r) => r,
        Err(e) => {
            return Out { status: "failed".into(), error: Some(format!("RequestBuild:{e}")), result: Json::Null, seq: None, tx: None, raw: Json::Null };
        }
    };
    let parsed = match request.operations[0].parse() {
        Ok(p) => p,
        Err(err) => {
            return Out { status: "failed".into(), error: Some(err.name().to_string()), result: Json::Null, seq: None, tx: None, raw: Json::Null };
        }
    };
    let resp = session.execute(parsed, &request, &request.operations[0]).await;
    let raw = serde_json::to_value(&resp).unwrap_or(Json::Null);
    if std::env::var("NX_TRACE").is_ok() && (raw["error"].is_object() || raw["results"][0]["error"].is_object()) {
        eprintln!("NX_TRACE {command} -> {} {}", raw["error"], raw["results"][0]["error"]);
    }
    let status = raw["status"].as_str().unwrap_or("?").to_string();
    let error = raw["error"]["code"]
        .as_str()
        .map(|s| s.to_string())
        .or_else(|| raw["results"][0]["error"]["code"].as_str().map(|s| s.to_string()));
    let result = raw["results"][0]["result"].clone();
    let seq = raw["receipt"]["space_seq"].as_u64().or_else(|| raw["results"][0]["receipt"]["space_seq"].as_u64());
    let tx = raw["receipt"]["tx_id"].as_str().map(|s| s.to_string());
    Out { status, error, result, seq, tx, raw }
}

/// Canonicalises a JSON value for comparisons: object keys sorted (serde_json
/// maps are BTreeMaps already), nothing else touched.
pub fn canon(v: &Json) -> String {
    serde_json::to_string(v).unwrap_or_default()
}

pub fn handle_of(out: &Out, name: &str) -> Option<String> {
    out.result["handles"][name].as_str().map(|s| s.to_string())
}

pub fn must(cond: bool, class: &str, msg: String) -> Result<(), Violation> {
    if cond { Ok(()) } else { Err(violation!(class, "{msg}")) }
}

/// Keys whose values depend on the evaluation instant rather than on state.
// (current_space_seq / index_seq disclose the space's sequence counter, which may skip)
const VOLATILE_KEYS: [&str; 6] = ["valid_at", "evaluated_at", "generated_at", "snapshot_token", "current_space_seq", "index_seq"];

/// Normalises a result for state comparison: volatile keys dropped, top-level
/// result arrays sorted (row order is not part of the contract unless ORDER BY).
pub fn normalize(v: &Json, sort_top: bool) -> Json {
    fn strip(v: &Json) -> Json {
        match v {
            Json::Object(m) => Json::Object(m.iter().filter(|(k, _)| !VOLATILE_KEYS.contains(&k.as_str())).map(|(k, x)| (k.clone(), strip(x))).collect()),
            Json::Array(a) => Json::Array(a.iter().map(strip).collect()),
            o => o.clone(),
        }
    }
    let mut n = strip(v);
    if sort_top {
        if let Json::Array(a) = &mut n {
            a.sort_by_key(|x| serde_json::to_string(x).unwrap_or_default());
        }
    }
    n
}

/// The read battery whose answers together are "the observable state".
pub fn battery(known_ids: &[String]) -> Vec<String> {
    let mut q: Vec<String> = vec![
        r#"FIND(?c) WHERE { ?c CONCEPT {} }"#.into(),
        r#"FIND(?p) WHERE { ?p PROPOSITION (?s, ?pred, ?o) }"#.into(),
        r#"FIND(?a) WHERE { ?a ASSERTION {} }"#.into(),
        r#"FIND(?e) WHERE { ?e EVIDENCE {} }"#.into(),
        r#"FIND(?x) WHERE { ?x ACTIVITY {} }"#.into(),
        r#"FIND(COUNT(?c)) WHERE { ?c CONCEPT {} }"#.into(),
        r#"FIND(COUNT(?a)) WHERE { ?a ASSERTION {} }"#.into(),
        r#"FIND(?c.name, ?a.id) WHERE { ?c CONCEPT {} OPTIONAL { ?a ASSERTION {asserted_by: ?c} } }"#.into(),
        r#"FIND(?s.name, ?pred, ?b.status, ?b.support.score, ?b.opposition.score) WHERE { ?p PROPOSITION (?s, ?pred, ?o) ?b BELIEF (?p) }"#.into(),
        r#"FIND(?c.name) WHERE { ?c CONCEPT {} NOT { ?a ASSERTION {asserted_by: ?c} } }"#.into(),
        r#"HISTORY SPACE"#.into(),
        r#"CHANGES AFTER SEQ 0"#.into(),
        // SNAPSHOT / DESCRIBE SPACE report the space's sequence counter, which a
        // refused statement may legitimately advance; they are not part of the battery
        r#"DESCRIBE SCHEMA ENVIRONMENT"#.into(),
        r#"SEARCH CONCEPT "Alice""#.into(),
    ];
    // elements outside ordinary recall are observable by asking for their state
    for st in ["archived", "tombstoned", "merged", "purged", "pending"] {
        q.push(format!(r#"FIND(?c.id, ?c.name, ?c.key) WHERE {{ ?c CONCEPT {{state: "{st}"}} }}"#));
    }
    for st in ["retracted", "superseded", "archived", "pending"] {
        q.push(format!(r#"FIND(?a.id) WHERE {{ ?a ASSERTION {{state: "{st}"}} }}"#));
    }
    q.extend(path_queries());
    for id in known_ids {
        q.push(format!("HISTORY ELEMENT \"{id}\""));
    }
    q
}

/// Answers of the battery, normalised, one entry per query.
pub async fn dump(session: &Session, known_ids: &[String], as_of: Option<&str>) -> Vec<(String, String)> {
    let mut out = Vec::new();
    for q in battery(known_ids) {
        let (cmd, historical) = match as_of {
            Some(suffix) if q.starts_with("FIND") => (format!("{q} {suffix}"), true),
            Some(suffix) if q == "SNAPSHOT" || q == "DESCRIBE SCHEMA ENVIRONMENT" => (format!("{q} {suffix}"), true),
            Some(_) => continue,
            None => (q.clone(), false),
        };
        let _ = historical;
        let o = exec(session, &cmd, false).await;
        let ans = if o.ok() { canon(&normalize(&o.result, true)) } else { format!("ERROR:{}", o.error.clone().unwrap_or_default()) };
        out.push((q, ans));
    }
    out
}

pub async fn exec_as_system(nexus: &CognitiveNexus, command: &str, dry_run: bool) -> Out {
    let s = nexus.system_session();
    exec(&s, command, dry_run).await
}

pub fn _unused(_: &dyn Executor) {}
