//! H-nexus: anda_kip + anda_cognitive_nexus over the simulated disk (C17 C18 C19 C20).
simcore::install_libc_seams!();

mod c17;
mod c18;
mod c19;
mod c20;
mod stmt;
mod world;

use serde::{Deserialize, Serialize};
use simcore::batch::{CheckSpec, Harness, PhaseSpec, RunReport, Tier, Violation, parse_args, standard_main};
use std::sync::Arc;

#[derive(Clone, Debug, Serialize, Deserialize)]
pub enum Case {
    C17(c17::Case),
    C18(c18::Case),
    C19(c19::Case),
    C20(c20::Case),
}

pub struct H {
    kind: &'static str,
}

impl Harness for H {
    type Case = Case;
    fn generate(&self, case_seed: u64, idx: u64, tier: Tier) -> Case {
        match self.kind {
            "c18" => Case::C18(c18::generate(case_seed, idx, tier)),
            "c19" => Case::C19(c19::generate(case_seed, idx, tier)),
            "c20" => Case::C20(c20::generate(case_seed, idx, tier)),
            _ => Case::C17(c17::generate(case_seed, idx, tier)),
        }
    }
    fn entropy_seed(&self, case: &Case) -> u64 {
        match case {
            Case::C17(c) => simcore::rng::derive(c.seed, "entropy"),
            Case::C18(c) => simcore::rng::derive(c.seed, "entropy"),
            Case::C20(c) => simcore::rng::derive(c.seed, "entropy"),
            Case::C19(c) => simcore::rng::derive(c.seed, "entropy"),
        }
    }
    fn execute(&self, case: &Case, rep: &mut RunReport) -> Result<(), Violation> {
        match case {
            Case::C17(c) => c17::execute(c, rep),
            Case::C18(c) => c18::execute(c, rep),
            Case::C20(c) => c20::execute(c, rep),
            Case::C19(c) => c19::execute(c, rep),
        }
    }
    fn shrink(&self, case: &Case) -> Vec<Case> {
        match case {
            Case::C17(c) => c17::shrink(c).into_iter().map(Case::C17).collect(),
            Case::C18(c) => c18::shrink(c).into_iter().map(Case::C18).collect(),
            Case::C20(c) => c20::shrink(c).into_iter().map(Case::C20).collect(),
            Case::C19(c) => c19::shrink(c).into_iter().map(Case::C19).collect(),
        }
    }
}

const REAL: &[&str] = &[
    "anda_kip parser and validator (every statement goes through parse)",
    "anda_cognitive_nexus: CognitiveNexus / Session executor, KML transactions, KQL, META, projection, governance",
    "anda_db collections and indexes underneath",
];
const STUB: &[&str] = &["SimStore (InMemory behind parked calls)", "wall clock / entropy (libc seams)", "executor (simcore scheduler; no tokio runtime)"];

fn main() {
    let opts = parse_args();
    // build the base image before any worker starts (deterministic, once per process)
    let _ = world::base_image();
    let _ = world::base_image_with(true);
    let code = match opts.property.as_str() {
        "C17" => standard_main(
            &opts,
            &CheckSpec {
                harness_name: "h_nexus",
                level: "exploration",
                rule: "one evaluation = one generated KML statement executed through the real parser with the full read battery (KQL over every element kind, counts, OPTIONAL/NOT joins, BELIEF, HISTORY SPACE/ELEMENT, CHANGES, SNAPSHOT, schema environment, SEARCH) taken before and after it, or one concurrent phase of writer and reader sessions; distinct = distinct (statement family, outcome, error code) sequences among histories with at least one refused statement or dry run, plus schedule signatures with overlapping backend calls",
                real: REAL,
                stub: STUB,
                assumptions: &["storage errors are not injected here (a storage failure mid-commit is the poison-and-reopen contract, not a refusal)", "reader answers are compared with the same query AS OF every committed boundary (C18 checks AS OF independently)", "the space sequence counter is excluded from the comparison (DESCRIBE SPACE is not part of the battery)"],
                required_probes: &["commits_checked", "dry_runs_checked", "refused:IdentityConflict", "refused:VersionConflict", "refused:SchemaSymbolNotFound", "refused:NotAuthorized", "concurrent_reads_checked"],
                required_faults: &[],
            },
            vec![(
                PhaseSpec { label: "kml", quick_runs: 1500, thorough_runs: 30000, quick_budget_s: 70.0, thorough_budget_s: 1200.0 },
                Arc::new(H { kind: "c17" }),
            )],
        ),
        "C18" => standard_main(
            &opts,
            &CheckSpec {
                harness_name: "h_nexus",
                level: "exploration",
                rule: "one evaluation = one committed coordinate whose live answers (element, tuple, join, OPTIONAL/NOT, aggregate and BELIEF patterns, SNAPSHOT, schema environment) were recorded when it was the present and then replayed AS OF SEQ / AS OF TX after later statements, at the end of the history, and after a crash + reopen on a disk fork taken inside a statement; distinct = distinct statement-outcome sequences and distinct crash-state signatures",
                real: REAL,
                stub: STUB,
                assumptions: &["AS OF TIME is compared exactly only for instants strictly between two distinct commit timestamps under a strictly increasing clock; under stalls/jumps it must not fail and must equal some coordinate's record", "after a committed PURGE the records are re-baselined (purge is the one thing allowed to change the past)"],
                required_probes: &["historical_replays_checked", "commits_recorded", "as_of_time_exact_checked", "assertion_payloads_compared"],
                required_faults: &["power_loss"],
            },
            vec![(
                PhaseSpec { label: "history", quick_runs: 240, thorough_runs: 20000, quick_budget_s: 70.0, thorough_budget_s: 1200.0 },
                Arc::new(H { kind: "c18" }),
            )],
        ),
        "C19" => standard_main(
            &opts,
            &CheckSpec {
                harness_name: "h_nexus",
                level: "exploration",
                rule: "one evaluation = one run of one of three modes: (a) a tagged low/high history applied to a store and (low statements only) to its filtered clone, followed by the principal's read battery on both; (b) a control-plane change (grant revocation, suspension, principal revocation, expiry by clock jump, explicit deny policy, revocation of a delegator's grant) racing the principal's requests under a seeded schedule; (c) a generated KML/KQL history by owner/writer/reader sessions with the gov_* collections and every element's governance block compared around each command; distinct = distinct histories with at least one hidden element, schedule signatures with overlapping calls, and command-outcome sequences",
                real: REAL,
                stub: STUB,
                assumptions: &[
                    "the relational clause is decided by seeded generation against a self-consistency oracle (the same principal on the store and on the clone built by the real executor), not by a fault or schedule; it is hosted in the simulated runs",
                    "hidden = classification above the grant's ceiling, or quarantine; low statements never reference hidden elements",
                    "governance configurations come from a small unambiguous fragment (default deny; grants with ceilings/expiries; one delegation; one deny policy)",
                ],
                required_probes: &["differential_answers_compared", "high_statements", "requests_after_change", "session_commands_checked", "refused_by_authorization"],
                required_faults: &[],
            },
            vec![(
                PhaseSpec { label: "governance", quick_runs: 1200, thorough_runs: 30000, quick_budget_s: 70.0, thorough_budget_s: 1200.0 },
                Arc::new(H { kind: "c19" }),
            )],
        ),
        "C20" => standard_main(
            &opts,
            &CheckSpec {
                harness_name: "h_nexus",
                level: "exploration",
                rule: "one evaluation = one (assertion multiset, schedule) recording: every assertion is issued by its own session task and the scheduler's lock hand-over order is the recording order; beliefs about the target and both rival values are projected at four evaluation times; distinct = distinct (multiset, recording order reached) pairs",
                real: REAL,
                stub: STUB,
                assumptions: &["the reference computes eligibility (lifecycle, validity window, mode), connected components over shared actor or evidence, 1-prod(1-max_c) and the policy thresholds; it is itself checked against the repetition and monotonicity laws", "scores compared to 1e-9 (float product order)"],
                required_probes: &["beliefs_vs_reference", "confluence_pairs_checked", "multisets_with_distinct_recording_orders", "insufficient_checked"],
                required_faults: &[],
            },
            vec![(
                PhaseSpec { label: "belief", quick_runs: 400, thorough_runs: 30000, quick_budget_s: 70.0, thorough_budget_s: 1200.0 },
                Arc::new(H { kind: "c20" }),
            )],
        ),
        other => {
            eprintln!("harness error: h_nexus does not serve property {other:?}");
            2
        }
    };
    std::process::exit(code);
}
