//! C19 — unreadable elements are invisible; only the control plane changes authority.
//!
//! Three sub-checks hosted in the same simulated runs:
//! (a) non-interference differential: the same principal on store S (whole
//!     history) and on the filtered clone S' (high statements omitted, built by
//!     the real executor) must get identical answers after canonicalising ids;
//! (b) revocation / suspension / expiry / deny / delegator-reduction take effect
//!     on the very next request, under sampled interleavings and clock jumps;
//! (c) no session command changes the gov_* collections (existing rows) or any
//!     existing element's governance block.

use anda_cognitive_nexus::governance::rows::{AuthorityConditions, AuthorityConstraints, PolicyStatement, principal_class, status};
use anda_cognitive_nexus::governance::store::{DelegationDraft, GrantDraft, PolicyDraft, PrincipalDraft};
use anda_cognitive_nexus::governance::{AuthContext, SYSTEM_PRINCIPAL};
use anda_cognitive_nexus::nexus::{DEFAULT_SPACE, Session};
use anda_cognitive_nexus::{CognitiveNexus, ElementId};
use anda_kip::Json;
use serde::{Deserialize, Serialize};
use simcore::batch::{RunReport, Tier, Violation};
use simcore::rng::{Rng, Sig};
use simcore::sim::{LocalTask, Outcome as SimOutcome};
use simcore::{ClockMode, Policy, Schedule, Sim, SimConfig, SimStore, violation};
use std::collections::BTreeMap;
use std::sync::{Arc, Mutex};

use crate::stmt::{self as sgen, Registry};
use crate::world::*;

#[derive(Clone, Debug, Serialize, Deserialize, PartialEq)]
pub enum Mode {
    NonInterference,
    NextRequest,
    ControlPlaneOnly,
}

#[derive(Clone, Debug, Serialize, Deserialize)]
pub struct Case {
    pub seed: u64,
    pub mode: Mode,
    /// NonInterference: (is_high, kind) per statement
    pub history: Vec<(bool, u8)>,
    pub quarantine_instead: bool,
    /// NextRequest: which revocation kind 0 revoke grant, 1 suspend, 2 expiry by clock, 3 deny policy, 4 revoke delegator's grant (delegate asks), 5 revoke principal
    pub kind: u8,
    pub requests_before: u8,
    pub schedule: Schedule,
    pub n: usize,
    pub gen_seed: u64,
}

pub fn generate(case_seed: u64, idx: u64, tier: Tier) -> Case {
    let mut rng = Rng::stream(case_seed, "c19");
    let mode = match idx % 3 {
        0 => Mode::NonInterference,
        1 => Mode::NextRequest,
        _ => Mode::ControlPlaneOnly,
    };
    let hn = rng.range(4, if tier == Tier::Thorough { 16 } else { 10 });
    Case {
        seed: case_seed,
        mode,
        history: (0..hn).map(|_| (rng.chance(2, 5), rng.below(4) as u8)).collect(),
        // quarantine is a recall state (still readable when asked for by state), not a read
        // restriction, so it is not a way to make an element unreadable; classification is
        quarantine_instead: false,
        kind: rng.below(10) as u8,
        requests_before: rng.below(3) as u8,
        schedule: Schedule::Seeded {
            seed: rng.next_u64(),
            policy: match rng.below(3) {
                0 => Policy::Uniform,
                1 => Policy::Pct(2),
                _ => Policy::Sticky(10),
            },
        },
        n: rng.range(4, 12) as usize,
        gen_seed: rng.next_u64(),
    }
}

pub(crate) const READER: &str = "kip:principal:reader";
const DELEGATE: &str = "kip:principal:delegate";
pub(crate) const WRITER: &str = "kip:principal:writer";

fn boot(seed: u64, clock: ClockMode) -> Result<(Sim, SimStore, CognitiveNexus), Violation> {
    let mut cfg = SimConfig::simple(seed);
    cfg.park = false;
    cfg.clock = clock;
    cfg.start_ms = BASE_MS + 7_200_000;
    let sim = Sim::new(&cfg);
    sim.install_clock_here();
    let store = SimStore::new(sim.clone(), base_image());
    store.set_response_delay(simcore::store::seeded_response_delay(seed));
    let nexus = block(open_nexus(&store)).map_err(|e| violation!("c19.boot", "nexus failed to open: {e}"))?;
    Ok((sim, store, nexus))
}

pub(crate) fn agent(nexus: &CognitiveNexus, id: &str) -> Result<(), Violation> {
    block(nexus.governance().ensure_principal(PrincipalDraft {
        principal_id: id.to_string(),
        principal_class: principal_class::AGENT.to_string(),
        display_name: id.to_string(),
        auth_provider: "andasim".to_string(),
        auth_subject: id.to_string(),
    }))
    .map(|_| ())
    .map_err(|e| violation!("c19.setup", "ensure_principal({id}) failed: {e:?}"))
}

pub(crate) fn read_grant(nexus: &CognitiveNexus, who: &str, ceiling: &str, until: &str, delegable: bool) -> Result<u64, Violation> {
    block(nexus.governance().create_grant(
        GrantDraft {
            space_id: DEFAULT_SPACE.into(),
            grantee_principal: who.to_string(),
            actions: vec!["read".into(), "search".into(), "discover".into(), "project".into(), "read_history".into()],
            constraints: AuthorityConstraints { max_classification: ceiling.to_string(), ..Default::default() },
            conditions: AuthorityConditions { valid_until: until.to_string(), ..Default::default() },
            delegation_allowed: delegable,
            ..Default::default()
        },
        SYSTEM_PRINCIPAL,
    ))
    .map(|g| g._id)
    .map_err(|e| violation!("c19.setup", "create_grant for {who} failed: {e:?}"))
}

pub(crate) fn writer_grant(nexus: &CognitiveNexus, actions: &[&str]) -> Result<(), Violation> {
    block(nexus.governance().create_grant(
        GrantDraft { space_id: DEFAULT_SPACE.into(), grantee_principal: WRITER.into(), actions: actions.iter().map(|s| s.to_string()).collect(), ..Default::default() },
        SYSTEM_PRINCIPAL,
    ))
    .map(|_| ())
    .map_err(|e| violation!("c19.setup", "writer grant failed: {e:?}"))
}

/// Replaces element ids by their order of first appearance and drops fields
/// that legitimately differ between a store and its filtered clone.
fn canon_ids(v: &Json) -> String {
    canon_ids_opt(v, false)
}

fn canon_ids_opt(v: &Json, drop_score: bool) -> String {
    const DROP: [&str; 14] = ["space_seq", "created_tx", "updated_tx", "tx_id", "snapshot_seq", "committed_at", "created_at", "updated_at", "valid_at", "index_seq", "current_space_seq", "snapshot_token", "observed_at", "asserted_at"];
    fn walk(v: &Json, map: &mut BTreeMap<String, String>, drop_score: bool) -> Json {
        match v {
            Json::String(s) => {
                let is_id = s.len() >= 3 && s.as_bytes()[1] == b'-' && s[2..].chars().all(|c| c.is_ascii_digit()) && "CPAEX".contains(&s[..1]);
                if is_id {
                    let n = map.len() + 1;
                    Json::String(map.entry(s.clone()).or_insert_with(|| format!("{}:<{n}>", &s[..1])).clone())
                } else if s.starts_with("kip:space:default#") {
                    Json::String("tx".into())
                } else {
                    v.clone()
                }
            }
            Json::Array(a) => Json::Array(a.iter().map(|x| walk(x, map, drop_score)).collect()),
            Json::Object(m) => Json::Object(m.iter().filter(|(k, _)| !DROP.contains(&k.as_str()) && !(drop_score && k.as_str() == "score")).map(|(k, x)| (k.clone(), walk(x, map, drop_score))).collect()),
            o => o.clone(),
        }
    }
    let mut map = BTreeMap::new();
    canon(&walk(v, &mut map, drop_score))
}

fn reader_battery() -> Vec<&'static str> {
    vec![
        r#"FIND(?c.name) WHERE { ?c CONCEPT {} } ORDER BY ?c.name"#,
        r#"FIND(?c) WHERE { ?c CONCEPT {} } ORDER BY ?c.name"#,
        r#"FIND(COUNT(?c)) WHERE { ?c CONCEPT {} }"#,
        r#"FIND(COUNT(?a)) WHERE { ?a ASSERTION {} }"#,
        r#"FIND(COUNT(?p)) WHERE { ?p PROPOSITION (?s, ?pred, ?o) }"#,
        r#"FIND(?s.name, ?o.name) WHERE { ?p PROPOSITION (?s, "prefers", ?o) } ORDER BY ?s.name, ?o.name"#,
        r#"FIND(?c.name, ?a.confidence) WHERE { ?c CONCEPT {} OPTIONAL { ?a ASSERTION {asserted_by: ?c} } } ORDER BY ?c.name, ?a.confidence"#,
        r#"FIND(?c.name) WHERE { ?c CONCEPT {} NOT { ?a ASSERTION {asserted_by: ?c} } } ORDER BY ?c.name"#,
        r#"FIND(?c.name) WHERE { ?c CONCEPT {} } ORDER BY ?c.name LIMIT 2"#,
        r#"FIND(?s.name, ?b.status, ?b.support.score) WHERE { ?p PROPOSITION (?s, "prefers", ?o) ?b BELIEF (?p) } ORDER BY ?s.name"#,
        r#"SEARCH CONCEPT "Alice""#,
        r#"SEARCH CONCEPT "Secret""#,
        r#"HISTORY SPACE"#,
        r#"CHANGES AFTER SEQ 0"#,
        // hop-quantified walks: forward, backward, open, counted, negated
        r#"FIND(?b.name) WHERE { ?a CONCEPT {name: "Alice"} (?a, "prefers"{1,3}, ?b) } ORDER BY ?b.name"#,
        r#"FIND(?a.name) WHERE { ?c CONCEPT {name: "Bob"} (?a, "prefers"{1,3}, ?c) } ORDER BY ?a.name"#,
        r#"FIND(?a.name) WHERE { ?c CONCEPT {name: "Alice"} (?a, "prefers"{1,2}, ?c) } ORDER BY ?a.name"#,
        r#"FIND(?b.name) WHERE { ?a CONCEPT {name: "Carol"} (?a, "prefers"{1,2}, ?b) } ORDER BY ?b.name"#,
        r#"FIND(?a.name, ?b.name) WHERE { (?a, "prefers"{1,2}, ?b) } ORDER BY ?a.name, ?b.name"#,
        r#"FIND(COUNT(?b)) WHERE { ?a CONCEPT {name: "Alice"} (?a, "prefers"{1,2}, ?b) }"#,
        r#"FIND(?e.name) WHERE { ?e CONCEPT {} ?a CONCEPT {name: "Alice"} NOT { (?a, "prefers"{1,3}, ?e) } } ORDER BY ?e.name"#,
    ]
}

/// (query, canonical answer, canonical answer without relevance scores)
fn answers_as(session: &Session) -> Vec<(String, String, String)> {
    reader_battery()
        .into_iter()
        .map(|q| {
            let o = block(exec(session, q, false));
            let a = if o.ok() { canon_ids(&o.result) } else { format!("ERROR:{}", o.error.clone().unwrap_or_default()) };
            let b = if o.ok() { canon_ids_opt(&o.result, true) } else { a.clone() };
            (q.to_string(), a, b)
        })
        .collect()
}

fn run_non_interference(case: &Case, rep: &mut RunReport) -> Result<(), Violation> {
    // two stores from the same image and seed
    let (sim_a, _sa, full) = boot(case.seed, ClockMode::Tick(2))?;
    let owner_full = full.system_session();
    agent(&full, READER)?;
    read_grant(&full, READER, "internal", "", true)?;
    let (_sim_b, _sb, clone) = boot(case.seed, ClockMode::Tick(2))?;
    let owner_clone = clone.system_session();
    agent(&clone, READER)?;
    read_grant(&clone, READER, "internal", "", true)?;
    // the capped reader delegates to a third principal WITHOUT restating its
    // ceiling: whatever that delegation confers, it is not more than the
    // delegator holds, so the delegate is held to the same differential
    let mut delegated = true;
    for nx in [&full, &clone] {
        agent(nx, DELEGATE)?;
        let r = block(nx.governance().create_delegation(
            DelegationDraft {
                space_id: DEFAULT_SPACE.into(),
                delegator_principal: READER.into(),
                delegate_principal: DELEGATE.into(),
                actions: vec!["read".into(), "search".into(), "discover".into(), "project".into(), "read_history".into()],
                ..Default::default()
            },
            READER,
        ));
        delegated &= r.is_ok();
    }
    rep.probe(if delegated { "delegation_without_restated_ceiling_created" } else { "delegation_without_restated_ceiling_refused" }, 1);
    sim_a.install_clock_here();
    let low_names = ["Alice", "Bob", "Carol", "Dora"];
    let high_names = ["Secret One", "Secret Two", "Secret Three"];
    // per-store registries of low concepts (ids differ between the stores)
    let mut low_full: Vec<String> = Vec::new();
    let mut low_clone: Vec<String> = Vec::new();
    let mut high_full: Vec<String> = Vec::new();
    let mut rng = Rng::stream(case.seed, "ni");
    let classify = |nx: &CognitiveNexus, sess: &Session, out: &Out, label: &str, quarantine: bool| -> Result<(), Violation> {
        let _ = nx;
        for c in out.result["changes"].as_array().cloned().unwrap_or_default() {
            let id = c["id"].as_str().unwrap_or("");
            let Ok(eid) = id.parse::<ElementId>() else { continue };
            if quarantine {
                block(sess.quarantine(DEFAULT_SPACE, eid, "andasim")).map_err(|e| violation!("c19.setup", "quarantine({id}) failed: {e:?}"))?;
            } else {
                block(sess.classify(DEFAULT_SPACE, eid, label)).map_err(|e| violation!("c19.setup", "classify({id},{label}) failed: {e:?}"))?;
            }
        }
        Ok(())
    };
    let mut executed = Vec::new();
    for (i, (high, kind)) in case.history.iter().enumerate() {
        let pick = |r: &mut Rng, v: &Vec<String>| -> Option<usize> { if v.is_empty() { None } else { Some(r.usize(v.len())) } };
        // build the statement once, symbolically, then instantiate per store
        let (template, refs): (String, Vec<(bool, usize)>) = match (high, kind % 4) {
            (false, 0) | (false, 1) => (format!("CREATE CONCEPT ?x {{ TYPE \"Person\" NAME \"{}\" }}", low_names[rng.usize(low_names.len())]), vec![]),
            // low claims run "upwards" (a <= b in creation order), hidden claims
            // between two low concepts "downwards", so a tuple is never shared by
            // a visible and a hidden claim (the clone would classify it differently)
            (false, _) => match (pick(&mut rng, &low_full), pick(&mut rng, &low_full)) {
                (Some(a), Some(b)) => ("ASSERT (:s, \"prefers\", :o) { by: :s, mode: \"stated\", confidence: 0.8 }".to_string(), vec![(false, a.min(b)), (false, a.max(b))]),
                _ => (format!("CREATE CONCEPT ?x {{ TYPE \"Person\" NAME \"{}\" }}", low_names[i % 4]), vec![]),
            },
            (true, 0) | (true, 1) => (format!("CREATE CONCEPT ?x {{ TYPE \"Person\" NAME \"{}\" }}", high_names[rng.usize(high_names.len())]), vec![]),
            (true, 2) if low_full.len() >= 2 => {
                // a hidden edge between two visible concepts: walks must not cross it
                let (a, b) = (rng.usize(low_full.len()), rng.usize(low_full.len()));
                if a == b {
                    (format!("CREATE CONCEPT ?x {{ TYPE \"Person\" NAME \"{}\" }}", high_names[i % 3]), vec![])
                } else {
                    rep.probe("hidden_edges_between_visible_concepts", 1);
                    ("ASSERT (:s, \"prefers\", :o) { by: :s, mode: \"stated\", confidence: 0.9 }".to_string(), vec![(false, a.max(b)), (false, a.min(b))])
                }
            }
            (true, _) => match (pick(&mut rng, &low_full), pick(&mut rng, &high_full)) {
                // a high claim may reference low elements; a low statement never references high ones
                (Some(a), Some(b)) => ("ASSERT (:s, \"prefers\", :o) { by: :s, mode: \"stated\", confidence: 0.9 }".to_string(), vec![(false, a), (true, b)]),
                _ => (format!("CREATE CONCEPT ?x {{ TYPE \"Person\" NAME \"{}\" }}", high_names[i % 3]), vec![]),
            },
        };
        let params_for = |lows: &Vec<String>, highs: &Vec<String>| -> Json {
            let mut m = serde_json::Map::new();
            for (slot, (is_high, ix)) in ["s", "o"].iter().zip(refs.iter()) {
                let id = if *is_high { highs[*ix].clone() } else { lows[*ix].clone() };
                m.insert(slot.to_string(), serde_json::json!({"id": id}));
            }
            Json::Object(m)
        };
        let out = block(exec_p(&owner_full, &template, &params_for(&low_full, &high_full), false));
        if !out.ok() {
            // e.g. the same proposition asserted twice by the same actor is fine; a refusal is applied to neither store
            continue;
        }
        if *high {
            classify(&full, &owner_full, &out, "secret", case.quarantine_instead)?;
            if let Some(id) = handle_of(&out, "x") {
                high_full.push(id);
            }
            rep.probe("high_statements", 1);
        } else {
            if let Some(id) = handle_of(&out, "x") {
                low_full.push(id);
            }
            let out2 = block(exec_p(&owner_clone, &template, &params_for(&low_clone, &vec![]), false));
            if !out2.ok() {
                return Err(violation!("c19.harness", "low statement `{template}` committed on the full store but failed on the clone: {:?}", out2.error));
            }
            if let Some(id) = handle_of(&out2, "x") {
                low_clone.push(id);
            }
            rep.probe("low_statements", 1);
        }
        executed.push(format!("{}: {template}", if *high { "HIGH" } else { "low" }));
    }
    // a grant narrowed to listed elements discloses exactly those: half of the
    // visible concepts are listed, the other half - same kind, same type, same
    // classification - must stay invisible (decided by id lookup)
    if low_full.len() >= 2 {
        const SCOPED: &str = "kip:principal:scoped";
        agent(&full, SCOPED)?;
        let mut listed: Vec<String> = low_full.iter().step_by(2).cloned().collect();
        listed.sort();
        listed.dedup();
        block(full.governance().create_grant(
            GrantDraft {
                space_id: DEFAULT_SPACE.into(),
                grantee_principal: SCOPED.into(),
                actions: vec!["read".into(), "search".into(), "discover".into()],
                scope: anda_cognitive_nexus::governance::rows::AuthorityScope { elements: listed.clone(), ..Default::default() },
                ..Default::default()
            },
            SYSTEM_PRINCIPAL,
        ))
        .map_err(|e| violation!("c19.setup", "element-scoped grant failed: {e:?}"))?;
        let sess = full.session(AuthContext::principal(SCOPED));
        // what the owner sees of the listed concepts (some may have been merged away or archived)
        let owner_ids: Vec<String> = {
            let o = block(exec(&owner_full, r#"FIND(?c.id) WHERE { ?c CONCEPT {} }"#, false));
            let mut v: Vec<String> = o.result.as_array().map(|a| a.iter().filter_map(|x| x.as_str().map(|s| s.to_string())).collect()).unwrap_or_default();
            v.retain(|id| listed.contains(id));
            v.sort();
            v
        };
        for q in [r#"FIND(?c.id) WHERE { ?c CONCEPT {} }"#, r#"FIND(?c.id) WHERE { ?c CONCEPT {type: "Person"} } ORDER BY ?c.name"#] {
            let o = block(exec(&sess, q, false));
            let mut got: Vec<String> = o.result.as_array().map(|a| a.iter().filter_map(|x| x.as_str().map(|s| s.to_string())).collect()).unwrap_or_default();
            got.sort();
            if !o.ok() || got != owner_ids {
                return Err(violation!(
                    "c19.element-scope",
                    "principal {SCOPED} holds one grant narrowed to the elements {listed:?}; `{q}` returns {got:?} ({:?}), the listed concepts the owner sees are {owner_ids:?}; history: {:?}",
                    o.error,
                    executed
                ));
            }
        }
        let o = block(exec(&sess, r#"FIND(COUNT(?c)) WHERE { ?c CONCEPT {} }"#, false));
        let n = o.result.as_array().and_then(|a| a.first()).and_then(|x| x.as_u64()).or_else(|| o.result.as_u64());
        if n != Some(owner_ids.len() as u64) {
            return Err(violation!("c19.element-scope", "principal {SCOPED} (grant narrowed to {listed:?}) counts {:?} concepts, {} are listed and live", o.result, owner_ids.len()));
        }
        rep.probe("element_scoped_grants_checked", 1);
    }
    // the delegate's view of S equals its view of S' (errors included)
    {
        let d_full = full.session(AuthContext::principal(DELEGATE));
        let d_clone = clone.session(AuthContext::principal(DELEGATE));
        let (a, b) = (answers_as(&d_full), answers_as(&d_clone));
        for ((q, _, ra), (_, _, rb)) in a.iter().zip(b.iter()) {
            if ra != rb {
                let n = ra.len().min(rb.len());
                let pos = (0..n).find(|i| ra.as_bytes()[*i] != rb.as_bytes()[*i]).unwrap_or(n);
                let from = pos.saturating_sub(80);
                return Err(violation!(
                    "c19.interference.delegate",
                    "principal {DELEGATE}, delegate of {READER} (ceiling internal; {} hidden elements), gets for `{q}` on the full store …{}… but on the store without the hidden elements …{}…; history: {:?}",
                    high_full.len(),
                    &ra[from..(pos + 160).min(ra.len())],
                    &rb[from..(pos + 160).min(rb.len())],
                    executed
                ));
            }
            rep.probe("delegate_differential_answers_compared", 1);
        }
    }
    // the principal's view of S equals its view of S'
    let p_full = full.session(AuthContext::principal(READER));
    let p_clone = clone.session(AuthContext::principal(READER));
    let (a, b) = (answers_as(&p_full), answers_as(&p_clone));
    let mut score_leak: Option<Violation> = None;
    for ((q, ra_full, ra), (_, rb_full, rb)) in a.iter().zip(b.iter()) {
        if ra == rb && ra_full != rb_full && q.starts_with("SEARCH") {
            // same hits, same order, different relevance scores: the corpus statistics
            // behind the score include the hidden elements (recorded finding)
            if score_leak.is_none() {
                let n = ra_full.len().min(rb_full.len());
                let pos = (0..n).find(|i| ra_full.as_bytes()[*i] != rb_full.as_bytes()[*i]).unwrap_or(n);
                let from = pos.saturating_sub(40);
                score_leak = Some(violation!(
                    "c19.interference.search-score",
                    "`{q}` returns the same hits for {READER} on both stores but with different relevance scores (…{}… vs …{}…): the score depends on elements the principal may not read",
                    &ra_full[from..(pos + 40).min(ra_full.len())],
                    &rb_full[from..(pos + 40).min(rb_full.len())]
                ));
            }
            rep.probe("search_score_depends_on_hidden_elements", 1);
            continue;
        }
        if ra != rb {
            let n = ra.len().min(rb.len());
            let pos = (0..n).find(|i| ra.as_bytes()[*i] != rb.as_bytes()[*i]).unwrap_or(n);
            let from = pos.saturating_sub(80);
            return Err(violation!(
                format!("c19.interference.{}", q.split(|c: char| !c.is_ascii_alphabetic()).next().unwrap_or("q").to_lowercase()),
                "principal {READER} (ceiling internal; {} hidden by {}) gets for `{q}` on the full store …{}… but on the store without the hidden elements …{}…; history: {:?}",
                high_full.len(),
                if case.quarantine_instead { "quarantine" } else { "classification secret" },
                &ra[from..(pos + 160).min(ra.len())],
                &rb[from..(pos + 160).min(rb.len())],
                executed
            ));
        }
        rep.probe("differential_answers_compared", 1);
    }
    // paged history reads: page shapes (entries per page, whether a cursor
    // follows) and page contents must be the same on both stores - totals and
    // cursors computed over hidden transactions show up as empty or short pages
    for (first, next) in [
        ("HISTORY SPACE LIMIT 2", Box::new(|c: &str| format!("HISTORY SPACE LIMIT 2 CURSOR {c}")) as Box<dyn Fn(&str) -> String>),
        ("CHANGES AFTER SEQ 0 LIMIT 2", Box::new(|c: &str| format!("CHANGES SINCE {c} LIMIT 2")) as Box<dyn Fn(&str) -> String>),
        ("HISTORY SPACE LIMIT 1", Box::new(|c: &str| format!("HISTORY SPACE LIMIT 1 CURSOR {c}")) as Box<dyn Fn(&str) -> String>),
    ] {
        let pages = |sess: &Session| -> Vec<(usize, bool, String)> {
            let mut out = Vec::new();
            let mut cmd = first.to_string();
            for _ in 0..40 {
                let o = block(exec(sess, &cmd, false));
                if !o.ok() {
                    out.push((usize::MAX, false, format!("ERROR:{:?}", o.error)));
                    break;
                }
                let n = o.result.as_array().map(|a| a.len()).unwrap_or(0);
                let cursor = o.raw["next_cursor"].as_str().or_else(|| o.raw["results"][0]["next_cursor"].as_str()).map(|s| s.to_string());
                out.push((n, cursor.is_some(), canon_ids(&o.result)));
                match cursor {
                    Some(c) => cmd = next(&c),
                    None => break,
                }
            }
            out
        };
        let (pa, pb) = (pages(&p_full), pages(&p_clone));
        if pa != pb {
            let shape = |p: &[(usize, bool, String)]| p.iter().map(|(n, c, _)| (*n, *c)).collect::<Vec<_>>();
            return Err(violation!(
                "c19.interference.paging",
                "principal {READER} pages through `{first}`: on the full store the pages are {:?}, on the store without the hidden elements {:?} (entries per page, cursor follows); history: {:?}",
                shape(&pa),
                shape(&pb),
                executed
            ));
        }
        rep.probe("paged_history_reads_compared", pa.len() as u64);
    }
    // and the principal sees every low element the owner of the clone sees
    let names = |s: &Session| canon(&block(exec(s, r#"FIND(?c.name) WHERE { ?c CONCEPT {} } ORDER BY ?c.name"#, false)).result);
    if names(&p_clone) != names(&owner_clone) {
        return Err(violation!("c19.under-disclosure", "the principal does not see every readable concept: {} vs owner {}", names(&p_clone), names(&owner_clone)));
    }
    rep.evaluations = 1;
    let mut s = Sig::default();
    s.add_str(&format!("{:?}{}", case.history, case.quarantine_instead));
    rep.nontrivial_sigs = if high_full.is_empty() { vec![] } else { vec![s.0] };
    rep.trace_hash = s.0;
    rep.sample = Some(serde_json::json!({"mode": "non-interference", "history": executed, "hidden_by": if case.quarantine_instead { "quarantine" } else { "classification" }}));
    if let Some(v) = score_leak {
        return Err(v);
    }
    Ok(())
}

fn run_next_request(case: &Case, rep: &mut RunReport) -> Result<(), Violation> {
    let (sim, _st, nexus) = boot(case.seed, ClockMode::Tick(2))?;
    let owner = nexus.system_session();
    let o = block(exec(&owner, r#"CREATE CONCEPT ?x { TYPE "Person" NAME "Alice" }"#, false));
    if !o.ok() {
        return Err(violation!("c19.setup", "setup statement failed: {:?}", o.error));
    }
    agent(&nexus, READER)?;
    agent(&nexus, DELEGATE)?;
    let now = sim.clock().now_ms();
    let expiry_ms = now + 40;
    let until = if case.kind == 2 { chrono::DateTime::from_timestamp_millis(expiry_ms).unwrap().to_rfc3339_opts(chrono::SecondsFormat::Millis, true) } else { String::new() };
    let grant_id = read_grant(&nexus, READER, "", &until, true)?;
    let mut asker = READER;
    if case.kind == 6 || case.kind == 7 {
        // the delegator holds its authority as a co-owner of the space
        let mut space = block(nexus.store.get_space(DEFAULT_SPACE)).map_err(|e| violation!("c19.setup", "get_space failed: {e:?}"))?;
        space.owners.push(READER.to_string());
        block(nexus.store.put_space(&space)).map_err(|e| violation!("c19.setup", "put_space failed: {e:?}"))?;
    }
    if case.kind == 4 || case.kind >= 6 {
        block(nexus.governance().create_delegation(
            DelegationDraft { space_id: DEFAULT_SPACE.into(), delegator_principal: READER.into(), delegate_principal: DELEGATE.into(), actions: vec!["read".into()], ..Default::default() },
            READER,
        ))
        .map_err(|e| violation!("c19.setup", "create_delegation failed: {e:?}"))?;
        asker = DELEGATE;
    }
    let query = r#"FIND(?c.name) WHERE { ?c CONCEPT {} }"#;
    let mk_session = |who: &str| {
        nexus.session(AuthContext::principal(who))
    };
    // sanity: authorized before
    let s0 = mk_session(asker);
    let before = block(exec(&s0, query, false));
    if !before.ok() {
        if case.kind == 4 || case.kind >= 6 {
            // delegation plumbing differs; skip this kind rather than guess
            rep.evaluations = 1;
            rep.probe("delegation_setup_not_authorizing", 1);
            return Ok(());
        }
        return Err(violation!("c19.setup", "the grantee is not authorized before the revocation: {:?}", before.error));
    }
    // concurrent phase: requests by the principal race the control-plane change
    sim.set_park(true);
    let log: Arc<Mutex<Vec<(u64, u64, bool, String)>>> = Arc::new(Mutex::new(Vec::new())); // (invoke, return, ok, error)
    let done_at: Arc<Mutex<Option<u64>>> = Arc::new(Mutex::new(None));
    let mut tasks: Vec<LocalTask> = Vec::new();
    for t in 0..2u8 {
        let sess = mk_session(asker);
        let sim2 = sim.clone();
        let log = log.clone();
        let n = case.requests_before as usize + 2;
        tasks.push(Box::pin(async move {
            for _ in 0..n {
                if t == 1 {
                    sim2.yield_now().await;
                }
                let inv = sim2.tick();
                let o = exec(&sess, query, false).await;
                let ret = sim2.tick();
                log.lock().unwrap().push((inv, ret, o.ok(), o.error.unwrap_or_default()));
            }
        }));
    }
    {
        let nexus2 = nexus.clone();
        let sim2 = sim.clone();
        let done_at = done_at.clone();
        let kind = case.kind;
        let delay = case.requests_before;
        tasks.push(Box::pin(async move {
            for _ in 0..delay {
                sim2.yield_now().await;
            }
            let gov = nexus2.governance();
            let r: Result<(), String> = match kind {
                0 | 4 => gov.revoke_grant(grant_id, SYSTEM_PRINCIPAL).await.map_err(|e| format!("{e:?}")),
                // 6/8: the DELEGATOR (co-owner / grant holder) is suspended; 7/9: revoked - the delegate asks
                1 | 6 | 8 => gov.set_principal_status(READER, status::SUSPENDED, SYSTEM_PRINCIPAL).await.map(|_| ()).map_err(|e| format!("{e:?}")),
                5 | 7 | 9 => gov.set_principal_status(READER, status::REVOKED, SYSTEM_PRINCIPAL).await.map(|_| ()).map_err(|e| format!("{e:?}")),
                2 => {
                    // expiry: a forward clock jump across valid_until
                    sim2.clock().set_ms(expiry_ms + 5);
                    Ok(())
                }
                _ => {
                    let r = gov
                        .publish_policy(
                            PolicyDraft {
                                policy_id: "kip:policy:space".into(),
                                space_id: DEFAULT_SPACE.into(),
                                description: "deny".into(),
                                statements: vec![PolicyStatement { effect: "deny".into(), principals: vec![READER.into()], actions: vec!["read".into()], ..Default::default() }],
                            },
                            SYSTEM_PRINCIPAL,
                        )
                        .await
                        .map(|_| ())
                        .map_err(|e| format!("{e:?}"));
                    if r.is_ok() {
                        match nexus2.store.get_space(DEFAULT_SPACE).await {
                            Ok(mut space) => {
                                space.default_policy_id = "kip:policy:space".into();
                                nexus2.store.put_space(&space).await.map_err(|e| format!("{e:?}"))
                            }
                            Err(e) => Err(format!("{e:?}")),
                        }
                    } else {
                        r
                    }
                }
            };
            if r.is_ok() {
                *done_at.lock().unwrap() = Some(sim2.tick());
            }
        }));
    }
    let outc = sim.run(tasks);
    sim.set_park(false);
    if outc != SimOutcome::Done {
        return Err(violation!("c19.liveness", "revocation race did not complete: {outc:?}"));
    }
    let Some(t_done) = *done_at.lock().unwrap() else {
        return Err(violation!("c19.setup", "the control-plane change failed"));
    };
    let what = [
        "grant revocation",
        "principal suspension",
        "grant expiry (clock crossed valid_until)",
        "explicit deny policy",
        "revocation of the delegator's grant",
        "principal revocation",
        "suspension of the delegator (a co-owner of the space)",
        "revocation of the delegator (a co-owner of the space)",
        "suspension of the delegator (a grant holder)",
        "revocation of the delegator (a grant holder)",
    ][case.kind as usize % 10];
    for (inv, ret, ok, err) in log.lock().unwrap().iter() {
        if *inv > t_done {
            rep.probe("requests_after_change", 1);
            if *ok {
                return Err(violation!(
                    format!("c19.next-request.{}", case.kind),
                    "{what} had taken effect at event {t_done}, yet the request invoked at {inv} (returned {ret}) by {asker} was still answered"
                ));
            }
        } else if !*ok && err != "NotAuthorized" && err != "Unauthenticated" {
            return Err(violation!("c19.request-error", "a racing request failed with {err}"));
        }
    }
    // and one more, sequentially: the very next request is denied
    let after = block(exec(&mk_session(asker), query, false));
    if after.ok() {
        return Err(violation!(format!("c19.next-request.{}", case.kind), "after {what} the next request by {asker} was still answered"));
    }
    rep.evaluations = 1;
    {
        let st = sim.lock();
        rep.steps += st.step;
        if st.overlap_seen {
            rep.nontrivial_sigs.push(st.sig.0 ^ case.kind as u64);
        }
        rep.trace_hash = st.sig_full.0;
    }
    rep.probe(&format!("next_request_kind_{}", case.kind), 1);
    rep.sample = Some(serde_json::json!({"mode": "next-request", "change": what, "asker": asker, "requests": log.lock().unwrap().len()}));
    Ok(())
}

fn gov_dump(nexus: &CognitiveNexus) -> Result<BTreeMap<String, BTreeMap<u64, String>>, Violation> {
    let mut out = BTreeMap::new();
    for name in ["gov_principals", "gov_principal_groups", "gov_actor_bindings", "gov_grants", "gov_delegations", "gov_policies", "gov_approvals", "gov_audit"] {
        let c = block(nexus.store.db.open_collection(name.to_string(), async |_| Ok(()))).map_err(|e| violation!("c19.harness", "cannot open {name}: {e:?}"))?;
        let mut rows = BTreeMap::new();
        for id in c.ids() {
            let d = block(c.get(id)).map_err(|e| violation!("c19.harness", "cannot read {name}/{id}: {e:?}"))?;
            rows.insert(id, format!("{d:?}"));
        }
        out.insert(name.to_string(), rows);
    }
    Ok(out)
}

fn gov_blocks(nexus: &CognitiveNexus, ids: &[String]) -> BTreeMap<String, String> {
    let mut out = BTreeMap::new();
    for id in ids {
        if let Ok(eid) = id.parse::<ElementId>() {
            if let Ok(el) = block(nexus.store.get_element(eid)) {
                out.insert(id.clone(), canon(el.governance()));
            }
        }
    }
    out
}

fn run_control_plane_only(case: &Case, rep: &mut RunReport) -> Result<(), Violation> {
    let (sim, _st, nexus) = boot(case.seed, ClockMode::Tick(2))?;
    agent(&nexus, WRITER)?;
    agent(&nexus, READER)?;
    read_grant(&nexus, READER, "", "", false)?;
    writer_grant(&nexus, &["read", "search", "discover", "project", "read_history", "create", "update", "assert", "record_attributed_assertion", "assert_as_actor", "retract_own", "supersede_own", "archive", "tombstone", "merge_identity", "moderate_assertion"])?;
    let sessions = [nexus.system_session(), nexus.session(AuthContext::principal(WRITER)), nexus.session(AuthContext::principal(READER))];
    let mut reg = Registry::default();
    let mut grng = Rng::stream(case.gen_seed, "stmts");
    let mut sig = Sig::default();
    let mut purge_stub: Option<Violation> = None;
    let mut hrng = Rng::stream(case.gen_seed, "host");
    // Half of the runs open with a scripted derivation chain: an Evidence
    // record, an assertion citing it (classification and lineage derived from
    // it at creation), a host relabel of either end, then session commands that
    // change the derived assertion. `$E` / `$A` name the newest evidence / assertion.
    let mut script: std::collections::VecDeque<(String, Option<&'static str>)> = Default::default();
    if hrng.bool() {
        script.push_back((r#"CREATE EVIDENCE ?e { SET FIELDS {evidence_class: "Document", payload: "the source"} }"#.into(), None));
        if hrng.bool() {
            script.push_back(("HOST $E".into(), Some("secret")));
        }
        script.push_back((
            r#"MUTATE {
  CREATE CONCEPT ?s { TYPE "Person" NAME "Alice" }
  CREATE CONCEPT ?o { TYPE "Preference" NAME "Dark" }
  ENSURE PROPOSITION ?p (?s, "prefers", ?o)
  CREATE ASSERTION ?a { SET FIELDS { proposition: ?p, asserted_by: ?s, stance: "support", mode: "inferred", confidence: 0.6 } SET STRUCTURAL {("evidence", {id: "$E"}) {role: "support"}} }
}"#
            .into(),
            None,
        ));
        match hrng.below(3) {
            0 => script.push_back(("HOST $A".into(), Some("internal"))),
            1 => script.push_back(("HOST $E".into(), Some(*hrng.pick(&["secret", "internal"])))),
            _ => script.push_back(("HOST $A".into(), Some("public"))),
        }
        script.push_back((
            match hrng.below(3) {
                0 => r#"RETRACT ASSERTION "$A""#.to_string(),
                1 => r#"ARCHIVE "$A""#.to_string(),
                _ => r#"MUTATE {
  CREATE ASSERTION ?n { SET FIELDS { proposition: "$P", asserted_by: "$S", stance: "support", mode: "stated", confidence: 0.9 } }
  SUPERSEDE ASSERTION "$A" BY ?n
}"#
                .to_string(),
            },
            None,
        ));
        rep.probe("scripted_derivation_chains", 1);
    }
    let mut i = 0usize;
    while i < case.n {
        let scripted = script.pop_front().map(|(t, l)| {
            let fill = |t: &str| {
                t.replace("$E", reg.evidence.last().map(|s| s.as_str()).unwrap_or("E-999"))
                    .replace("$A", reg.assertions.last().map(|s| s.as_str()).unwrap_or("A-999"))
                    .replace("$P", reg.props.last().map(|s| s.as_str()).unwrap_or("P-999"))
                    .replace("$S", reg.persons.last().map(|s| s.as_str()).unwrap_or("C-999"))
            };
            (fill(&t), l)
        });
        if let Some((t, Some(label))) = &scripted {
            if let Ok(eid) = t.trim_start_matches("HOST ").parse::<ElementId>() {
                if block(sessions[0].classify(DEFAULT_SPACE, eid, label)).is_ok() {
                    rep.probe("host_relabelled_an_element", 1);
                }
            }
            continue;
        }
        // the host's control plane relabels elements now and then (the one
        // legitimate way a governance block changes): afterwards a derived
        // element's stored block may differ from what a fresh derivation from
        // its inputs would give, and session commands must leave it alone
        if hrng.chance(1, 3) {
            let known: Vec<String> = reg.versions.keys().cloned().collect();
            if !known.is_empty() {
                let id = &known[hrng.usize(known.len())];
                let label = *hrng.pick(&["secret", "internal", "public", "secret"]);
                if let Ok(eid) = id.parse::<ElementId>() {
                    if block(sessions[0].classify(DEFAULT_SPACE, eid, label)).is_ok() {
                        rep.probe("host_relabelled_an_element", 1);
                    }
                }
            }
        }
        let (st, who) = match scripted {
            Some((text, _)) => (sgen::Stmt { text, params: serde_json::json!({}), dry_run: false, family: "scripted".into() }, 0),
            None => (sgen::generate(&mut grng, &reg), grng.usize(sessions.len())),
        };
        let known: Vec<String> = reg.versions.keys().cloned().collect();
        let before = gov_dump(&nexus)?;
        let blocks_before = gov_blocks(&nexus, &known);
        let out = block(exec_p(&sessions[who], &st.text, &st.params, st.dry_run));
        sig.add_str(&out.status);
        let ctx = format!("statement #{i} by {} `{}` -> {} {:?}", ["owner", "writer", "reader"][who], st.text.replace('\n', " "), out.status, out.error);
        let after = gov_dump(&nexus)?;
        for (name, rows) in &before {
            let rows_after = &after[name];
            for (id, row) in rows {
                match rows_after.get(id) {
                    Some(r) if r == row => {}
                    Some(_) => return Err(violation!(format!("c19.control-plane-changed.{name}"), "{ctx}: row {id} of {name} changed")),
                    None => return Err(violation!(format!("c19.control-plane-changed.{name}"), "{ctx}: row {id} of {name} disappeared")),
                }
            }
            if name != "gov_audit" && rows_after.len() != rows.len() {
                return Err(violation!(format!("c19.control-plane-changed.{name}"), "{ctx}: {name} gained {} rows through a session command", rows_after.len() - rows.len()));
            }
        }
        let blocks_after = gov_blocks(&nexus, &known);
        for (id, b) in &blocks_before {
            if let Some(a) = blocks_after.get(id) {
                if a != b {
                    // PURGE replaces the whole element by an identity stub whose
                    // governance block is the purge marker (recorded finding); it is
                    // reported at the end so that it hides nothing else in the run
                    let stub = st.text.contains("PURGE ") && serde_json::from_str::<Json>(a).map(|j| j["purged"] == true).unwrap_or(false);
                    if stub {
                        rep.probe("purge_replaced_a_governance_block", 1);
                        if purge_stub.is_none() {
                            purge_stub = Some(violation!("c19.governance-block-changed.purge-stub", "{ctx}: the governance block of {id} changed from {b} to {a}"));
                        }
                        continue;
                    }
                    return Err(violation!("c19.governance-block-changed", "{ctx}: the governance block of {id} changed from {b} to {a}"));
                }
            }
        }
        if out.error.as_deref() == Some("NotAuthorized") {
            rep.probe("refused_by_authorization", 1);
        }
        if out.ok() && out.seq.is_some() && !st.dry_run {
            reg.absorb(&out.result["changes"]);
            let o = block(exec(&sessions[0], r#"FIND(?c.id) WHERE { ?c {type: "Person"} }"#, false));
            if let Some(rows) = o.result.as_array() {
                reg.persons = rows.iter().filter_map(|r| r.as_str().map(|s| s.to_string())).collect();
            }
            let o = block(exec(&sessions[0], r#"FIND(?c.id) WHERE { ?c CONCEPT {} }"#, false));
            if let Some(rows) = o.result.as_array() {
                reg.concepts = rows.iter().filter_map(|r| r.as_str().map(|s| s.to_string())).collect();
            }
        }
        rep.probe("session_commands_checked", 1);
        i += 1;
    }
    rep.evaluations = case.n as u64;
    rep.nontrivial_sigs = vec![sig.0 ^ case.gen_seed];
    rep.trace_hash = sig.0 ^ sim.full_signature();
    rep.sample = Some(serde_json::json!({"mode": "control-plane-only", "commands": case.n}));
    if let Some(v) = purge_stub {
        return Err(v);
    }
    Ok(())
}

pub fn execute(case: &Case, rep: &mut RunReport) -> Result<(), Violation> {
    match case.mode {
        Mode::NonInterference => run_non_interference(case, rep),
        Mode::NextRequest => run_next_request(case, rep),
        Mode::ControlPlaneOnly => run_control_plane_only(case, rep),
    }
}

pub fn shrink(case: &Case) -> Vec<Case> {
    let mut out = Vec::new();
    for i in (0..case.history.len()).rev() {
        let mut c = case.clone();
        c.history.remove(i);
        out.push(c);
    }
    if case.n > 1 {
        let mut c = case.clone();
        c.n -= 1;
        out.push(c);
    }
    if case.requests_before > 0 {
        let mut c = case.clone();
        c.requests_before -= 1;
        out.push(c);
    }
    out
}
