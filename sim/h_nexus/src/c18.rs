//! C18 — reading AS OF a past point returns what was current then.

use serde::{Deserialize, Serialize};
use simcore::batch::{RunReport, Tier, Violation};
use simcore::rng::{Rng, Sig};
use simcore::{ClockMode, Sim, SimConfig, SimStore, violation};
use std::collections::BTreeMap;

use crate::stmt::{self as sgen, Registry, Stmt};
use crate::world::*;

#[derive(Clone, Debug, Serialize, Deserialize)]
pub struct Case {
    pub seed: u64,
    pub n: usize,
    pub gen_seed: u64,
    pub clock: ClockMode,
    /// take crash forks inside these statement indexes
    pub fork_in: Vec<usize>,
    pub purge: bool,
    /// statement indexes before which the host activates another Schema Lock
    /// (alternating between an empty lock and the full one)
    #[serde(default)]
    pub schema_flips: Vec<usize>,
}

pub fn generate(case_seed: u64, _idx: u64, tier: Tier) -> Case {
    let mut rng = Rng::stream(case_seed, "c18");
    let n = rng.range(6, if tier == Tier::Thorough { 26 } else { 14 }) as usize;
    Case {
        seed: case_seed,
        n,
        gen_seed: rng.next_u64(),
        clock: match rng.below(3) {
            0 => ClockMode::Frozen,
            1 => ClockMode::Tick(3),
            _ => ClockMode::Jumpy(5000),
        },
        fork_in: (0..2).map(|_| rng.usize(n)).collect(),
        purge: rng.chance(1, 4),
        schema_flips: if rng.chance(1, 3) {
            let at = rng.range(2, n as u64 - 1) as usize;
            let mut v = vec![at];
            if rng.chance(2, 3) {
                v.push(at + rng.range(1, 3) as usize);
            }
            v
        } else {
            vec![]
        },
    }
}

fn history_queries() -> Vec<String> {
    let mut q: Vec<String> = battery(&[]).into_iter().filter(|q| q.starts_with("FIND")).collect();
    q.push("DESCRIBE SCHEMA ENVIRONMENT".into());
    // matchers and filters on lifecycle state and on plain (non-indexed) fields
    for extra in [
        r#"FIND(?c.name) WHERE { ?c CONCEPT {state: "archived"} }"#,
        r#"FIND(?c.name) WHERE { ?c CONCEPT {state: "tombstoned"} }"#,
        r#"FIND(?a.id) WHERE { ?a ASSERTION {state: "retracted"} }"#,
        r#"FIND(?a.id) WHERE { ?a ASSERTION {confidence: 0.9} }"#,
        r#"FIND(?a.id) WHERE { ?a ASSERTION {stance: "support"} }"#,
        r#"FIND(?c.name) WHERE { ?c CONCEPT {} FILTER(?c.name != "Alice") }"#,
        r#"FIND(?c.name) WHERE { ?c CONCEPT {type: "Person"} } ORDER BY ?c.name LIMIT 2"#,
        // list-valued fields of a projected belief
        r#"FIND(?s.name, ?b.support.assertion_ids, ?b.opposition.assertion_ids) WHERE { ?p PROPOSITION (?s, "prefers", ?o) ?b BELIEF (?p) }"#,
    ] {
        q.push(extra.into());
    }
    q
}

async fn answers(session: &anda_cognitive_nexus::nexus::Session, suffix: &str) -> Vec<(String, String)> {
    let mut out = Vec::new();
    for q in history_queries() {
        // the coordinate clause follows the WHERE block, before the solution modifiers
        let cmd = if suffix.is_empty() {
            q.clone()
        } else {
            match q.find(" ORDER BY").or_else(|| q.find(" LIMIT")) {
                Some(i) => format!("{} {suffix}{}", &q[..i], &q[i..]),
                None => format!("{q} {suffix}"),
            }
        };
        let o = exec(session, &cmd, false).await;
        let mut res = o.result.clone();
        if q.starts_with("DESCRIBE") {
            // the historical form adds the coordinate it was resolved at; that is
            // the question, not the state
            if let Some(m) = res.as_object_mut() {
                m.remove("snapshot_seq");
            }
        }
        let ans = if o.ok() { canon(&normalize(&res, true)) } else { format!("ERROR:{}", o.error.clone().unwrap_or_default()) };
        out.push((q, ans));
    }
    out
}

fn first_diff(a: &[(String, String)], b: &[(String, String)]) -> Option<String> {
    for ((qa, ra), (_, rb)) in a.iter().zip(b.iter()) {
        if ra != rb {
            let n = ra.len().min(rb.len());
            let pos = (0..n).find(|i| ra.as_bytes()[*i] != rb.as_bytes()[*i]).unwrap_or(n);
            let from = pos.saturating_sub(80);
            return Some(format!("`{qa}`: recorded …{}… replayed …{}…", &ra[from..(pos + 140).min(ra.len())], &rb[from..(pos + 140).min(rb.len())]));
        }
    }
    None
}

fn check_replays(session: &anda_cognitive_nexus::nexus::Session, recorded: &BTreeMap<u64, Vec<(String, String)>>, which: &[u64], ctx: &str, rep: &mut RunReport) -> Result<(), Violation> {
    for s in which {
        let want = &recorded[s];
        for suffix in [format!("AS OF SEQ {s}"), format!("AS OF TX \"kip:space:default#{s}\"")] {
            if *s == 0 && suffix.contains("TX") {
                continue;
            }
            let got = block(answers(session, &suffix));
            if let Some(d) = first_diff(want, &got) {
                return Err(violation!("c18.past-changed", "{ctx}: {suffix} no longer returns what was current then: {d}"));
            }
            rep.probe("historical_replays_checked", 1);
        }
    }
    Ok(())
}

pub fn execute(case: &Case, rep: &mut RunReport) -> Result<(), Violation> {
    let mut cfg = SimConfig::simple(case.seed);
    cfg.park = false;
    cfg.clock = case.clock.clone();
    cfg.start_ms = BASE_MS + 60_000;
    let sim = Sim::new(&cfg);
    sim.install_clock_here();
    let store = SimStore::new(sim.clone(), base_image());
    let nexus = block(open_nexus(&store)).map_err(|e| violation!("c18.boot", "nexus failed to open: {e}"))?;
    let session = nexus.system_session();
    let mut reg = Registry::default();
    let mut grng = Rng::stream(case.gen_seed, "stmts");
    let mut recorded: BTreeMap<u64, Vec<(String, String)>> = BTreeMap::new();
    let mut commit_ms: BTreeMap<u64, String> = BTreeMap::new();
    recorded.insert(0, block(answers(&session, "")));
    let mut sig = Sig::default();
    let mut crng = Rng::stream(case.seed, "checks");
    let mut forks_to_check: Vec<(simcore::store::Fork, Vec<u64>)> = Vec::new();
    let mut last_seq = 0u64;
    let mut empty_lock_active = false;
    let mut purged_any = false;
    // one history in eight starts with more than ten claims about one tuple
    // (element ids pass from one digit to two)
    let mut scripted: std::collections::VecDeque<Stmt> = Default::default();
    if simcore::rng::derive(case.seed, "many-claims") % 8 == 0 {
        scripted.push_back(Stmt {
            text: "MUTATE {\n  CREATE CONCEPT ?s { TYPE \"Person\" NAME \"Alice\" }\n  CREATE CONCEPT ?o { TYPE \"Preference\" NAME \"Dark\" }\n  ENSURE PROPOSITION ?p (?s, \"prefers\", ?o)\n}".into(),
            params: serde_json::json!({}),
            dry_run: false,
            family: "scripted".into(),
        });
        for k in 0..11 {
            scripted.push_back(Stmt {
                text: format!("ASSERT (:s, \"prefers\", :o) {{ by: :s, mode: \"stated\", confidence: 0.{}, stance: \"{}\" }}", 3 + k % 6, if k % 4 == 3 { "reject" } else { "support" }),
                params: serde_json::json!({"s": {"id": "$S"}, "o": {"id": "$O"}}),
                dry_run: false,
                family: "scripted".into(),
            });
        }
        rep.probe("histories_with_more_than_ten_claims_on_one_tuple", 1);
    }
    let total = if scripted.is_empty() { case.n } else { case.n.max(13) };
    for i in 0..total {
        if case.schema_flips.contains(&i) {
            // a schema activation is a committed point of the history like any
            // other: names resolve differently after it, never before it
            let lock = if empty_lock_active { full_lock() } else { anda_cognitive_nexus::schema::SchemaLock::default() };
            block(nexus.activate_schema(anda_cognitive_nexus::nexus::DEFAULT_SPACE, lock)).map_err(|e| violation!("c18.harness", "schema activation failed: {e:?}"))?;
            empty_lock_active = !empty_lock_active;
            let snap = block(exec(&session, "SNAPSHOT", false));
            let s = snap.result["snapshot_seq"].as_u64().or_else(|| snap.result["space_seq"].as_u64()).ok_or_else(|| violation!("c18.harness", "SNAPSHOT does not report the sequence: {:?}", snap.raw))?;
            if s <= last_seq {
                return Err(violation!("c18.harness", "schema activation did not produce a new coordinate (sequence {s}, last {last_seq})"));
            }
            last_seq = s;
            let live = block(answers(&session, ""));
            let now_as_of = block(answers(&session, &format!("AS OF SEQ {s}")));
            if let Some(d) = first_diff(&live, &now_as_of) {
                return Err(violation!("c18.present-vs-asof", "after a schema activation (sequence {s}): the live answer differs from AS OF SEQ {s} taken immediately: {d}"));
            }
            recorded.insert(s, live);
            let h = block(exec(&session, "HISTORY SPACE", false));
            let mut listed = false;
            if let Some(rows) = h.result.as_array() {
                for r in rows {
                    if let (Some(sq), Some(t)) = (r["space_seq"].as_u64(), r["committed_at"].as_str()) {
                        commit_ms.insert(sq, t.to_string());
                        listed |= sq == s;
                    }
                }
            }
            if !listed {
                return Err(violation!("c18.harness", "HISTORY SPACE does not list the schema activation at sequence {s}: {:?}", h.result));
            }
            rep.probe("schema_activations_in_history", 1);
            let keys: Vec<u64> = recorded.keys().copied().collect();
            check_replays(&session, &recorded, &keys, &format!("after the schema activation at sequence {s}"), rep)?;
        }
        let mut st: Stmt = match scripted.pop_front() {
            Some(mut st) => {
                let txt = st.params.to_string().replace("$S", reg.persons.first().map(|s| s.as_str()).unwrap_or("C-1")).replace("$O", reg.concepts.iter().find(|c| !reg.persons.contains(c)).map(|s| s.as_str()).unwrap_or("C-2"));
                st.params = serde_json::from_str(&txt).unwrap();
                st
            }
            None => sgen::generate(&mut grng, &reg),
        };
        st.dry_run = false;
        if case.purge && i == case.n / 2 && !reg.concepts.is_empty() {
            st = Stmt { text: format!("PURGE \"{}\" REFERENCE POLICY \"tombstone_reference\" CONFIRM \"PURGE\"", reg.concepts[0]), params: serde_json::json!({}), dry_run: false, family: "purge".into() };
        }
        let forking = case.fork_in.contains(&i);
        if forking {
            store.set_record_forks(true);
        }
        let out = block(exec_p(&session, &st.text, &st.params, false));
        if forking {
            store.set_record_forks(false);
            let mut fs = store.take_forks();
            if !fs.is_empty() {
                let pick = crng.usize(fs.len());
                let f = fs.swap_remove(pick);
                // coordinates committed before this statement began
                forks_to_check.push((f, recorded.keys().copied().filter(|s| *s <= last_seq).collect()));
            }
        }
        sig.add_str(&st.family);
        sig.add_str(&out.status);
        let ctx = format!("after statement #{i} `{}` -> {} {:?}", st.text.replace('\n', " "), out.status, out.error);
        if out.ok() && out.seq.is_some() {
            let s = out.seq.unwrap();
            last_seq = s;
            reg.absorb(&out.result["changes"]);
            let o = block(exec(&session, r#"FIND(?c.id) WHERE { ?c {type: "Person"} }"#, false));
            if let Some(rows) = o.result.as_array() {
                reg.persons = rows.iter().filter_map(|r| r.as_str().map(|s| s.to_string())).collect();
            }
            let o = block(exec(&session, r#"FIND(?c.id) WHERE { ?c CONCEPT {} }"#, false));
            if let Some(rows) = o.result.as_array() {
                reg.concepts = rows.iter().filter_map(|r| r.as_str().map(|s| s.to_string())).collect();
            }
            if st.text.contains("PURGE ") {
                purged_any = true;
                // a purge is the one thing allowed to change the past: re-baseline
                rep.probe("purges_committed", 1);
                let keys: Vec<u64> = recorded.keys().copied().collect();
                for k in keys {
                    recorded.insert(k, block(answers(&session, &format!("AS OF SEQ {k}"))));
                }
            }
            // what is current now, recorded at the coordinate this commit produced
            let live = block(answers(&session, ""));
            // the present and "AS OF the coordinate just produced" agree right away
            let now_as_of = block(answers(&session, &format!("AS OF SEQ {s}")));
            if let Some(d) = first_diff(&live, &now_as_of) {
                return Err(violation!("c18.present-vs-asof", "{ctx}: the live answer differs from AS OF SEQ {s} taken immediately: {d}"));
            }
            recorded.insert(s, live);
            let h = block(exec(&session, "HISTORY SPACE", false));
            if let Some(rows) = h.result.as_array() {
                for r in rows {
                    if let (Some(sq), Some(t)) = (r["space_seq"].as_u64(), r["committed_at"].as_str()) {
                        commit_ms.insert(sq, t.to_string());
                    }
                }
            }
            rep.probe("commits_recorded", 1);
        }
        // replay a sample of earlier coordinates after EVERY statement
        let keys: Vec<u64> = recorded.keys().copied().collect();
        let mut which: Vec<u64> = Vec::new();
        for _ in 0..3 {
            which.push(keys[crng.usize(keys.len())]);
        }
        which.push(*keys.last().unwrap());
        which.sort();
        which.dedup();
        check_replays(&session, &recorded, &which, &ctx, rep)?;
    }
    // at the end: every coordinate
    let all: Vec<u64> = recorded.keys().copied().collect();
    check_replays(&session, &recorded, &all, "at the end of the history", rep)?;

    // AS OF TIME
    let strictly_increasing = matches!(case.clock, ClockMode::Tick(_));
    let seqs: Vec<u64> = commit_ms.keys().copied().collect();
    for w in seqs.windows(2) {
        let (a, b) = (w[0], w[1]);
        let (ta, tb) = (&commit_ms[&a], &commit_ms[&b]);
        let (Ok(da), Ok(db)) = (chrono::DateTime::parse_from_rfc3339(ta), chrono::DateTime::parse_from_rfc3339(tb)) else { continue };
        if strictly_increasing && db.timestamp_millis() - da.timestamp_millis() >= 2 && recorded.contains_key(&a) {
            // an instant strictly between two distinct commit timestamps
            let mid = da + chrono::Duration::milliseconds(1);
            let suffix = format!("AS OF TIME \"{}\"", mid.to_rfc3339_opts(chrono::SecondsFormat::Millis, true));
            let got = block(answers(&session, &suffix));
            // every sequence number between a and b that committed nothing is the same state as a
            if let Some(d) = first_diff(&recorded[&a], &got) {
                // SNAPSHOT reports the coordinate itself; tolerate only that row differing in snapshot_seq
                return Err(violation!("c18.as-of-time", "{suffix} (strictly between the commits of sequences {a} and {b}) differs from what was current after {a}: {d}"));
            }
            rep.probe("as_of_time_exact_checked", 1);
        }
    }
    if matches!(case.clock, ClockMode::Tick(_) | ClockMode::Frozen) {
        // the exact commit instant: under a non-decreasing clock "the newest
        // transaction at or before t" is the LAST sequence whose commit time is t
        // (several commits may share a millisecond), and the state there is the
        // record of the newest recorded coordinate at or below it
        for (s, t) in commit_ms.iter() {
            let last_same = commit_ms.iter().filter(|(_, t2)| *t2 == t).map(|(s2, _)| *s2).max().unwrap_or(*s);
            let Some((coord, want)) = recorded.range(..=last_same).next_back() else { continue };
            let suffix = format!("AS OF TIME \"{t}\"");
            let got = block(answers(&session, &suffix));
            if let Some(d) = first_diff(want, &got) {
                if !first_diff_ignoring_snapshot(want, &got) {
                    return Err(violation!(
                        "c18.as-of-time.exact-instant",
                        "{suffix} is the commit instant of sequence {s} (newest transaction at that instant: {last_same}); the answer differs from what was current at coordinate {coord}: {d}"
                    ));
                }
            }
            rep.probe("as_of_time_commit_instant_checked", 1);
        }
    }
    if !strictly_increasing {
        // under stalls and jumps: must not error, and must equal SOME coordinate's record
        for (s, t) in commit_ms.iter().take(4) {
            let suffix = format!("AS OF TIME \"{t}\"");
            let got = block(answers(&session, &suffix));
            // an error is an answer like any other when it was the answer at some
            // coordinate (e.g. a type name under a Schema Lock that lacks it)
            let unexplained = got.iter().enumerate().find(|(qi, (_, a))| a.starts_with("ERROR:") && !a.contains("HistoricalSnapshotUnavailable") && !recorded.values().any(|r| r[*qi].1 == *a));
            if let Some((_, e)) = unexplained {
                return Err(violation!("c18.as-of-time-error", "{suffix} (commit time of sequence {s}) failed: {e:?}"));
            }
            if !got.iter().any(|(_, a)| a.contains("HistoricalSnapshotUnavailable")) && !recorded.values().any(|r| first_diff(r, &got).is_none() || first_diff_ignoring_snapshot(r, &got)) {
                return Err(violation!("c18.as-of-time-never-existed", "{suffix} returns a state that was never current at any coordinate"));
            }
            rep.probe("as_of_time_membership_checked", 1);
        }
    }

    // epistemic payload identical in every version of an assertion
    let mut payloads: BTreeMap<String, String> = BTreeMap::new();
    for s in recorded.keys() {
        let o = block(exec(&session, &format!(r#"FIND(?a.id, ?a.proposition_id, ?a.asserted_by, ?a.stance, ?a.mode, ?a.confidence) WHERE {{ ?a ASSERTION {{}} }} AS OF SEQ {s}"#), false));
        if let Some(rows) = o.result.as_array() {
            for r in rows {
                let id = r[0].as_str().unwrap_or("").to_string();
                let p = canon(&serde_json::json!([r[1], r[2], r[3], r[4], r[5]]));
                if let Some(prev) = payloads.insert(id.clone(), p.clone()) {
                    if prev != p {
                        return Err(violation!("c18.payload-rewritten", "assertion {id} carries epistemic payload {p} at sequence {s} but {prev} at another version"));
                    }
                }
            }
        }
    }
    rep.probe("assertion_payloads_compared", payloads.len() as u64);

    // crash + reopen: the past is still the past
    let mut sigs = vec![sig.0];
    for (f, coords) in forks_to_check {
        let mut cfg2 = SimConfig::simple(case.seed ^ 0xC18);
        cfg2.park = false;
        cfg2.record_trace = false;
        cfg2.start_ms = f.clock_ms + 50;
        let sim2 = Sim::new(&cfg2);
        sim2.install_clock_here();
        let st2 = SimStore::new(sim2, f.disk);
        sigs.push(SimStore::disk_signature(st2.disk()));
        let ctx = format!("after a crash before backend mutation #{} ({} {}) and reopen", f.mutations_before, f.next_kind.short(), f.next_path);
        let nx2 = block(open_nexus(&st2)).map_err(|e| violation!("c18.reopen-failed", "{ctx}: nexus failed to reopen: {e}"))?;
        let s2 = nx2.system_session();
        // purge re-baselining makes earlier records moot when the fork predates it; use the records as they were
        if !purged_any {
            check_replays(&s2, &recorded, &coords, &ctx, rep)?;
        }
        rep.fire("power_loss", 1);
        sim.install_clock_here();
    }
    rep.evaluations = recorded.len() as u64;
    rep.nontrivial_sigs = sigs;
    rep.merge_fired(&sim.fired());
    rep.sim_ms += sim.lock().sim_ms_covered;
    rep.trace_hash = sig.0 ^ sim.full_signature();
    rep.sample = Some(serde_json::json!({"statements": case.n, "coordinates_recorded": recorded.keys().collect::<Vec<_>>(), "clock": format!("{:?}", case.clock), "purge": case.purge}));
    Ok(())
}

/// Equality ignoring the SNAPSHOT row (which names the coordinate itself).
fn first_diff_ignoring_snapshot(a: &[(String, String)], b: &[(String, String)]) -> bool {
    a.iter().zip(b.iter()).all(|((q, ra), (_, rb))| q == "SNAPSHOT" || ra == rb)
}

pub fn shrink(case: &Case) -> Vec<Case> {
    let mut out = Vec::new();
    if case.n > 2 {
        let mut c = case.clone();
        c.n -= 1;
        out.push(c);
        let mut c = case.clone();
        c.n /= 2;
        out.push(c);
    }
    if !case.fork_in.is_empty() {
        let mut c = case.clone();
        c.fork_in.clear();
        out.push(c);
    }
    out
}
