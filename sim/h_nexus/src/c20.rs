//! C20 — belief is projected: silence is not rejection, repetition is not support.
//!
//! A generated multiset of assertions over one proposition and its functional
//! rivals is recorded by concurrent session tasks — KML takes the Nexus lock
//! exclusively, so the scheduler's choice of who gets the lock next IS the
//! recording order. The same multiset is run under several schedules; the
//! projected belief must be the same under all of them (confluence), equal a
//! harness-side reference computation, and obey the incremental laws.

use anda_kip::Json;
use serde::{Deserialize, Serialize};
use serde_json::json;
use simcore::batch::{RunReport, Tier, Violation};
use simcore::rng::{Rng, Sig};
use simcore::sim::{LocalTask, Outcome as SimOutcome};
use simcore::{ClockMode, Policy, Schedule, Sim, SimConfig, SimStore, violation};
use std::collections::{BTreeMap, BTreeSet};
use std::sync::{Arc, Mutex};

use crate::world::*;

#[derive(Clone, Debug, Serialize, Deserialize, PartialEq)]
pub struct ASpec {
    /// 0 = the target proposition, 1.. = rival values of the same slot
    pub target: u8,
    pub actor: u8,
    pub evidence: Vec<u8>,
    pub stance: u8, // 0 support 1 reject 2 uncertain
    /// per-mille confidence; None = unstated
    pub confidence: Option<u16>,
    pub mode: u8, // 0 stated 1 observed 2 inferred 3 imported 4 hypothetical 5 predicted
    /// validity window relative to T0 in minutes: (from, until); None = always
    pub window: Option<(i32, i32)>,
    /// 0 active, 1 retracted afterwards, 2 superseded afterwards (by a same-actor assertion with `sup_conf`)
    pub lifecycle: u8,
    pub sup_conf: u16,
}

#[derive(Clone, Debug, Serialize, Deserialize)]
pub struct Case {
    pub seed: u64,
    pub functional: bool,
    pub specs: Vec<ASpec>,
    /// evaluation times in minutes relative to T0
    pub eval_at: Vec<i32>,
    pub schedules: Vec<Schedule>,
    pub accept: Option<u16>,
    pub material: Option<u16>,
}

const MODES: [&str; 6] = ["stated", "observed", "inferred", "imported", "hypothetical", "predicted"];
const STANCES: [&str; 3] = ["support", "reject", "uncertain"];

fn t_at(min: i32) -> String {
    let base = chrono::DateTime::from_timestamp_millis(BASE_MS + 3_600_000).unwrap();
    (base + chrono::Duration::minutes(min as i64)).to_rfc3339_opts(chrono::SecondsFormat::Millis, true)
}

pub fn generate(case_seed: u64, idx: u64, tier: Tier) -> Case {
    let mut rng = Rng::stream(case_seed, "c20");
    let functional = rng.chance(2, 3);
    let n = if idx % 5 == 0 { 0 } else { rng.range(1, if tier == Tier::Thorough { 7 } else { 6 }) } as usize;
    let specs = (0..n)
        .map(|_| ASpec {
            target: if functional && rng.chance(1, 3) { rng.range(1, 2) as u8 } else { 0 },
            actor: rng.below(3) as u8,
            evidence: {
                let mut e: Vec<u8> = (0..3u8).filter(|_| rng.chance(1, 3)).collect();
                e.dedup();
                e
            },
            stance: rng.weighted(&[60, 25, 15]) as u8,
            confidence: if rng.chance(1, 6) { None } else { Some(*rng.pick(&[100u16, 300, 500, 700, 900, 1000])) },
            mode: rng.weighted(&[40, 15, 15, 10, 10, 10]) as u8,
            window: if rng.chance(1, 4) { Some(*rng.pick(&[(-60, 30), (30, 90), (-120, -30), (0, 60)])) } else { None },
            lifecycle: rng.weighted(&[75, 13, 12]) as u8,
            sup_conf: *rng.pick(&[200u16, 800]),
        })
        .collect();
    let mut specs: Vec<ASpec> = specs;
    if idx % 5 != 0 && rng.chance(1, 5) {
        // bridge template: three groups that look independent (distinct actors,
        // distinct or no evidence) and one assertion that ties all of them
        // together (an actor of one group citing the evidence of the others);
        // whether the engine sees one group depends on when the bridge is recorded
        let conf = |rng: &mut Rng| Some(*rng.pick(&[300u16, 500, 700, 900]));
        let plain = |actor: u8, evidence: Vec<u8>, c: Option<u16>| ASpec { target: 0, actor, evidence, stance: 0, confidence: c, mode: 0, window: None, lifecycle: 0, sup_conf: 200 };
        let mut t = vec![plain(0, vec![0], conf(&mut rng)), plain(1, vec![1], conf(&mut rng)), plain(2, vec![], conf(&mut rng)), plain(2, vec![0, 1], conf(&mut rng))];
        if rng.bool() {
            // or: evidence-only bridge across three evidence-disjoint groups
            t = vec![plain(0, vec![0], conf(&mut rng)), plain(1, vec![1], conf(&mut rng)), plain(2, vec![2], conf(&mut rng)), plain(rng.below(3) as u8, vec![0, 1, 2], conf(&mut rng))];
        }
        if let Some(extra) = specs.first().cloned() {
            if rng.bool() {
                t.push(extra);
            }
        }
        specs = t;
    }
    let k = if tier == Tier::Thorough { 4 } else { 3 };
    Case {
        seed: case_seed,
        functional,
        specs,
        // some evaluation instants coincide with window edges to the millisecond
        eval_at: vec![0, *rng.pick(&[45, 30, 60]), *rng.pick(&[-45, -30, -60]), *rng.pick(&[100, 90])],
        schedules: (0..k)
            .map(|i| Schedule::Seeded {
                seed: rng.next_u64(),
                policy: match i % 3 {
                    0 => Policy::Uniform,
                    1 => Policy::Pct(2),
                    _ => Policy::Sticky(10),
                },
            })
            .collect(),
        accept: if rng.chance(1, 3) { Some(*rng.pick(&[500u16, 900, 500])) } else { None },
        material: if rng.chance(1, 3) { Some(*rng.pick(&[100u16, 400, 500, 500])) } else { None },
    }
}

// ---------------------------------------------------------------------------
// reference projection

#[derive(Clone, Debug, PartialEq)]
pub struct RefBelief {
    pub status: &'static str,
    pub support: f64,
    pub opposition: f64,
    pub support_groups: usize,
    pub opposition_groups: usize,
    pub excluded: usize,
}

#[derive(Clone, Debug)]
struct Cand {
    actor: u8,
    evidence: Vec<u8>,
    conf: f64,
    opposes: bool,
    stance: u8,
}

/// Connected components (member indexes) over shared actor or shared evidence.
fn components(side: &[&Cand]) -> Vec<Vec<usize>> {
    let n = side.len();
    let mut comp: Vec<usize> = (0..n).collect();
    loop {
        let mut changed = false;
        for i in 0..n {
            for j in 0..n {
                let linked = side[i].actor == side[j].actor || side[i].evidence.iter().any(|e| side[j].evidence.contains(e));
                if linked && comp[i] != comp[j] {
                    let m = comp[i].min(comp[j]);
                    comp[i] = m;
                    comp[j] = m;
                    changed = true;
                }
            }
        }
        if !changed {
            break;
        }
    }
    let mut out: BTreeMap<usize, Vec<usize>> = BTreeMap::new();
    for i in 0..n {
        out.entry(comp[i]).or_default().push(i);
    }
    out.into_values().collect()
}

fn groups(side: &[&Cand]) -> Vec<f64> {
    // connected components over shared actor or shared evidence
    let n = side.len();
    let mut parent: Vec<usize> = (0..n).collect();
    fn find(p: &mut Vec<usize>, x: usize) -> usize {
        if p[x] != x {
            let r = find(p, p[x]);
            p[x] = r;
        }
        p[x]
    }
    for i in 0..n {
        for j in i + 1..n {
            let linked = side[i].actor == side[j].actor || side[i].evidence.iter().any(|e| side[j].evidence.contains(e));
            if linked {
                let (a, b) = (find(&mut parent, i), find(&mut parent, j));
                parent[a] = b;
            }
        }
    }
    let mut best: BTreeMap<usize, f64> = BTreeMap::new();
    for i in 0..n {
        let r = find(&mut parent, i);
        let e = best.entry(r).or_insert(0.0);
        *e = e.max(side[i].conf);
    }
    best.into_values().collect()
}

/// Effective assertions (after lifecycle resolution) and the reference answer.
pub fn reference(case: &Case, target: u8, at_min: i32, accept: f64, material: f64) -> RefBelief {
    let at = t_at(at_min);
    let mut cands: Vec<Cand> = Vec::new();
    let mut excluded = 0usize;
    let mut uncertain = 0usize;
    // every recorded assertion row: the specs, plus the superseding ones
    let mut rows: Vec<(ASpec, &'static str)> = Vec::new();
    for s in &case.specs {
        let status = match s.lifecycle {
            1 => "retracted",
            2 => "superseded",
            _ => "active",
        };
        rows.push((s.clone(), status));
        if s.lifecycle == 2 {
            let mut n = s.clone();
            n.confidence = Some(s.sup_conf);
            n.lifecycle = 0;
            n.window = None;
            rows.push((n, "active"));
        }
    }
    for (s, status) in &rows {
        let about_target = s.target == target;
        let rival = case.functional && s.target != target;
        if !about_target && !rival {
            continue;
        }
        let eligible = {
            let mut ok = *status == "active";
            if let Some((f, u)) = s.window {
                if t_at(f) > at || t_at(u) <= at {
                    ok = false;
                }
            }
            if s.mode >= 4 {
                ok = false;
            }
            ok
        };
        if about_target {
            if !eligible {
                excluded += 1;
                continue;
            }
            if s.stance == 2 {
                uncertain += 1;
            }
            cands.push(Cand { actor: s.actor, evidence: s.evidence.clone(), conf: s.confidence.map(|c| c as f64 / 1000.0).unwrap_or(0.5), opposes: false, stance: s.stance });
        } else if eligible && s.stance == 0 {
            // support for a rival value of a functional predicate opposes this one
            cands.push(Cand { actor: s.actor, evidence: s.evidence.clone(), conf: s.confidence.map(|c| c as f64 / 1000.0).unwrap_or(0.5), opposes: true, stance: 0 });
        }
    }
    let sup: Vec<&Cand> = cands.iter().filter(|c| !c.opposes && c.stance == 0).collect();
    let opp: Vec<&Cand> = cands.iter().filter(|c| c.opposes || c.stance == 1).collect();
    let (sg, og) = (groups(&sup), groups(&opp));
    let score = |g: &[f64]| 1.0 - g.iter().fold(1.0, |a, c| a * (1.0 - c.clamp(0.0, 1.0)));
    let (support, opposition) = (if sg.is_empty() { 0.0 } else { score(&sg) }, if og.is_empty() { 0.0 } else { score(&og) });
    let engaged = !sg.is_empty() || !og.is_empty() || uncertain > 0;
    let status = if !engaged {
        "insufficient"
    } else if support >= accept && opposition < material {
        "accepted"
    } else if opposition >= accept && support < material {
        "rejected"
    } else if support >= material && opposition >= material {
        "contested"
    } else {
        "uncertain"
    };
    RefBelief { status, support, opposition, support_groups: sg.len(), opposition_groups: og.len(), excluded }
}

fn belief_of(b: &Json) -> Option<RefBelief> {
    let status: &'static str = match b["status"].as_str()? {
        "accepted" => "accepted",
        "rejected" => "rejected",
        "contested" => "contested",
        "uncertain" => "uncertain",
        "insufficient" => "insufficient",
        _ => return None,
    };
    Some(RefBelief {
        status,
        support: b["support"]["score"].as_f64()?,
        opposition: b["opposition"]["score"].as_f64()?,
        support_groups: b["support"]["independent_groups"].as_u64()? as usize,
        opposition_groups: b["opposition"]["independent_groups"].as_u64()? as usize,
        excluded: b["explanation"]["excluded"].as_array()?.len(),
    })
}

fn same(a: &RefBelief, b: &RefBelief) -> bool {
    a.status == b.status && (a.support - b.support).abs() < 1e-9 && (a.opposition - b.opposition).abs() < 1e-9 && a.support_groups == b.support_groups && a.opposition_groups == b.opposition_groups && a.excluded == b.excluded
}

struct Recorded {
    props: Vec<String>,
    beliefs: BTreeMap<(u8, i32), RefBelief>,
    order: Vec<usize>,
}

fn record_and_project(case: &Case, schedule: &Schedule, si: usize, rep: &mut RunReport) -> Result<Recorded, Violation> {
    let mut cfg = SimConfig::simple(case.seed ^ si as u64);
    cfg.park = false;
    cfg.clock = ClockMode::Tick(3);
    cfg.schedule = schedule.clone();
    cfg.start_ms = BASE_MS + 3_600_000;
    let sim = Sim::new(&cfg);
    sim.install_clock_here();
    let store = SimStore::new(sim.clone(), base_image());
    store.set_response_delay(simcore::store::seeded_response_delay(case.seed));
    let nexus = block(open_nexus(&store)).map_err(|e| violation!("c20.boot", "nexus failed to open: {e}"))?;
    let session = nexus.system_session();
    let (pred, sty, oty) = if case.functional { ("status", "Service", "Status") } else { ("prefers", "Person", "Preference") };
    let setup = format!(
        r#"MUTATE {{
  CREATE CONCEPT ?subj {{ TYPE "{sty}" NAME "subject" }}
  CREATE CONCEPT ?o0 {{ TYPE "{oty}" NAME "v0" }}
  CREATE CONCEPT ?o1 {{ TYPE "{oty}" NAME "v1" }}
  CREATE CONCEPT ?o2 {{ TYPE "{oty}" NAME "v2" }}
  CREATE CONCEPT ?a0 {{ TYPE "Person" NAME "actor0" }}
  CREATE CONCEPT ?a1 {{ TYPE "Person" NAME "actor1" }}
  CREATE CONCEPT ?a2 {{ TYPE "Person" NAME "actor2" }}
  ENSURE PROPOSITION ?p0 (?subj, "{pred}", ?o0)
  ENSURE PROPOSITION ?p1 (?subj, "{pred}", ?o1)
  ENSURE PROPOSITION ?p2 (?subj, "{pred}", ?o2)
  CREATE EVIDENCE ?e0 {{ SET FIELDS {{ evidence_class: "user_statement", payload: "e0", observed_at: "{t}" }} }}
  CREATE EVIDENCE ?e1 {{ SET FIELDS {{ evidence_class: "user_statement", payload: "e1", observed_at: "{t}" }} }}
  CREATE EVIDENCE ?e2 {{ SET FIELDS {{ evidence_class: "user_statement", payload: "e2", observed_at: "{t}" }} }}
}}"#,
        t = t_at(-600)
    );
    let o = block(exec(&session, &setup, false));
    if !o.ok() {
        return Err(violation!("c20.setup", "setup failed: {:?} {}", o.error, canon(&o.raw["error"])));
    }
    let h = |n: &str| handle_of(&o, n).unwrap_or_default();
    let props = vec![h("p0"), h("p1"), h("p2")];
    let actors = [h("a0"), h("a1"), h("a2")];
    let evid = [h("e0"), h("e1"), h("e2")];
    // one task per assertion; whoever gets the lock next records next
    sim.set_park(true);
    let ids: Arc<Mutex<BTreeMap<usize, (String, u64)>>> = Arc::new(Mutex::new(BTreeMap::new()));
    let errs: Arc<Mutex<Vec<String>>> = Arc::new(Mutex::new(Vec::new()));
    let mut tasks: Vec<LocalTask> = Vec::new();
    let mk = |s: &ASpec, conf: Option<u16>, window: Option<(i32, i32)>| -> (String, Json) {
        let mut fields = vec![
            "proposition: :p".to_string(),
            "asserted_by: :by".to_string(),
            format!("stance: \"{}\"", STANCES[s.stance as usize % 3]),
            format!("mode: \"{}\"", MODES[s.mode as usize % 6]),
        ];
        if let Some(c) = conf {
            fields.push(format!("confidence: {}", c as f64 / 1000.0));
        }
        if let Some((f, u)) = window {
            fields.push(format!("valid_time: {{from: \"{}\", until: \"{}\"}}", t_at(f), t_at(u)));
        }
        let mut params = serde_json::Map::new();
        params.insert("p".into(), json!({"id": props[s.target as usize % 3]}));
        params.insert("by".into(), json!({"id": actors[s.actor as usize % 3]}));
        let structural = if s.evidence.is_empty() {
            String::new()
        } else {
            let cites: Vec<String> = s
                .evidence
                .iter()
                .map(|e| {
                    params.insert(format!("e{e}"), json!({"id": evid[*e as usize % 3]}));
                    format!("(\"evidence\", :e{e}) {{role: \"support\"}}")
                })
                .collect();
            format!(" SET STRUCTURAL {{ {} }}", cites.join(" "))
        };
        (format!("CREATE ASSERTION ?a {{ SET FIELDS {{ {} }}{structural} }}", fields.join(", ")), Json::Object(params))
    };
    for (i, s) in case.specs.iter().enumerate() {
        let sess = nexus.system_session();
        let (text, params) = mk(s, s.confidence, s.window);
        let ids = ids.clone();
        let errs = errs.clone();
        tasks.push(Box::pin(async move {
            let out = exec_p(&sess, &text, &params, false).await;
            match (out.ok(), handle_of(&out, "a"), out.seq) {
                (true, Some(id), Some(seq)) => {
                    ids.lock().unwrap().insert(i, (id, seq));
                }
                _ => errs.lock().unwrap().push(format!("assertion #{i} `{text}` failed: {:?} {}", out.error, canon(&out.raw["error"]["message"]))),
            }
        }));
    }
    let outc = sim.run(tasks);
    sim.set_park(false);
    if outc != SimOutcome::Done {
        return Err(violation!("c20.liveness", "recording tasks did not complete: {outc:?}"));
    }
    if let Some(e) = errs.lock().unwrap().first() {
        return Err(violation!("c20.record-failed", "{e}"));
    }
    rep.steps += sim.lock().step;
    let ids = ids.lock().unwrap().clone();
    let mut order: Vec<usize> = ids.keys().copied().collect();
    order.sort_by_key(|i| ids[i].1);
    // lifecycle follow-ups, sequentially
    for (i, s) in case.specs.iter().enumerate() {
        let aid = &ids[&i].0;
        match s.lifecycle {
            1 => {
                let o = block(exec(&session, &format!("RETRACT ASSERTION \"{aid}\""), false));
                if !o.ok() {
                    return Err(violation!("c20.record-failed", "retract of {aid} failed: {:?}", o.error));
                }
            }
            2 => {
                let (text, params) = mk(s, Some(s.sup_conf), None);
                let cmd = format!("MUTATE {{\n  {}\n  SUPERSEDE ASSERTION \"{aid}\" BY ?n\n}}", text.replace("?a ", "?n "));
                let o = block(exec_p(&session, &cmd, &params, false));
                if !o.ok() {
                    return Err(violation!("c20.record-failed", "supersession of {aid} failed: {:?} {}", o.error, canon(&o.raw["error"]["message"])));
                }
            }
            _ => {}
        }
    }
    // project
    let mut beliefs = BTreeMap::new();
    let epi = match (case.accept, case.material) {
        (None, None) => String::new(),
        (a, m) => {
            let mut parts = Vec::new();
            if let Some(a) = a {
                parts.push(format!("accept: {}", a as f64 / 1000.0));
            }
            if let Some(m) = m {
                parts.push(format!("material: {}", m as f64 / 1000.0));
            }
            format!(" WITH EPISTEMIC {{ {} }}", parts.join(", "))
        }
    };
    for target in 0..3u8 {
        for at in &case.eval_at {
            let cmd = format!("FIND(?b) WHERE {{ ?b BELIEF (id: :p) }} FOR TIME \"{}\"{epi}", t_at(*at));
            let o = block(exec_p(&session, &cmd, &json!({"p": props[target as usize]}), false));
            if !o.ok() {
                return Err(violation!("c20.projection-error", "`{cmd}` failed: {:?} {}", o.error, canon(&o.raw["error"]["message"])));
            }
            let b = &o.result[0];
            let Some(rb) = belief_of(b) else {
                return Err(violation!("c20.projection-shape", "`{cmd}` returned an unexpected shape: {}", canon(&o.result)));
            };
            // direct laws on the answer itself
            if !(0.0..=1.0).contains(&rb.support) || !(0.0..=1.0).contains(&rb.opposition) {
                return Err(violation!("c20.score-range", "`{cmd}`: scores out of [0,1]: {rb:?}"));
            }
            if b["policy"]["id"].as_str().unwrap_or("").is_empty() {
                return Err(violation!("c20.policy-unnamed", "`{cmd}`: the answer does not name its policy"));
            }
            if rb.status == "rejected" && rb.opposition_groups == 0 {
                return Err(violation!("c20.rejected-without-opposition", "`{cmd}`: rejected with no opposing group: {rb:?}"));
            }
            beliefs.insert((target, *at), rb);
        }
    }
    Ok(Recorded { props, beliefs, order })
}

pub fn execute(case: &Case, rep: &mut RunReport) -> Result<(), Violation> {
    let accept = case.accept.map(|a| a as f64 / 1000.0).unwrap_or(0.7);
    let material = case.material.map(|m| m as f64 / 1000.0).unwrap_or(0.3);
    if material > accept {
        // the engine refuses such settings; not a projection case
        rep.evaluations = 1;
        return Ok(());
    }
    let mut first: Option<Recorded> = None;
    let mut orders: BTreeSet<Vec<usize>> = BTreeSet::new();
    let mut sig = Sig::default();
    for (si, sch) in case.schedules.iter().enumerate() {
        let r = record_and_project(case, sch, si, rep)?;
        orders.insert(r.order.clone());
        // reference
        for ((target, at), got) in &r.beliefs {
            let want = reference(case, *target, *at, accept, material);
            if !same(got, &want) {
                return Err(violation!(
                    format!("c20.reference.{}", if got.status != want.status { "status" } else if got.support_groups != want.support_groups || got.opposition_groups != want.opposition_groups { "groups" } else if got.excluded != want.excluded { "excluded" } else { "score" }),
                    "belief about value v{target} at T0{at:+}min under recording order {:?}: engine says {got:?}, the reference (eligibility, corroboration components, 1-prod(1-max_c), thresholds {accept}/{material}) says {want:?}; assertions {:?}",
                    r.order,
                    case.specs
                ));
            }
            if want.status == "insufficient" {
                rep.probe("insufficient_checked", 1);
            }
            rep.probe("beliefs_vs_reference", 1);
        }
        // confluence
        if let Some(f) = &first {
            for (k, b) in &r.beliefs {
                if !same(b, &f.beliefs[k]) {
                    return Err(violation!("c20.order-dependent", "belief about v{} at T0{:+}min differs between recording orders {:?} and {:?}: {:?} vs {:?}", k.0, k.1, f.order, r.order, f.beliefs[k], b));
                }
            }
            rep.probe("confluence_pairs_checked", 1);
        } else {
            let _ = &r.props;
            first = Some(r);
        }
        sig.add(si as u64);
    }
    if orders.len() > 1 {
        rep.probe("multisets_with_distinct_recording_orders", 1);
        rep.probe("distinct_recording_orders", orders.len() as u64);
    }
    // Incremental laws. The engine's answers equal the reference's (checked
    // above for every target and time), so the laws are evaluated on the
    // reference for every "multiset minus one assertion" pair. The premise of
    // the repetition law is an assertion that attaches to ONE existing group;
    // an assertion that shares its actor with one group and its evidence with
    // another bridges two groups that were not independent after all, which
    // merges them (the documented grouping rule) and is outside the premise.
    // the effective rows: active assertions, with superseded ones replaced
    let mut eff = case.clone();
    eff.specs = case
        .specs
        .iter()
        .filter(|s| s.lifecycle != 1)
        .map(|s| {
            let mut n = s.clone();
            if s.lifecycle == 2 {
                n.confidence = Some(s.sup_conf);
                n.window = None;
            }
            n.lifecycle = 0;
            n
        })
        .collect();
    let case = &eff;
    for target in 0..3u8 {
        for i in 0..case.specs.len() {
            let mut fewer = case.clone();
            let removed = fewer.specs.remove(i);
            let plain = |s: &ASpec| s.target == target && s.stance == 0 && s.lifecycle == 0 && s.mode < 4 && s.window.map(|(f, u)| f <= 0 && 0 < u).unwrap_or(true);
            if !plain(&removed) {
                continue;
            }
            let (a, b) = (reference(&fewer, target, 0, accept, material), reference(case, target, 0, accept, material));
            // how many existing support groups does the added assertion link to?
            let others: Vec<&ASpec> = fewer.specs.iter().filter(|s| plain(s)).collect();
            let cands: Vec<Cand> = others.iter().map(|s| Cand { actor: s.actor, evidence: s.evidence.clone(), conf: s.confidence.map(|c| c as f64 / 1000.0).unwrap_or(0.5), opposes: false, stance: 0 }).collect();
            let refs: Vec<&Cand> = cands.iter().collect();
            let comps = components(&refs);
            let linked: Vec<usize> = comps
                .iter()
                .enumerate()
                .filter(|(_, members)| members.iter().any(|m| others[*m].actor == removed.actor || others[*m].evidence.iter().any(|e| removed.evidence.contains(e))))
                .map(|(ci, _)| ci)
                .collect();
            let conf = removed.confidence.map(|c| c as f64 / 1000.0).unwrap_or(0.5);
            match linked.len() {
                0 => {
                    if b.support_groups != a.support_groups + 1 || b.support + 1e-12 < a.support {
                        return Err(violation!("c20.law-independent", "an independent supporter must add one group and never lower the score: {a:?} -> {b:?}"));
                    }
                }
                1 => {
                    let gmax = comps[linked[0]].iter().map(|m| cands[*m].conf).fold(0.0, f64::max);
                    if b.support_groups > a.support_groups {
                        return Err(violation!("c20.law-repetition", "a repeat (same actor or already-cited evidence) increased the number of independent groups: {a:?} -> {b:?}"));
                    }
                    if conf <= gmax && (b.support - a.support).abs() > 1e-12 {
                        return Err(violation!("c20.law-repetition", "a repeat no more confident than its group changed the score: {a:?} -> {b:?}"));
                    }
                    if conf > gmax && b.support + 1e-12 < a.support {
                        return Err(violation!("c20.law-monotone", "raising a group's strongest confidence lowered the score: {a:?} -> {b:?}"));
                    }
                    rep.probe("repetition_law_checked", 1);
                }
                _ => {
                    if b.support_groups > a.support_groups {
                        return Err(violation!("c20.law-repetition", "a bridging assertion increased the number of groups: {a:?} -> {b:?}"));
                    }
                    rep.probe("bridging_assertions_seen", 1);
                }
            }
        }
    }
    rep.evaluations = case.schedules.len() as u64;
    let mut s2 = Sig::default();
    s2.add_str(&format!("{:?}", case.specs));
    rep.nontrivial_sigs = orders.iter().map(|o| {
        let mut s = s2.clone();
        s.add_str(&format!("{o:?}"));
        s.0
    }).collect();
    rep.trace_hash = sig.0 ^ s2.0;
    rep.sample = Some(serde_json::json!({"functional": case.functional, "assertions": case.specs.len(), "recording_orders_reached": orders.iter().collect::<Vec<_>>(), "specs": case.specs.iter().take(4).map(|s| format!("{s:?}")).collect::<Vec<_>>()}));
    Ok(())
}

pub fn shrink(case: &Case) -> Vec<Case> {
    let mut out = Vec::new();
    for i in (0..case.specs.len()).rev() {
        let mut c = case.clone();
        c.specs.remove(i);
        out.push(c);
    }
    if case.schedules.len() > 1 {
        let mut c = case.clone();
        c.schedules.truncate(case.schedules.len() - 1);
        out.push(c);
    }
    if case.eval_at.len() > 1 {
        for i in 0..case.eval_at.len() {
            let mut c = case.clone();
            c.eval_at = vec![case.eval_at[i]];
            out.push(c);
        }
    }
    for i in 0..case.specs.len() {
        let s = &case.specs[i];
        if s.window.is_some() {
            let mut c = case.clone();
            c.specs[i].window = None;
            out.push(c);
        }
        if !s.evidence.is_empty() {
            let mut c = case.clone();
            c.specs[i].evidence.clear();
            out.push(c);
        }
        if s.lifecycle != 0 {
            let mut c = case.clone();
            c.specs[i].lifecycle = 0;
            out.push(c);
        }
    }
    out
}
