#!/usr/bin/env python3
"""Folds the evidence of a second harness run into an evidence file.

usage: merge_evidence.py <main.json> <part.json>   (main.json is rewritten)
Counts are summed, phase / sample / real / stub lists concatenated, probe and
fault counters added; the level and rule of the main file are kept and the
part's rule is appended to it.
"""
import json, sys

main_p, part_p = sys.argv[1], sys.argv[2]
m = json.load(open(main_p))
p = json.load(open(part_p))
mc, pc = m["coverage"], p["coverage"]
for k in ("evaluations", "distinct_nontrivial", "simulated_runs", "scheduling_steps", "simulated_time_ms"):
    mc[k] = mc.get(k, 0) + pc.get(k, 0)
for k in ("phases", "samples", "known_findings_reproduced"):
    mc[k] = list(mc.get(k, [])) + list(pc.get(k, []))
for k in ("real_code", "stubbed"):
    mc[k] = list(mc.get(k, [])) + [x for x in pc.get(k, []) if x not in mc.get(k, [])]
for k in ("reach_probes", "faults_fired"):
    d = dict(mc.get(k, {}))
    for kk, v in pc.get(k, {}).items():
        d[kk] = d.get(kk, 0) + v
    mc[k] = d
mc["rule"] = mc.get("rule", "") + " || " + pc.get("rule", "")
m["assumptions"] = list(m.get("assumptions", [])) + [a for a in p.get("assumptions", []) if a not in m.get("assumptions", [])]
m["violations"] = m.get("violations", 0) + p.get("violations", 0)
m["wall_s"] = round(m.get("wall_s", 0) + p.get("wall_s", 0), 3)
wall_h = max(m["wall_s"], 1e-9) / 3600.0
mc["runs_per_hour"] = round(mc.get("simulated_runs", 0) / wall_h, 1)
mc["evaluations_per_hour"] = round(mc.get("evaluations", 0) / wall_h, 1)
json.dump(m, open(main_p, "w"), indent=1)
